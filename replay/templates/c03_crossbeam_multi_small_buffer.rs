//! Replay of the C03 defect fixed in Multi arc/Crossbeam `send_derived` (public API only). BUFFER_SIZE = 2, one listener: send(1), send(2) fill its queue; send(3)
//! used to take the `len_before <= 2 => { let _ = sender.try_send(..) }` arm although the queue was FULL (len_before == 2 == BUFFER_SIZE): the refused enqueue was
//! ignored, `send` answered Ok and the listener never saw event 3. After the fix a refused enqueue is retried until there is room (these channels wait by
//! documented design), so the consumer -- on another thread here -- receives 1, 2, 3.
//! Run: copy to <repo>/tests/ and `cargo test --offline --test c03_crossbeam_multi_small_buffer` -- FAILED with "LOST EVENT" before the fix.
use reactive_mutiny::prelude::advanced::*;
use std::{pin::Pin, sync::Arc, task::{Context, Poll, Wake, Waker}, time::Duration};
use futures::Stream;
struct NoopWaker;
impl Wake for NoopWaker { fn wake(self: Arc<Self>) {} }
#[test]
fn crossbeam_multi_small_buffer_loses_no_accepted_event() {
    let channel = ChannelMultiArcCrossbeam::<u32, 2, 1>::new("c03 small buffer");
    let (mut listener, _id) = channel.create_stream_for_new_events();
    assert!(channel.send(1).is_ok());
    assert!(channel.send(2).is_ok());
    // the consumer drains a little later, from another thread (after the fix the third send WAITS for room)
    let consumer = std::thread::spawn(move || {
        let waker = Waker::from(Arc::new(NoopWaker));
        let mut cx = Context::from_waker(&waker);
        let mut got = vec![];
        for _ in 0..40 {
            std::thread::sleep(Duration::from_millis(50));
            while let Poll::Ready(Some(e)) = Pin::new(&mut listener).poll_next(&mut cx) { got.push(*e); }
            if got.len() >= 3 { break }
        }
        got
    });
    assert!(channel.send(3).is_ok(), "send(3) answered that it was NOT accepted");
    let got = consumer.join().unwrap();
    assert_eq!(got, vec![1, 2, 3], "LOST EVENT: every send answered Ok, but the listener was handed {:?}", got);
}
