//! Replay of the defect fixed by the second C04/C20 repair of Uni movable/Atomic `send_with_async` (public API only, one thread, the consumer is polled
//! only after its waker fired). MAX_STREAMS = 4 but only stream #0 was created: send(1); send(2); a send_with_async starts (it samples len_before = 2
//! when it reserves its slot) and is suspended in its setter; the consumer receives 1 and 2, finds nothing else deliverable and parks; the setter
//! resumes, the send publishes its event and wakes stream #len_before = #2 -- which does not exist: nobody is woken, the event stays stuck.
//! Run: copy to <repo>/tests/ and `cargo test --offline --test c04_resumed_async_send_wakes_missing_stream` -- FAILED with "LOST EVENT" before the fix.

use reactive_mutiny::prelude::advanced::*;
use std::{
    future::Future,
    pin::Pin,
    sync::{Arc, atomic::{AtomicBool, AtomicU32, Ordering::SeqCst}},
    task::{Context, Poll, Wake, Waker},
};
use futures::Stream;

const BUFFER_SIZE: usize = 8;
type ChannelType = ChannelUniMoveAtomic<u32, BUFFER_SIZE, 4>;

/// Counts the wake-ups it receives
struct CountingWaker(AtomicU32);
impl Wake for CountingWaker {
    fn wake(self: Arc<Self>) { self.0.fetch_add(1, SeqCst); }
    fn wake_by_ref(self: &Arc<Self>) { self.0.fetch_add(1, SeqCst); }
}

/// A future that stays `Pending` until the shared flag is set -- our handle to keep the async setter suspended for as long as we want
struct Gate(Arc<AtomicBool>);
impl Future for Gate {
    type Output = ();
    fn poll(self: Pin<&mut Self>, _cx: &mut Context<'_>) -> Poll<()> {
        if self.0.load(SeqCst) { Poll::Ready(()) } else { Poll::Pending }
    }
}

/// The consumer task, as an executor sees it: runs only if it was awaken since its last run; once running, drains the stream until `Pending`
struct ConsumerTask<StreamType> {
    stream:     StreamType,
    wakes:      Arc<CountingWaker>,
    seen_wakes: u32,
    received:   Vec<u32>,
}
impl<StreamType: Stream<Item=u32> + Unpin> ConsumerTask<StreamType> {
    /// Returns `true` if the task was scheduled to run
    fn run_if_awaken(&mut self) -> bool {
        let wakes = self.wakes.0.load(SeqCst);
        if wakes == self.seen_wakes {
            return false
        }
        self.seen_wakes = wakes;
        self.drain();
        true
    }
    fn drain(&mut self) {
        let waker = Waker::from(self.wakes.clone());
        let mut cx = Context::from_waker(&waker);
        while let Poll::Ready(Some(item)) = Pin::new(&mut self.stream).poll_next(&mut cx) {
            self.received.push(item);
        }
    }
}

#[test]
fn c04_resumed_async_send_wakes_a_stream_that_does_not_exist() {
    let channel: &'static Arc<ChannelType> = Box::leak(Box::new(ChannelType::new("seeded demo 2")));
    let (stream, _stream_id) = channel.create_stream();
    let mut consumer = ConsumerTask { stream, wakes: Arc::new(CountingWaker(AtomicU32::new(0))), seen_wakes: 0, received: vec![] };

    let producer_waker = Waker::from(Arc::new(CountingWaker(AtomicU32::new(0))));
    let mut producer_cx = Context::from_waker(&producer_waker);

    // 1. the consumer parks on the empty channel (registering its waker may cause a spurious wake-up: absorb it)
    consumer.drain();
    consumer.run_if_awaken();
    assert!(consumer.received.is_empty(), "the channel should be empty");
    assert!(!consumer.run_if_awaken(), "the consumer should be parked by now");

    // 2. a plain send: accepted; the consumer is notified, but didn't get the chance to run yet
    assert!(channel.send(1).is_ok(), "send(1) was refused"); assert!(channel.send(2).is_ok(), "send(2) was refused");

    // 3. the async send starts -- there is 1 event in the channel by now -- and gets suspended in its setter
    let gate = Arc::new(AtomicBool::new(false));
    let setter_gate = Gate(gate.clone());
    let mut async_send = Box::pin(channel.send_with_async(move |slot: &'static mut u32| async move {
        setter_gate.await;
        *slot = 100;
        slot
    }));
    assert!(async_send.as_mut().poll(&mut producer_cx).is_pending(), "the async send should be suspended in its setter");

    // 4. the consumer runs: gets the plain event without waiting for the suspended send, then parks
    assert!(consumer.run_if_awaken(), "the consumer was not notified of `send(1)`");
    assert_eq!(consumer.received, vec![1, 2], "the event accepted before the async send was suspended was not delivered");

    assert!(!consumer.run_if_awaken(), "the consumer should be parked by now");

    // 6. resume the setter: the async send completes...
    gate.store(true, SeqCst);
    match async_send.as_mut().poll(&mut producer_cx) {
        Poll::Ready(result) => assert!(result.is_ok(), "the async send failed"),
        Poll::Pending       => panic!("the async send didn't complete after its setter was resumed"),
    }
    assert_eq!(channel.pending_items_count(), 1, "the event of the async send was not published");
    // ... and its event must reach the (parked) consumer
    let notified = consumer.run_if_awaken();
    assert!(notified, "LOST EVENT: the async send completed and published its event into an empty channel, but the parked consumer was not awaken \
                       -- the event stays undelivered (`pending_items_count()` is {}) until something else happens to wake the stream",
                      channel.pending_items_count());
    assert_eq!(consumer.received, vec![1, 2, 100], "the event of the (formerly suspended) async send was not delivered");
}
