//! Replay of the KNOWN FINDING C10 `*.create_stream_for_new_events_sees_nothing_old` / `*.new_listener_sees_nothing_old` against the real code (public API only,
//! one thread): on every non-log Multi channel, MAX_STREAMS = 1: create a listener, send 7, drop the listener WITHOUT consuming, create a new listener -- its
//! first poll yields Some(7), an event sent before it was created (the per-listener queue of a recycled stream id is never emptied).
//! Run: copy to <repo>/tests/ and `cargo test --offline --test c10_recycled_id_sees_old_events` -- each test FAILS on the unchanged tree with "STALE EVENT".

use reactive_mutiny::prelude::advanced::*;
use std::{pin::Pin, sync::Arc, task::{Context, Poll, Wake, Waker}};
use futures::Stream;

struct NoopWaker;
impl Wake for NoopWaker { fn wake(self: Arc<Self>) {} }

macro_rules! recycled_id_test { ($name:ident, $ty:ty, $deref:expr) => {
    #[test]
    fn $name() {
        let channel = <$ty>::new(stringify!($name));
        let waker = Waker::from(Arc::new(NoopWaker));
        let mut cx = Context::from_waker(&waker);
        let (old_listener, old_id) = channel.create_stream_for_new_events();
        assert!(channel.send(7).is_ok(), "send(7) was refused");
        drop(old_listener);                                                 // dropped unconsumed
        let (mut new_listener, new_id) = channel.create_stream_for_new_events();
        assert_eq!(old_id, new_id, "the stream id was not recycled (this replay needs MAX_STREAMS = 1)");
        match Pin::new(&mut new_listener).poll_next(&mut cx) {
            Poll::Ready(Some(event)) => panic!("STALE EVENT: the listener created AFTER the send was handed the event {} that was sent BEFORE it was created", $deref(event)),
            Poll::Ready(None)        => panic!("the new listener ended at once"),
            Poll::Pending            => {},                                 // what C10 requires: nothing old to see
        }
    }
} }
recycled_id_test!(multi_arc_atomic,         ChannelMultiArcAtomic<u32, 8, 1>,    |e: Arc<u32>| *e);
recycled_id_test!(multi_arc_full_sync,      ChannelMultiArcFullSync<u32, 8, 1>,  |e: Arc<u32>| *e);
recycled_id_test!(multi_arc_crossbeam,      ChannelMultiArcCrossbeam<u32, 8, 1>, |e: Arc<u32>| *e);
recycled_id_test!(multi_ogre_arc_atomic,    ChannelMultiOgreArcAtomic<u32, 8, 1>,       |e: OgreArc<u32, AllocatorAtomicArray<u32, 8>>| *e);
recycled_id_test!(multi_ogre_arc_full_sync, ChannelMultiOgreArcFullSync<u32, 8, 1>, |e: OgreArc<u32, AllocatorFullSyncArray<u32, 8>>| *e);
