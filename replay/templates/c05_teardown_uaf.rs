//! Concrete replay of the C05 finding (teardown use-after-free of the pooled Multi channels), against the real crate.
//! Place at <repo>/tests/c05_teardown_uaf.rs and run the test binary under valgrind:
//!   cargo test --offline --test c05_teardown_uaf --no-run && valgrind --error-exitcode=9 target/debug/deps/c05_teardown_uaf-<hash>
//! Before the fix (allocator declared before dispatcher_managers): "Invalid write ... inside a block free'd"; after: 0 errors.
use reactive_mutiny::prelude::advanced::*;
use std::sync::Arc;

macro_rules! teardown_with_a_buffered_event { ($ty: ty, $name: expr) => { {
    let channel: Arc<$ty> = <$ty>::new($name);
    let (stream, _id) = channel.create_stream_for_new_events();
    assert!(channel.send(0xfeed).is_ok());          // one event stays buffered for the listener
    drop(stream);                                   // the listener goes away without consuming it
    drop(channel);                                  // teardown with the event still buffered
} } }

#[test]
fn ogre_arc_atomic() { teardown_with_a_buffered_event!(ChannelMultiOgreArcAtomic<u64, 4, 2>, "c05 atomic"); }
#[test]
fn ogre_arc_full_sync() { teardown_with_a_buffered_event!(ChannelMultiOgreArcFullSync<u64, 4, 2>, "c05 full_sync"); }
