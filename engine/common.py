"""Shared helpers for the /verif contract-verification runner (see DESIGN.md §2, §5, §7)."""
import hashlib, json, os, re, subprocess, sys, time

VERIF = os.path.dirname(os.path.dirname(os.path.abspath(__file__)))
REPO = os.environ.get("VERIF_REPO", "/repo")
CACHE = os.path.join(VERIF, ".cache")
# runs against a scratch copy (VERIF_REPO=..., used to try seeded changes) never touch the committed evidence / replay files
_SCRATCH = REPO != "/repo"
EVIDENCE_DIR = os.path.join(VERIF, "evidence") if not _SCRATCH else os.path.join(CACHE, "scratch-evidence")
REPLAY_DIR = os.path.join(VERIF, "replay") if not _SCRATCH else os.path.join(CACHE, "scratch-replay")
FINDINGS_FILE = os.path.join(VERIF, "known_findings.txt")

EXIT_OK, EXIT_VIOLATION, EXIT_UNDECIDED = 0, 1, 2


class Undecided(Exception):
    """Tool limit / lost anchor / timeout: the run decides nothing (exit 2), it is never an alarm."""


def repo_tag():
    """distinguishes scratch worktrees (self-test of seeded changes) from /repo in cache paths"""
    if REPO == "/repo":
        return "repo"
    return "scratch-" + hashlib.sha1(REPO.encode()).hexdigest()[:10]


def sh(cmd, cwd=None, env=None, timeout=None, stdin=None):
    e = dict(os.environ)
    if env:
        e.update(env)
    t0 = time.time()
    try:
        p = subprocess.run(cmd, cwd=cwd, env=e, shell=isinstance(cmd, str), stdout=subprocess.PIPE,
                           stderr=subprocess.STDOUT, timeout=timeout, input=stdin, text=True, errors="replace")
        return p.returncode, p.stdout, time.time() - t0
    except subprocess.TimeoutExpired as x:
        out = x.stdout or ""
        if isinstance(out, bytes):
            out = out.decode(errors="replace")
        return 124, out, time.time() - t0


def read(path):
    with open(path, encoding="utf-8") as f:
        return f.read()


def write(path, text):
    os.makedirs(os.path.dirname(path), exist_ok=True)
    with open(path, "w", encoding="utf-8") as f:
        f.write(text)


class Findings:
    """known_findings.txt: `finding: property=<id> obligation=<name> <text>` suppresses exactly that obligation
    (prints KNOWN-FINDING); `fixed:` lines suppress nothing. Never written at run time."""

    def __init__(self, path=FINDINGS_FILE):
        self.known = {}   # (property, obligation) -> text
        self.fixed = []
        if not os.path.exists(path):
            return
        for line in read(path).splitlines():
            line = line.strip()
            if not line or line.startswith("#"):
                continue
            m = re.match(r"finding:\s+property=(\S+)\s+obligation=(\S+)\s+(.*)$", line)
            if m:
                self.known[(m.group(1), m.group(2))] = m.group(3)
                continue
            if line.startswith("fixed:"):
                self.fixed.append(line)

    def lookup(self, prop, obligation):
        return self.known.get((prop, obligation))


def git_head(path):
    rc, out, _ = sh(["git", "-C", path, "rev-parse", "--short", "HEAD"])
    return out.strip() if rc == 0 else "?"


def repo_dirty_summary():
    rc, out, _ = sh(["git", "-C", REPO, "status", "--short", "--", "src", "Cargo.toml"])
    return [l for l in out.splitlines() if l.strip()][:20] if rc == 0 else []
