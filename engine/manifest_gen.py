#!/usr/bin/env python3
"""Writes /verif/MANIFEST.json from the table below (run: python3 -m engine.manifest_gen). The table is the single place where the
claimed level / technique / trusted base of each check is stated; the measured part is in evidence/<id>.json."""
import json, os, subprocess, sys

VERIF = os.path.dirname(os.path.dirname(os.path.abspath(__file__)))

K = "Kani 0.68 harnesses compiled into the real crate (cfg(kani) verif_hooks): inductive step from an ARBITRARY state satisfying the representation invariant -> one call of the real function -> whole-view postcondition; loop-free or unwinding-complete (unwinding assertions on)"
V = "Verus 0.2026.09.13 on functions extracted mechanically from /repo on every run (rewrite rules with application counts; diffs under evidence/diffs/), contracts spliced from /verif/verus/units"

CHECKS = {
 "C01": dict(tech="Kani inductive-step harnesses on the real rings / zero-copy queues / pool / Uni channels (accept-or-reject, FIFO consume, exactly-once) + Verus on AtomicMove / FullSyncMove extracted for symbolic BUFFER_SIZE (counter arithmetic incl. transient overshoot states, protocol-typed counters, write-before-publish, lock discipline) + Verus on the crossbeam-backed Uni channel's glue (queue = assumed bounded FIFO) + Verus on the glue of the four non-crossbeam Uni channels (units uni_movable_atomic / uni_movable_full_sync / uni_zero_copy_atomic / uni_zero_copy_full_sync) for SYMBOLIC BUFFER_SIZE / MAX_STREAMS, verified MODULARLY against the container's contract (callee contract, not body) + Verus pool_allocator (symbolic POOL_SIZE)",
             text="Proof, for every sequential history (induction over the ring invariant, every u32 counter origin, every fill level, every payload; BUFFER_SIZE in {2,4,8}, MAX_STREAMS in {1,2}), that an accepted event enters the container once, leaves once through consume with exactly its payload, and that a rejected send hands the payload / un-invoked setter back and changes nothing. Interleavings of concurrent producers/consumers on the lock-free ring are NOT decided.",
             note="K: concrete const generics; CBMC's sequential model of atomics; the crossbeam queue itself is an ASSUMED bounded FIFO (Kani cannot compile crossbeam), its channel's glue is decided by Verus. Full-sync kinds: all schedules modulo 'the spin lock excludes' + SC.", ref="DESIGN §3.1, §4 C01"),
 "C02": dict(tech="Kani inductive-step harnesses: FIFO order, capacity, pending count on rings, zero-copy queues and Uni channels + Verus ring_atomic / ring_full_sync (symbolic BUFFER_SIZE, every u32 counter value) + Verus Uni channel glue units (send / consume against the container contract, symbolic sizes)",
             text="Proof of the sequential FIFO contract: consume yields seq[0]; None iff empty; reject iff all BUFFER_SIZE slots are taken (published + reserved, or pool slots outstanding); pending_items_count == |seq|; never more than BUFFER_SIZE pending. 'Every operation takes effect at one instant' under real concurrency of AtomicMove is NOT decided.",
             note="as C01", ref="DESIGN §3.1, §4 C02"),
 "C03": dict(tech="Kani harnesses on the Arc Multi channels (quick) and the pooled / log Multi channels (thorough): fan-out to exactly the live listeners, same allocation, per-listener FIFO + Verus send_derived of the pooled channels for symbolic MAX_STREAMS / BUFFER_SIZE + Kani/Verus on the mmap log topic (one append, per-listener cursor; A-model: publication only by compare-exchange from the own ticket) + Verus send_derived of the three Arc Multi channels incl. the crossbeam one (symbolic MAX_STREAMS; every raw copy of a pooled handle covered by a reference counted BEFORE the copy exists)",
             text="Proof (sequential, listener set fixed as the statement says) that one accepted send puts exactly one handle to the SAME allocation into the queue of every live listener and of no other, keeps per-listener order, and that the handle count equals the number of listeners; log channel: publish appends one entry, cursors yield entries in log order.",
             note="K: BUFFER_SIZE 2 (4 thorough), MAX_STREAMS 1 (2 thorough); V: symbolic sizes, listener queues as assumed FIFO contracts (crossbeam: assumed); producers racing consumers not decided.", ref="DESIGN §4 C03"),
 "C04": dict(tech="Kani harnesses: empty-to-non-empty send wakes a live parked stream, for every accepting entry point of the 4 Uni + 4 Multi channels; poll_next registers the waker after the consume attempt; a send_with_async completing into a drained channel wakes a parked stream; Verus: wake fan-outs of all five non-log Multi channels and the crossbeam Uni channel for symbolic MAX_STREAMS + Verus Uni channel glue units: every accepting entry point of the four non-crossbeam Uni channels wakes stream #0 for an event entering an empty queue, AFTER the event is visible, with every wake index < MAX_STREAMS (symbolic MAX_STREAMS); the resumed send_with_async decides from the queue as it is after the suspension",
             text="Proof of a NECESSARY sequential condition of 'no lost wake-up': with streams 0..s created and parked and the queue empty, every accepting entry point wakes a live stream (Multi: every live listener), every wake index is < MAX_STREAMS, and poll_next stores the waker before answering Pending (self-wake on waker replacement). The race between the wake decision and the consumer's check/register/park steps is a liveness property over interleavings and is NOT decided.",
             note="necessary condition only; see DESIGN §4 C04 for the residue", ref="DESIGN §4 C04"),
 "C05": dict(tech="Kani harnesses with a drop-counting payload on the real rings, pool, OgreArc/OgreUnique and the Multi channels incl. teardown with buffered events (CBMC's dead-object / double-free checks are obligations) + Verus pool_allocator: dealloc_id runs the destructor exactly once iff needed and BEFORE the id is allocatable again (symbolic POOL_SIZE)",
             text="Proof (sequential histories, by induction over the ring / pool / handle invariants) that every payload is dropped exactly once -- on consume-and-release, on reject never, on teardown with leftovers exactly the leftovers --, that a pool slot is handed out only when not outstanding, that storage is returned exactly when the last handle goes, and that tearing a channel down with buffered events touches no freed memory.",
             note="two threads dropping the last two handles simultaneously: RMW atomicity assumed; handles outliving the channel excluded by the statement", ref="DESIGN §3.2, §4 C05"),
 "C06": dict(tech="Verus on the de-asynced flush / end_stream / end_all_streams loops of StreamsManagerBase (symbolic MAX_STREAMS, ghost log of observations and cancels) + Kani poll_next (drain before end-of-stream) on the real channels",
             text="Proof that flush answers 0 only from an 'all queues empty' observation and, with an unbounded timeout, can only answer 0; that end_all_streams cancels nobody before such an observation, cancels exactly the live list, and with an unbounded timeout returns only after observing a running-stream count of 0 (returning 0); that a stream answers end-of-stream only from a poll in which its queue was empty. 'Fully processed by the pipeline' for items already inside for_each_concurrent futures needs the tokio/futures runtime and is NOT decided.",
             note="V: every .await havocs everything but the ghost log; wake_stream / pending_items_counter are shims with the contracts printed in the unit; K as C01", ref="DESIGN §3.3, §4 C06"),
 "C07": dict(tech="Verus: cancel_stream (flag cleared before the wake, exactly one target), cancel_all_streams (exactly the live list) for symbolic MAX_STREAMS; Kani: StreamsManagerBase from arbitrary Inv_SM states (cancel / drop / id reuse) and poll_next on the real channels",
             text="Proof that cancel_stream clears the flag of its one target and then wakes it, that cancel_all_streams targets exactly the ids of the live list and changes no other flag, that poll_next after a cancel still yields buffered events and answers end-of-stream on the first empty consume without needing a further event, and that a dropped stream's id becomes allocatable again. The cancel landing between the keep-running check and the waker registration is an interleaving and is NOT decided.",
             note="'flag first, wake second' is a mechanism-preservation obligation (no sequential input exhibits its failure)", ref="DESIGN §3.3, §4 C07"),
 "C08": dict(tech="Kani inductive-step harnesses over states with outstanding reservations on AtomicMove, the zero-copy queues, and the Uni / ogre_arc Multi channels (reserve, fill, send-reserved or cancel) + Verus Uni channel glue units: reserve_slot / try_send_reserved / try_cancel_slot_reserve keep the reservation book (oldest publishes, newest cancels on the movable ring; any order on the pooled kinds) for symbolic sizes; ring_atomic consume path",
             text="Proof (sequential histories, every counter origin incl. the 2^32 wrap, every number of outstanding reservations) that a successfully sent reserved slot is delivered once with precisely the written content, a successfully cancelled one is never delivered, and that with all reservations resolved the channel accepts exactly BUFFER_SIZE events again.",
             note="interleavings with a concurrently polling consumer not decided", ref="DESIGN §3.1, §4 C08"),
 "C09": dict(tech="Kani on the REAL MMapMeta / subscribers over a fake mapping (publish, three subscription kinds, both consume()s) + Verus on the same functions extracted (symbolic log length) + partition lemma",
             text="Proof (sequential) that publish appends exactly one entry and never modifies an earlier one, that new-only / joined / separated subscriptions start at |log| / 0 / (0..t, t) with ONE split point, that a cursor yields a reference to entry #h itself and advances by one iff h is below its dynamic / frozen tail, hence old yields exactly [0,t) and new exactly [t,..). Subscriptions racing publishers that reserved but did not yet publish are NOT decided.",
             note="Kani cannot mmap: the struct is built over a heap block laid out like the mapping; the memmap crate and file system are assumed; fewer than 2^32-2 events", ref="DESIGN §4 C09"),
 "C10": dict(tech="Verus: StreamsManagerBase::new / sync_vacant_and_used_streams / create_stream_id / report_stream_dropped for SYMBOLIC MAX_STREAMS (inductive loop invariants: the live list is exactly the ascending complement of the vacant ids) + Kani: StreamsManagerBase create / drop from arbitrary Inv_SM states (ids recycle, running count == |live|), Multi channels: a listener created for new events sees nothing sent before",
             text="Proof (all sequential histories by induction over Inv_SM) that at most MAX_STREAMS streams exist, the running-stream count equals the number of live streams, ids are never exhausted below the limit; obligation taken from the statement that a listener created for new events yields nothing sent before its creation (a KNOWN FINDING on the unchanged tree for the four covered Multi channels).",
             note="crossbeam Multi channel: bookkeeping shared (StreamsManagerBase), its 'nothing old' obligation not covered", ref="DESIGN §4 C10"),
 "C11": dict(tech="Verus on the seven item_processor closures lifted mechanically out of stream_executor.rs (macros expanded textually, INSTRUMENTS symbolic) + the six task bodies (limit handed to for_each_concurrent, timeout arm chosen iff futures_timeout != 0); Kani: Instruments predicates over every usize; Verus call-site obligations generated from Uni / Multi: the configured limit (>= 1) reaches the executor as a value in 1..=limit and the timeout unchanged through every wrapper layer",
             text="Proof that every item-processing path records exactly one outcome -- with metrics enabled exactly one of the three counters moves by one, the right one --, invokes the error callback exactly once for a failed item and never otherwise, reaches no panic!, and returns normally for every outcome; that the concurrency limit handed to the stream combinator is the configured one and the timeout variant is chosen iff a timeout is configured.",
             note="futures::StreamExt::for_each(_concurrent) and tokio::time::timeout are ASSUMED contracts; counters under concurrent inc: C19", ref="DESIGN §4 C11"),
 "C12": dict(tech="Verus on the six de-asynced executor task bodies with ghost phase/clock, register_execution_start/finish (with a termination obligation), the lifted latch_callback_1p closure, and call-site obligations generated from the four Multi::spawn_*_oldies_executor (the newies executor is spawned inside the oldies' close callback iff sequential_transition; each executor registered under its own stream id)",
             text="Proof that the close callback is invoked exactly once, after for_each returned and after the finish was registered, finding an 'ended' status (programmatically ended only if it had been scheduled to finish) and a finish time not before the start time; that the Uni latch invokes the user callback at exactly the MAX_STREAMS-th call. report_scheduled_to_finish racing the end and out-of-order completion inside for_each_concurrent are NOT decided.",
             note="monotone clock, tokio::spawn, for_each*: assumed", ref="DESIGN §4 C12"),
 "C13": dict(tech="Kani inductive-step harnesses on OgreArrayPoolAllocator with both free-list kinds from an arbitrary permutation / split of the ids and arbitrary free-list origin (incl. the mechanism obligation: the destructor runs before the id is back on the free list) + Verus on both free-list rings (symbolic size) + Verus pool_allocator: new / alloc_ref / alloc_with / dealloc_id / dealloc_ref / id<->ref for SYMBOLIC POOL_SIZE against the free list's bounded-FIFO contract (representation invariant: free ids distinct, disjoint from the outstanding set, |free| + |out| == POOL_SIZE)",
             text="Proof (all sequential histories, POOL_SIZE in {2,4,8}, incl. exhaust/refill cycles and free-list counter wrap) that alloc hands out only ids that are not outstanding, fails iff all are outstanding, dealloc makes the id allocatable again, and id<->reference conversion is a bijection onto the pool. FullSync free list: all schedules modulo lock exclusion; atomic free list under concurrency NOT decided.",
             note="as C01", ref="DESIGN §3.2, §4 C13"),
 "C14": dict(tech="Kani harnesses on OgreArc / OgreUnique over the real pool with a drop-counting payload (inductive over the reference count), incl. one adversarial step: another owner drops its handle right after this thread's decrement (the last-owner decision must come from the own fetch_sub) + Verus: raw copies covered by references counted beforehand + Verus pool_allocator (the release path of the last handle: dealloc_id)",
             text="Proof (sequential) that clone / drop / bulk increment + raw copies / into_ogre_arc keep 'references_count == live handles', that every handle dereferences to the value written at creation, and that the value is destroyed and its slot returned exactly when the last handle is dropped, a unique->shared conversion neither destroying nor duplicating it.",
             note="clone racing the final drop on different threads: RMW atomicity assumed", ref="DESIGN §3.2, §4 C14"),
 "C15": dict(tech="Kani: every ring / pool / zero-copy harness starts from a SYMBOLIC counter origin (all 2^32 values) with overflow checks on + Verus: AtomicMove / FullSyncMove arithmetic for symbolic BUFFER_SIZE and every u32 counter value (arithmetic overflow obligations, lap lemma)",
             text="Proof that none of the ring, pool, zero-copy queue contracts depends on the counter origin: accept/reject answers, delivered values and order, reported lengths are as from origin 0, and no arithmetic overflow panic is reachable from any origin (both build modes: CBMC checks + - * like an overflow-checking build, the functional contracts are stated in wrapping arithmetic).",
             note="as C01", ref="DESIGN §3.1, §4 C15"),
 "C16": dict(tech="Kani: reject branches' frame conditions on rings / zero-copy queues / pool, Uni channels and the ogre_arc Multi channels, incl. one adversarial step at the capacity boundary (the receding compare-exchange loses against another producer while a consumer frees a slot: the fullness test is repeated on the current head) + Verus: ring_atomic / ring_full_sync reject paths for symbolic BUFFER_SIZE, crossbeam Uni glue + Verus Uni channel glue units (a rejected send / send_with / send_with_async hands the very input back and leaves the abstract channel state unchanged, symbolic sizes) + Verus pool_allocator (a failed allocation changes nothing)",
             text="Proof (sequential) that a rejected send leaves all counters, the buffer, the free list and everything a stream could yield unchanged, hands the input back, runs no unbounded loop (unwinding assertions), and that exactly BUFFER_SIZE events can be outstanding after any history. Producers colliding at the capacity boundary are NOT decided.",
             note="as C01", ref="DESIGN §4 C16"),
 "C18": dict(tech="Verus on push/pop of both stacks for a SYMBOLIC capacity with the lock as a resource invariant (every access to head/buffer asserted under the lock) + Kani on the atomic stack (incl. 'the environment acts at the instant of the release': pop's answer is fixed inside the critical section) and both non-blocking queues",
             text="Proof that each critical section implements the LIFO operation on whatever well-formed state it finds when it acquires the lock, touches head/buffer only while holding it, restores the invariant and releases on every exit: with 'the lock excludes' (ASSUMED) every execution is the sequential history ordered by lock acquisition, i.e. linearizable. The two non-blocking queues: sequential FIFO contract (inductive step).",
             note="LK3 (mutual exclusion of the swap-based flag / parking_lot RawMutex) + SC assumed; the atomic non-blocking queue under concurrency is not decided; Kani cannot compile parking_lot (ICE) -> that stack is V only", ref="DESIGN §3.4, §4 C18"),
 "C19": dict(tech="Kani function contracts IN PLACE on split_joined / join_split (cfg_attr(kani, kani::ensures), proof_for_contract) reused modularly (stub_verified) for atomic_compute / probe + loop-free harnesses over every 64-bit word / every (u32, f32-bits) pair: split/join inverse, probe reads one word, inc counts exactly one from any count + Verus A-model on atomic_compute (left only through one successful compare-exchange on the value it computed from)",
             text="Proof that split/join are mutually inverse on all 2^64 words (so a reading returns the count and the average of the same update), that one inc from ANY count moves it by exactly one (101 at the documented reset) through one compare-exchange on the current word, and (bounded stand-in on small quarter-integer inputs) that the stored average is the incremental-mean step. 'Average equals the arithmetic mean within tolerance' over long sequences (floating-point error accumulation) and lost-update freedom under real concurrency (CAS retry loop) are NOT decided.",
             note="CBMC float model; concurrency residue", ref="DESIGN §4 C19"),
 "C20": dict(tech="Kani: send_with_async of every Uni / Multi channel polled once with a never-ready setter: state assertion at the suspension point + other operations complete without spinning (unwinding assertion) + the resumed send's event wakes a parked stream; Verus: the crossbeam Uni channel's async send yields instead of busy-spinning when the queue filled up during the suspension + Verus Uni channel glue units: state assertion `nothing that makes others wait is held` at the suspension point of send_with_async (symbolic sizes; the two movable kinds are the known findings), and the resumed send's wake decision",
             text="Proof (state form) that at the .await of send_with_async no queue-wide lock and no unpublished ring reservation is held, and (operational form) that a plain send and a consume issued meanwhile complete in a bounded number of steps and are delivered. KNOWN FINDINGS on the unchanged tree: the two movable Uni channels hold the spin lock / a ring reservation across the await.",
             note="bounded-step completion under real concurrency for spin loops in general is not decided", ref="DESIGN §4 C20"),
}

NA = {
 "C17": "the property is only about a sender reading the live list while another thread rewrites it entry by entry (listener churn DURING a fan-out); its sequential projection is C03 + C10 and nothing specific survives sequentialisation; neither Kani nor Verus (as usable on this code) has threads -- see DESIGN §4 C17",
}


def main():
    hooks = subprocess.run(["git", "-C", "/repo", "log", "--format=%h %s", "--grep=verif hooks"], capture_output=True, text=True).stdout.strip().splitlines()
    man = {
        "version": 1,
        "setup_cmd": "python3 -m compileall -q engine && bin/vcheck --warm",
        "hooks": {
            "guard": "cfg(any(kani, reactive_mutiny_verif))",
            "enable": "cargo kani sets cfg(kani) (REACTIVE_MUTINY_VERIF_DIR=/verif tells the guarded include! where the harness texts live); Verus reads /repo's sources directly and needs no hook",
            "baseline_off_cmd": "cd /repo && cargo test --workspace --no-fail-fast --offline",
            "source_commits": [h.split()[0] for h in hooks],
            "add_only": True,
        },
        "engines": [
            {"name": "vcheck", "path": "bin/vcheck", "serves_properties": sorted(CHECKS), "kind_free_text": "contract-based deductive verification: " + K + " ; " + V},
        ],
        "checks": [],
        "not_applicable": [{"property_id": k, "reason": v} for k, v in sorted(NA.items())],
        "notes": "exit 0 = every obligation discharged (known findings printed as KNOWN-FINDING), 1 = VIOLATION, 2 = undecided (tool limit / lost anchor), never an alarm. Kani verdicts are memoised per hash of /repo's working-tree sources + harness texts (several properties share harnesses); any edit under /repo/src re-verifies.",
    }
    for pid in sorted(CHECKS):
        c = CHECKS[pid]
        man["checks"].append({
            "property_id": pid,
            "quick_cmd": f"bin/vcheck {pid} --tier quick",
            "thorough_cmd": f"bin/vcheck {pid} --tier thorough",
            "evidence_file": f"/verif/evidence/{pid}.json",
            "replay_cmd_template": "bin/vcheck --replay {path}",
            "engine": "vcheck",
            "level_claimed": {"category": "proof", "text": c["text"], "design_ref": c["ref"]},
            "level_note": c["note"],
            "technique": c["tech"],
        })
    only = set(sys.argv[1:])
    if only:
        man["checks"] = [c for c in man["checks"] if c["property_id"] in only]
        for pid in sorted(CHECKS):
            if pid not in only:
                man["not_applicable"].append({"property_id": pid, "reason": "check exists in /verif but is not registered yet (being validated on the unchanged tree)"})
        man["not_applicable"].sort(key=lambda x: x["property_id"])
    with open(os.path.join(VERIF, "MANIFEST.json"), "w") as f:
        json.dump(man, f, indent=1)
        f.write("\n")
    print("wrote MANIFEST.json with", len(man["checks"]), "checks")


if __name__ == "__main__":
    main()
