"""Back end V, step 1: mechanical extraction of real functions from /repo into the Verus dialect (DESIGN §2.2).

Everything here is text-to-text and re-done from /repo's working tree on every run. A `FnSpec` names a real function (file, enclosing
impl header, fn name), the rewrite rules to apply (each with the number of times it must apply -- otherwise the run is UNDECIDED, never an
alarm), the contract to splice between signature and body, and the loop invariants keyed by loop ordinal. The unified diff
"real text -> verified text" of every function is written next to the evidence, so what extraction drops can be audited."""
import difflib, os, re
from .common import *
from . import rustlex as lx


class Rule:
    """regex rewrite; `count` = exact number of applications required (None: at least `min`)"""

    def __init__(self, rid, pattern, repl, count=None, min=1, note="", flags=re.S):
        self.rid, self.pattern, self.repl, self.count, self.min, self.note, self.flags = rid, pattern, repl, count, min, note, flags

    def apply(self, text, where, log):
        new, n = re.subn(self.pattern, self.repl, text, flags=self.flags)
        if self.count is not None and n != self.count:
            raise Undecided(f"rewrite rule {self.rid} ({self.note or self.pattern}) applied {n}x in {where}, expected {self.count}x -- the code's shape changed; contract needs review")
        if self.count is None and n < self.min:
            raise Undecided(f"rewrite rule {self.rid} ({self.note or self.pattern}) applied {n}x in {where}, expected >= {self.min} -- the code's shape changed; contract needs review")
        if n:
            log[self.rid] = log.get(self.rid, 0) + n
        return new


def _drop_macro_statements(text, names, log, rid):
    """R9: remove logging macro invocations (statement position), incl. a trailing `;`"""
    for name in names:
        while True:
            calls = lx.find_macro_calls(text, name)
            if not calls:
                break
            s, e, _ = calls[0]
            k = e
            while k < len(text) and text[k] in " \t":
                k += 1
            if k < len(text) and text[k] == ";":
                e = k + 1
            mpath = re.search(r"(?:\b\w+::)+$", text[:s])       # a path-qualified invocation: log::trace!(..), std::println!(..)
            if mpath:
                s = mpath.start()
            text = text[:s] + text[e:]
            log[rid] = log.get(rid, 0) + 1
    return text


def _replace_macro_calls(text, names, repl, log, rid):
    for name in names:
        while True:
            calls = lx.find_macro_calls(text, name)
            if not calls:
                break
            s, e, _ = calls[0]
            text = text[:s] + repl + text[e:]
            log[rid] = log.get(rid, 0) + 1
    return text


LOG_MACROS = ["trace", "debug", "info", "warn", "error", "eprintln", "println", "debug_assert", "debug_assert_eq"]
PANIC_MACROS = ["panic", "unreachable", "unimplemented", "todo"]


def expand_macros(text, file_text, names, log):
    """R13: textual expansion of the crate's own single-arm macro_rules! (params substituted verbatim, body wrapped in a block)"""
    for _ in range(64):
        done = True
        for name in names:
            calls = lx.find_macro_calls(text, name)
            if not calls:
                continue
            mr = lx.macro_rules(file_text, name)
            if mr is None:
                raise Undecided(f"macro_rules! {name} not found")
            params, body = mr
            s, e, args = calls[0]
            argv = lx.split_args(args)
            if len(argv) != len(params):
                raise Undecided(f"macro {name}!: {len(argv)} args for {len(params)} params")
            body = lx.strip_comments(body)
            for p, a in zip(params, argv):
                body = re.sub(r"\$" + p + r"\b", lambda _m, a=a: a, body)
            text = text[:s] + "{" + body + "}" + text[e:]
            log["R13"] = log.get("R13", 0) + 1
            done = False
            break
        if done:
            return text
    raise Undecided("macro expansion did not terminate")


class FnSpec:
    def __init__(self, file, name, impl=None, nth=0, out_name=None, sig=None, sig_anchor=None, rules=(), requires=None, ensures=None,
                 loops=None, pre_body="", props=(), macros=(), block_anchor=None, attrs="", kind="property", model="S", returns=None,
                 keep_panics=False, decreases=None, mode="exec", tail="", block_nth=0, loops_optional=False, hints=()):
        self.file, self.name, self.impl, self.nth = file, name, impl, nth
        self.out_name = out_name or name
        self.sig, self.sig_anchor = sig, sig_anchor
        self.rules = list(rules)
        self.requires, self.ensures, self.returns, self.decreases = requires, ensures, returns, decreases
        self.loops = loops or {}
        self.pre_body, self.tail = pre_body, tail
        self.props = list(props)
        self.macros = list(macros)
        self.block_nth = block_nth
        self.loops_optional = loops_optional
        self.hints = list(hints)           # [(anchor regex, proof text[, "before"])]: ghost-only proof hints inserted AFTER (or BEFORE) the matched text; skipped if the
                                           # anchor is gone -- a function that then fails to verify is reported UNDECIDED (the proof lost its hint), never as a violation
        self.block_anchor = block_anchor      # regex inside the fn: extract the balanced {..} block that follows it instead of the whole body
        self.attrs = attrs
        self.kind = kind                      # property | mechanism | helper
        self.model = model
        self.keep_panics = keep_panics

    def locate(self, repo):
        path = os.path.join(repo, self.file)
        if not os.path.exists(path):
            raise Undecided(f"{self.file} not found")
        text = read(path)
        msk = lx.mask(text)
        within = None
        if self.impl:
            blocks = lx.find_blocks(text, self.impl, msk)
            if not blocks:
                raise Undecided(f"{self.file}: impl header /{self.impl}/ not found")
            for (hs, bo, bc) in blocks:
                hit = lx.find_fn(text, self.name, (bo, bc), msk, self.nth)
                if hit:
                    return text, msk, hit
            raise Undecided(f"{self.file}: fn {self.name} not found inside impl /{self.impl}/")
        hit = lx.find_fn(text, self.name, within, msk, self.nth)
        if not hit:
            raise Undecided(f"{self.file}: fn {self.name} not found")
        return text, msk, hit

    def extract(self, repo, global_rules, log):
        text, msk, (s, bo, bc) = self.locate(repo)
        line = text.count("\n", 0, s) + 1
        real_fn = text[s:bc + 1]
        where = f"{self.file}::{self.name}"
        sig_real = lx.strip_comments(text[s:bo]).strip()
        body = lx.strip_comments(text[bo + 1:bc])
        flog = {}
        if self.macros:
            body = expand_macros(body, text, self.macros, flog)
        if self.block_anchor:
            bm = lx.mask(body)
            ms = list(re.finditer(self.block_anchor, bm, re.S))
            if len(ms) <= self.block_nth:
                raise Undecided(f"{where}: block anchor /{self.block_anchor}/ #{self.block_nth} not found")
            m = ms[self.block_nth]
            o = bm.find("{", m.end() - 1)
            c = lx.match_close(bm, o)
            real_fn = body[m.start():c + 1]
            line = text.count("\n", 0, bo + 1) + 1
            body = body[o + 1:c]
        body = _drop_macro_statements(body, LOG_MACROS, flog, "R9-log")
        if not self.keep_panics:
            body = _replace_macro_calls(body, PANIC_MACROS, "vpanic()", flog, "R9-panic")
        for r in list(global_rules) + self.rules:
            body = r.apply(body, where, flog)
        # signature
        if self.sig is not None:
            if self.sig_anchor and not re.search(self.sig_anchor, re.sub(r"\s+", " ", sig_real), re.S):
                raise Undecided(f"{where}: the real signature no longer matches /{self.sig_anchor}/ -- contract needs review\n  real: {re.sub(chr(10), ' ', sig_real)[:300]}")
            sig = self.sig
            flog["R-sig"] = 1
        else:
            sig = sig_real
            for r in global_rules:
                sig = re.sub(r.pattern, r.repl, sig, flags=r.flags)
            if self.out_name != self.name:
                sig = re.sub(r"\bfn\s+" + re.escape(self.name) + r"\b", "fn " + self.out_name, sig)
        hints_skipped = 0
        for h_ in self.hints:
            anchor, text_ = h_[0], h_[1]
            before = len(h_) > 2 and h_[2] == "before"
            body, n_h = re.subn(anchor, (lambda m_, t_=text_: t_ + " " + m_.group(0)) if before else (lambda m_, t_=text_: m_.group(0) + " " + t_), body, count=1, flags=re.S)
            if n_h:
                flog["ghost-hint"] = flog.get("ghost-hint", 0) + 1
            else:
                hints_skipped += 1
        # loops
        n_loops = count_loops(body)
        if self.loops:
            body = insert_loop_specs(body, self.loops, where, self.loops_optional)
        contract = ""
        if self.requires:
            contract += "\n    requires\n        " + self.requires.strip().rstrip(",") + ","
        if self.ensures:
            contract += "\n    ensures\n        " + self.ensures.strip().rstrip(",") + ","
        if self.returns:
            contract += "\n    returns " + self.returns.strip() + ","
        if self.decreases:
            contract += "\n    decreases " + self.decreases.strip() + ","
        out = f"{self.attrs}\n{sig}{contract}\n{{{self.pre_body}{body}{self.tail}}}\n"
        for k, v in flog.items():
            log[k] = log.get(k, 0) + v
        diff = "".join(difflib.unified_diff(lx.strip_comments(real_fn).splitlines(True), out.splitlines(True),
                                            f"{self.file}:{line} (real, comments stripped)", f"verus:{self.out_name}", n=2))
        # loops in the (edited) real text for which the contract holds no invariant: Verus cannot see through them, so a failed proof of this
        # function decides nothing (reported UNDECIDED: "contract needs review"), it is never a violation
        loops_without_invariant = max(0, n_loops - len(self.loops))
        return out, {"file": self.file, "line": line, "fn": self.name, "rules": flog, "diff": diff, "hints_skipped": hints_skipped,
                     "loops_without_invariant": loops_without_invariant}


LOOP_RE = re.compile(r"\b(loop|while|for)\b")


def count_loops(body):
    """number of loop heads (`loop {`, `while .. {`, `for .. {`) in a function body"""
    m = lx.mask(body)
    n = 0
    for mm in LOOP_RE.finditer(m):
        k, depth = mm.end(), 0
        while k < len(m):
            ch = m[k]
            if ch in "([":
                depth += 1
            elif ch in ")]":
                depth -= 1
            elif ch == "{" and depth == 0:
                n += 1; break
            elif ch == ";" and depth == 0:
                break
            k += 1
    return n


def insert_loop_specs(body, loops, where, optional=False):
    """splices `invariant ... decreases ...` text in front of the `{` of the k-th loop (textual order)"""
    m = lx.mask(body)
    heads = []
    for mm in LOOP_RE.finditer(m):
        kw = mm.group(1)
        # skip `for` in `impl ... for` / HRTB (cannot occur inside fn bodies we extract, but be careful) and labels
        k = mm.end()
        depth = 0
        o = None
        while k < len(m):
            ch = m[k]
            if ch in "([":
                depth += 1
            elif ch in ")]":
                depth -= 1
            elif ch == "{" and depth == 0:
                o = k; break
            elif ch == ";" and depth == 0:
                break
            k += 1
        if o is not None:
            heads.append((mm.start(), o, kw))
    want = sorted(loops.keys())
    if want and want[-1] >= len(heads) and optional:
        # the loop the invariant was written for is gone: verify the body without it (its postcondition decides)
        loops = {k: v for k, v in loops.items() if k < len(heads)}
        want = sorted(loops.keys())
    if want and want[-1] >= len(heads):
        raise Undecided(f"{where}: loop ordinal {want[-1]} not found ({len(heads)} loops) -- the code's shape changed; contract needs review")
    out, last = [], 0
    for idx, (s, o, kw) in enumerate(heads):
        if idx in loops:
            out.append(body[last:o]); out.append("\n" + loops[idx].rstrip() + "\n"); last = o
    out.append(body[last:])
    return "".join(out)


def struct_field_order(repo, file, name):
    path = os.path.join(repo, file)
    if not os.path.exists(path):
        raise Undecided(f"{file} not found")
    f = lx.struct_fields(read(path), name)
    if f is None:
        raise Undecided(f"{file}: struct {name} not found")
    return f


class InlineCellAlias(Rule):
    """R6: `let x = unsafe { &[mut] * self.FIELD.get() };` is removed and `x` replaced by `self.FIELD` in the rest of the body
    (drops: the UnsafeCell cast -- back end K executes the real cast)"""

    def __init__(self, rid="R6-alias", min=1, count=None):
        Rule.__init__(self, rid, r"let\s+(?:mut\s+)?(\w+)\s*=\s*unsafe\s*\{\s*&\s*(?:mut\s*)?\*\s*self\s*\.\s*(\w+)\s*\.get\(\)\s*\}\s*;", "", count=count, min=min,
                      note="UnsafeCell alias let inlined")

    def apply(self, text, where, log):
        n = 0
        while True:
            m = re.search(self.pattern, text)
            if not m:
                break
            alias, field = m.group(1), m.group(2)
            rest = text[m.end():]
            rest = re.sub(r"(?<![\w.])" + re.escape(alias) + r"\b", "self." + field, rest)
            text = text[:m.start()] + rest
            n += 1
        if self.count is not None and n != self.count or self.count is None and n < self.min:
            raise Undecided(f"rewrite rule {self.rid} applied {n}x in {where} -- the code's shape changed; contract needs review")
        if n:
            log[self.rid] = log.get(self.rid, 0) + n
        return text


class DropChain(Rule):
    """removes the statement that starts at `anchor` and extends over its balanced `{..}` block and every following
    `else if .. {..}` / `else {..}` (R9: log-only code such as the statistics report of on_executor_end!)"""

    def __init__(self, rid, anchor, count=1, note=""):
        Rule.__init__(self, rid, anchor, "", count=count, note=note)

    def apply(self, text, where, log):
        n = 0
        while True:
            m = lx.mask(text)
            mm = re.search(self.pattern, m, re.S)
            if not mm:
                break
            o = m.find("{", mm.end() - 1)
            c = lx.match_close(m, o)
            while True:
                me = re.match(r"\s*else\b[^{]*\{", m[c + 1:])
                if not me:
                    break
                o2 = c + 1 + me.end() - 1
                c = lx.match_close(m, o2)
            text = text[:mm.start()] + text[c + 1:]
            n += 1
        if self.count is not None and n != self.count:
            raise Undecided(f"rewrite rule {self.rid} ({self.note}) applied {n}x in {where}, expected {self.count}x -- the code's shape changed; contract needs review")
        if n:
            log[self.rid] = log.get(self.rid, 0) + n
        return text


class DropStatement(Rule):
    """removes the statement that starts at `anchor` up to the `;` at nesting depth 0 (e.g. a `let f = |x| { .. };` closure definition
    that is verified separately)"""

    def __init__(self, rid, anchor, count=1, note=""):
        Rule.__init__(self, rid, anchor, "", count=count, note=note)

    def apply(self, text, where, log):
        n = 0
        while True:
            m = lx.mask(text)
            mm = re.search(self.pattern, m, re.S)
            if not mm:
                break
            k, depth = mm.end(), 0
            while k < len(m):
                ch = m[k]
                if ch in "([{":
                    depth += 1
                elif ch in ")]}":
                    depth -= 1
                elif ch == ";" and depth == 0:
                    break
                k += 1
            text = text[:mm.start()] + text[k + 1:]
            n += 1
        if self.count is not None and n != self.count:
            raise Undecided(f"rewrite rule {self.rid} ({self.note}) applied {n}x in {where}, expected {self.count}x -- the code's shape changed; contract needs review")
        if n:
            log[self.rid] = log.get(self.rid, 0) + n
        return text


class ReplaceBlocksNumbered(Rule):
    """replaces the k-th occurrence of `anchor` + its balanced bracket group `(...)`/`{...}` by `repl` with `{k}` substituted
    (the replaced blocks are verified separately as their own obligations)"""

    def __init__(self, rid, anchor, repl, count, note=""):
        Rule.__init__(self, rid, anchor, repl, count=count, note=note)

    def apply(self, text, where, log):
        n = 0
        while True:
            m = lx.mask(text)
            mm = re.search(self.pattern, m, re.S)
            if not mm:
                break
            o = mm.end() - 1
            if m[o] not in "([{":
                raise Undecided(f"rule {self.rid}: anchor must end at an opening bracket")
            c = lx.match_close(m, o)
            text = text[:mm.start()] + self.repl.replace("{k}", str(n)) + text[c + 1:]
            n += 1
        if n != self.count:
            raise Undecided(f"rewrite rule {self.rid} ({self.note}) applied {n}x in {where}, expected {self.count}x -- the code's shape changed; contract needs review")
        log[self.rid] = log.get(self.rid, 0) + n
        return text
