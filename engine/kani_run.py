"""Back end K: Kani harnesses compiled into the real crate through the cfg-guarded `verif_hooks` modules (DESIGN §2.1).

Harness registry = tag comments inside /verif/kani/*.rs:
    // @module <rust module path of the including file>
    // @sizes <group>: <mod>=<tier> <mod>=<tier> ...      (modules created by the group's macro invocation)
    // @group <group>|-                                    (harnesses below belong to that macro group / to no group)
    // @props C01 C02 [tier=quick|thorough] [spin=violation]   (directly above a harness' #[kani::proof...])
"""
import os, re, fcntl, time, json, hashlib
from .common import *

KANI_DIR = os.path.join(VERIF, "kani")
KANI_FLAGS = ["-Z", "stubbing", "-Z", "function-contracts"]
HARNESS_TIMEOUT_S = 900       # wall clock for one cargo-kani batch is derived from this
CBMC_FLAGS = []


class Harness:
    def __init__(self, file, module, group, size, fn, props, tier, spin_violation, asserts):
        self.file, self.module, self.group, self.size, self.fn = file, module, group, size, fn
        self.props, self.tier, self.spin_violation, self.asserts = props, tier, spin_violation, asserts
        self.jobs = 16
        self.contract = False     # `// @props ... contract`: proof_for_contract of an in-place kani::ensures, or a harness using stub_verified
        self.submodule = "proofs"

    @property
    def full(self):
        mid = f"::{self.size}" if self.size else ""
        return f"{self.module}::verif_hooks::{self.submodule}{mid}::{self.fn}"

    def obligation(self, pid):
        return f"{pid}.K.{self.file}.{self.fn}"


def load_registry():
    return _load_registry()


def _load_registry():
    out = []
    for name in sorted(os.listdir(KANI_DIR)):
        if not name.endswith(".rs"):
            continue
        text = read(os.path.join(KANI_DIR, name))
        if not text.strip():
            continue
        file = name[:-3]
        module, sizes, group, pending = None, {}, None, None
        mj = re.search(r"^//\s*@jobs\s+(\d+)(?:\s+thorough=(\d+))?", text, re.M)
        file_jobs = int(mj.group(1)) if mj else 16
        file_jobs_thorough = int(mj.group(2)) if mj and mj.group(2) else file_jobs
        lines = text.splitlines()
        for i, line in enumerate(lines):
            s = line.strip()
            m = re.match(r"//\s*@module\s+(\S+)", s)
            if m:
                module = m.group(1); continue
            m = re.match(r"//\s*@sizes\s+(\w+):\s*(.*)$", s)
            if m:
                sizes[m.group(1)] = [tuple(x.split("=")) for x in m.group(2).split()]; continue
            m = re.match(r"//\s*@group\s+(\S+)", s)
            if m:
                group = None if m.group(1) == "-" else m.group(1); continue
            m = re.match(r"//\s*@props\s+(.*)$", s)
            if m:
                toks = m.group(1).split()
                pending = {"props": [t for t in toks if re.fullmatch(r"C\d+", t)],
                           "tier": next((t.split("=")[1] for t in toks if t.startswith("tier=")), "quick"),
                           "spin": any(t == "spin=violation" for t in toks), "contract": any(t == "contract" for t in toks)}
                continue
            m = re.match(r"(?:pub(?:\(crate\))?\s+)?fn\s+(\w+)\s*\(", s)
            if m and pending is not None:
                fn = m.group(1)
                # the assert messages of this harness (for evidence samples): scan until the next `@props` or end
                body = []
                for l2 in lines[i + 1:]:
                    if re.match(r"\s*//\s*@props", l2):
                        break
                    body.append(l2)
                asserts = re.findall(r'assert!\(.*?,\s*"([^"]+)"\s*\)', "\n".join(body))
                if module is None:
                    raise Undecided(f"{name}: @module tag missing")
                if group:
                    if group not in sizes:
                        raise Undecided(f"{name}: @sizes for group {group} missing")
                    for size, tier in sizes[group]:
                        if pending["tier"] == "thorough" and tier == "quick":      # per-harness override: too expensive for the quick tier at any size
                            tier = "thorough"
                        out.append(Harness(file, module, group, size, fn, pending["props"], tier, pending["spin"], asserts))
                        out[-1].jobs = file_jobs if tier == "quick" else file_jobs_thorough
                else:
                    out.append(Harness(file, module, None, None, fn, pending["props"], pending["tier"], pending["spin"], asserts))
                    out[-1].jobs = file_jobs if pending["tier"] == "quick" else file_jobs_thorough
                    out[-1].contract = pending["contract"]
                pending = None
    return out


def select(pid, tier):
    hs = [h for h in load_registry() if pid in h.props]
    if tier == "quick":
        hs = [h for h in hs if h.tier == "quick"]
    elif tier != "extended":
        # `extended` instantiations (the pooled / log Multi channels beyond BUFFER_SIZE=2, MAX_STREAMS=1..2: 20-40 GB and up to an hour of CBMC
        # each) are registered but only run with --tier extended
        hs = [h for h in hs if h.tier in ("quick", "thorough")]
    return hs


def _target_dir():
    return os.path.join(CACHE, "kani-target-" + repo_tag())


def _kani_env():
    return {"REACTIVE_MUTINY_VERIF_DIR": VERIF, "CARGO_NET_OFFLINE": "true", "CARGO_TARGET_DIR": _target_dir(),
            "CARGO_TERM_COLOR": "never"}


class _Lock:
    def __enter__(self):
        os.makedirs(CACHE, exist_ok=True)
        # one lock per compiled tree: runs against scratch copies (seeded changes) have their own target dir and may run side by side
        self.f = open(os.path.join(CACHE, f"kani-{repo_tag()}.lock"), "w")
        fcntl.flock(self.f, fcntl.LOCK_EX)
        return self

    def __exit__(self, *a):
        fcntl.flock(self.f, fcntl.LOCK_UN)
        self.f.close()


PER_HARNESS_TIMEOUT_S = int(os.environ.get("VERIF_KANI_HARNESS_TIMEOUT", "1800"))
CHUNK = 48


_hash_memo = {}


def _repo_hash():
    """hash of /repo's working-tree sources + manifest + lock + flags"""
    if "repo" in _hash_memo:
        return _hash_memo["repo"]
    h = hashlib.sha1()
    files = []
    for d, _, fs in os.walk(os.path.join(REPO, "src")):
        for f in fs:
            if f.endswith(".rs"):
                files.append(os.path.join(d, f))
    files += [os.path.join(REPO, "Cargo.toml"), os.path.join(REPO, "Cargo.lock")]
    for f in sorted(files):
        if os.path.exists(f):
            h.update(f.encode()); h.update(b"\0")
            with open(f, "rb") as fh:
                h.update(fh.read())
    h.update(" ".join(KANI_FLAGS + CBMC_FLAGS).encode())
    _hash_memo["repo"] = h.hexdigest()
    return _hash_memo["repo"]


def _kani_deps():
    """harness file -> set of harness files it (transitively) uses through `crate::<module>::verif_hooks`"""
    if "deps" in _hash_memo:
        return _hash_memo["deps"]
    texts, mod2file = {}, {}
    for name in os.listdir(KANI_DIR):
        if name.endswith(".rs"):
            t = read(os.path.join(KANI_DIR, name)); texts[name[:-3]] = t
            m = re.search(r"^//\s*@module\s+(\S+)", t, re.M)
            if m:
                mod2file[m.group(1)] = name[:-3]
    direct = {}
    for f, t in texts.items():
        direct[f] = set()
        for m in re.finditer(r"crate::([\w:]+?)::(?:\{[^}]*\bverif_hooks\b|verif_hooks\b)", t):
            g = mod2file.get(m.group(1))
            if g:
                direct[f].add(g)
    deps = {}
    for f in texts:
        seen, todo = {f}, [f]
        while todo:
            x = todo.pop()
            for y in direct.get(x, ()):
                if y not in seen:
                    seen.add(y); todo.append(y)
        deps[f] = seen
    _hash_memo["deps"] = (deps, texts)
    return _hash_memo["deps"]


def source_hash(file=None):
    """hash of everything a Kani verdict of a harness in /verif/kani/<file>.rs depends on: /repo's working-tree sources + manifest +
    lock, the flags, and the texts of that harness file and of every harness file it uses (transitively)"""
    deps, texts = _kani_deps()
    h = hashlib.sha1(_repo_hash().encode())
    for f in sorted(deps.get(file, texts.keys()) if file else texts.keys()):
        # registry tags (`// @sizes`, `// @props`, `// @jobs`, ...) decide which harness runs in which tier, never a verdict
        body = "\n".join(l for l in texts[f].splitlines() if not re.match(r"\s*//\s*@\w+", l))
        h.update(f.encode()); h.update(body.encode())
    return h.hexdigest()


def _cache_path():
    return os.path.join(CACHE, f"kani-results-{repo_tag()}.json")


def _cache_all():
    try:
        return json.loads(read(_cache_path()))
    except Exception:
        return {}


def _cache_store(results):
    cur = _cache_all()
    for k, r in results.items():
        if r["status"] in ("success", "failed"):
            e = {x: r[x] for x in ("status", "checks", "failed", "unreachable", "covers", "time_s", "failed_checks", "raw") if x in r}
            e["key"] = source_hash(r["harness"].file)
            cur[k] = e
    write(_cache_path(), json.dumps(cur))


def run_batch(harnesses, jobs=None, extra=None, timeout=None, use_cache=True):
    """`cargo kani` over the real crate, one invocation per parallelism class (memory-hungry harness files declare `// @jobs n`);
    returns (results: full-name -> dict, raw output, cmd, wall). Verdicts are memoised per source hash (see source_hash): a harness is
    re-verified whenever anything under /repo/src, Cargo.toml, Cargo.lock or /verif/kani changes; several properties share harnesses."""
    if use_cache and not extra and jobs is None:
        allc = _cache_all()
        cached = {h.full: allc[h.full] for h in harnesses if h.full in allc and allc[h.full].get("key") == source_hash(h.file)}
        key = _repo_hash()
        todo = [h for h in harnesses if h.full not in cached]
        res, raws, cmds, wall = {}, [], [], 0.0
        for h in harnesses:
            if h.full in cached:
                r = dict(cached[h.full]); r["covers"] = tuple(r.get("covers", (0, 0))); r["harness"] = h; r["cached"] = True
                res[h.full] = r
        # chunked so that verdicts reached so far survive an interruption
        for j in sorted({h.jobs for h in todo}, reverse=True):
            part = [h for h in todo if h.jobs == j]
            for k in range(0, len(part), CHUNK):
                r, raw, cmd, w = run_batch(part[k:k + CHUNK], jobs=j, timeout=timeout, use_cache=False)
                res.update(r); raws.append(raw); cmds.append(cmd); wall += w
                _cache_store(r)
        if not cmds:
            cmds = [f"(all {len(harnesses)} verdicts memoised for source hash {key[:12]})"]
        return res, "\n".join(raws), " ; ".join(cmds), wall
    if jobs is None:
        classes = sorted({h.jobs for h in harnesses}, reverse=True)
        if len(classes) > 1:
            res, raws, cmds, wall = {}, [], [], 0.0
            for j in classes:
                r, raw, cmd, w = run_batch([h for h in harnesses if h.jobs == j], jobs=j, extra=extra, timeout=timeout)
                res.update(r); raws.append(raw); cmds.append(cmd); wall += w
            return res, "\n".join(raws), " ; ".join(cmds), wall
        jobs = classes[0] if classes else 16
    jobs = max(1, min(jobs, int(os.environ.get("VERIF_KANI_MAX_JOBS", jobs))))
    per_harness = PER_HARNESS_TIMEOUT_S * (2 if any(h.tier == "thorough" for h in harnesses) else 1)
    cmd = ["cargo", "kani"] + KANI_FLAGS + ["-Z", "unstable-options", "--harness-timeout", f"{per_harness}s",
                                            "-j", str(jobs), "--output-format", "terse", "--exact"]
    for h in harnesses:
        cmd += ["--harness", h.full]
    if extra:
        cmd += extra
    if timeout is None:
        timeout = 600 + per_harness * (1 + len(harnesses) // max(1, jobs))
    with _Lock():
        rc, out, wall = sh(cmd, cwd=REPO, env=_kani_env(), timeout=timeout)
    return parse_terse(out, harnesses, rc), out, " ".join(cmd), wall


def _fill(r, b):
    ms = re.search(r"\*\* (\d+) of (\d+) failed(?: \((.*?)\))?", b)
    if ms:
        r["failed"], r["checks"] = int(ms.group(1)), int(ms.group(2))
        mu = re.search(r"(\d+) unreachable", ms.group(3) or "")
        r["unreachable"] = int(mu.group(1)) if mu else 0
    mc = re.search(r"\*\* (\d+) of (\d+) cover properties satisfied", b)
    if mc:
        r["covers"] = (int(mc.group(1)), int(mc.group(2)))
    mt = re.search(r"Verification Time: ([\d.]+)s", b)
    if mt:
        r["time_s"] = float(mt.group(1))
    for fm in re.finditer(r"Failed Checks: (.*)\n\s*File: \"([^\"]*)\", line (\d+), in (\S+)", b):
        r["failed_checks"].append({"description": fm.group(1).strip(), "file": fm.group(2), "line": int(fm.group(3)), "in": fm.group(4)})
    if "VERIFICATION:- SUCCESSFUL" in b:
        r["status"] = "success"
    elif "VERIFICATION:- FAILED" in b:
        # a FAILED verdict without any check result is a harness timeout / CBMC crash, not a refutation
        r["status"] = "failed" if (r["checks"] or r["failed_checks"]) else "tool_error"
    elif "CBMC failed" in b or "out of memory" in b.lower() or "timed out" in b.lower():
        r["status"] = "tool_error"
    else:
        r["status"] = "unknown"
    r["raw"] = b[-6000:]


def parse_terse(out, harnesses, rc):
    res = {h.full: {"status": "missing", "checks": 0, "failed": 0, "unreachable": 0, "covers": (0, 0), "time_s": 0.0,
                    "failed_checks": [], "harness": h} for h in harnesses}
    if re.search(r"^error(\[E\d+\])?:", out, re.M) and "Checking harness" not in out:
        # the crate (or a harness) no longer compiles under cfg(kani): nothing is decided
        errs = re.findall(r"^error.*(?:\n.*){0,8}", out, re.M)
        raise Undecided("cargo kani: compilation failed\n" + "\n".join(errs[:6]))
    thread_harness = {}
    blocks = re.split(r"^(?=Thread \d+: )", out, flags=re.M)
    for b in blocks:
        m = re.match(r"Thread (\d+): Checking harness (\S+?)\.\.\.", b)
        if m:
            thread_harness[m.group(1)] = m.group(2)
            continue
        m = re.match(r"Thread (\d+): \s*\n", b)
        if not m:
            continue
        name = thread_harness.get(m.group(1))
        if name is None or name not in res:
            continue
        _fill(res[name], b)
    # sequential format (-j 1 / a single harness): "Checking harness NAME..." followed by its result
    for b in re.split(r"^(?=Checking harness )", out, flags=re.M):
        m = re.match(r"Checking harness (\S+?)\.\.\.", b)
        if m and m.group(1) in res and res[m.group(1)]["status"] == "missing":
            _fill(res[m.group(1)], b)
    return res


UNDECIDED_PATTERNS = [
    r"unwinding assertion", r"is not currently supported by Kani", r"unsupported", r"recursion unwinding",
]


def classify_failure(h, r):
    """-> ('violation'|'undecided', [descriptions])"""
    if r["status"] in ("missing", "tool_error", "unknown"):
        return "undecided", [f"harness did not produce a verdict ({r['status']})"]
    hard, soft = [], []
    for fc in r["failed_checks"]:
        d = fc["description"]
        if any(re.search(p, d) for p in UNDECIDED_PATTERNS):
            if "unwinding assertion" in d and h.spin_violation:
                hard.append(fc)
            else:
                soft.append(fc)
        else:
            hard.append(fc)
    if hard:
        return "violation", hard
    return "undecided", soft or [{"description": "FAILED without a listed check"}]


def concrete_playback(h, timeout=1800, failed_checks=None):
    """re-runs one failing harness asking Kani for a concrete counterexample, returns the generated unit test text (or None)"""
    cmd = ["cargo", "kani"] + KANI_FLAGS + ["-Z", "concrete-playback", "--concrete-playback=print", "--exact", "--harness", h.full,
                                            "--output-format", "terse"]
    with _Lock():
        rc, out, wall = sh(cmd, cwd=REPO, env=_kani_env(), timeout=timeout)
    blocks = re.findall(r"Concrete playback unit test for `[^`]*`:\s*```\s*\n(.*?)```", out, re.S)
    failing = [b for b in blocks if "Check for `cover`" not in b]       # Kani also prints witnesses of satisfied cover properties
    if failing:
        return failing[0], out
    # Kani 0.68 prints playback tests for satisfied cover properties but (observed) none for a failed `assert!` of a harness that also has
    # covers. Fallback: in a scratch copy of the harness texts the failed assert gets a companion `kani::cover!(!(cond))` -- a witness of that
    # cover is, by construction, an input on which the ORIGINAL assertion fails; the test is then replayed against the unmodified harness.
    test, out2 = _playback_via_cover(h, failed_checks or [], cmd, timeout)
    return test, out + out2


def _playback_via_cover(h, failed_checks, cmd, timeout):
    import shutil
    from . import rustlex as lx
    msgs = []
    for fc in failed_checks:
        if isinstance(fc, dict):
            m = re.fullmatch(r'\s*"(.*)"\s*', fc.get("description", ""), re.S)
            if m and os.path.dirname(fc.get("file", "")) == KANI_DIR:
                msgs.append(m.group(1))
    if not msgs:
        return None, ""
    scratch = os.path.join(CACHE, "playback", f"cover-{os.getpid()}")
    shutil.rmtree(scratch, ignore_errors=True)
    shutil.copytree(KANI_DIR, os.path.join(scratch, "kani"))
    n_cov = 0
    # harnesses are macro-generated (Kani reports the macro call site as the location), so the failed assert is identified by its message
    for name in sorted(os.listdir(os.path.join(scratch, "kani"))):
        if not name.endswith(".rs"):
            continue
        f = os.path.join(scratch, "kani", name)
        text = read(f)
        # the harness' own covers are switched off in the scratch copy: Kani prints one test per distinct input, labelled with the first cover it
        # witnesses, so another cover with the same witness would hide the one added here
        for s, e, a in sorted(lx.find_macro_calls(text, "cover"), reverse=True):
            s0 = s - len("kani::") if text[:s].endswith("kani::") else s
            text = text[:s0] + "{}" + text[e:]
        calls = [(s, e, a) for (s, e, a) in lx.find_macro_calls(text, "assert") if any(('"' + m + '"') in a for m in msgs[:3])]
        for s, e, a in sorted(calls, reverse=True):
            argv = lx.split_args(a)
            if len(argv) < 2:
                continue
            text = text[:s] + "kani::cover!(!(" + argv[0] + '), "FAILING-INPUT witness"); ' + text[s:]
            n_cov += 1
        write(f, text)
    if not n_cov:
        shutil.rmtree(scratch, ignore_errors=True)
        return None, ""
    with _Lock():
        rc, out, wall = sh(cmd, cwd=REPO, env=dict(_kani_env(), REACTIVE_MUTINY_VERIF_DIR=scratch), timeout=timeout)
    shutil.rmtree(scratch, ignore_errors=True)
    blocks = re.findall(r"Concrete playback unit test for `[^`]*`:\s*```\s*\n(.*?)```", out, re.S)
    hit = [b for b in blocks if "FAILING-INPUT witness" in b]
    return (hit[0] if hit else None), "\n--- fallback run (failed assert mirrored by a cover) ---\n" + out[-3000:]


def native_playback(h, test_text, timeout=1500):
    """executes Kani's concrete-playback unit test NATIVELY against the real code (rustc-compiled, `cargo kani playback`): the test is spliced
    behind the harness function in a scratch copy of /verif/kani (the crate includes the harness texts through REACTIVE_MUTINY_VERIF_DIR).
    -> (outcome: 'reproduced' | 'not-reproduced' | 'error', text)"""
    import shutil
    from . import rustlex as lx
    m = re.search(r"fn (kani_concrete_playback_\w+)", test_text)
    if not m:
        return "error", "no test function in the playback text"
    scratch = os.path.join(CACHE, "playback", f"{os.getpid()}")
    shutil.rmtree(scratch, ignore_errors=True)
    shutil.copytree(KANI_DIR, os.path.join(scratch, "kani"))
    f = os.path.join(scratch, "kani", h.file + ".rs")
    text = read(f)
    hit = lx.find_fn(text, h.fn, None, lx.mask(text))
    if not hit:
        return "error", f"harness fn {h.fn} not found in {f}"
    _s, _bo, bc = hit
    write(f, text[:bc + 1] + "\n" + test_text + "\n" + text[bc + 1:])
    name = (h.size + "::" if h.size else "") + m.group(1)
    env = dict(_kani_env(), REACTIVE_MUTINY_VERIF_DIR=scratch, CARGO_TARGET_DIR=os.path.join(CACHE, "kani-playback-target-" + repo_tag()), RUST_BACKTRACE="0")
    rc, out, wall = sh(["cargo", "kani", "playback", "-Z", "concrete-playback", "--", name], cwd=REPO, env=env, timeout=timeout)
    shutil.rmtree(scratch, ignore_errors=True)
    panic = re.findall(r"panicked at ([^\n]*):\n([^\n]*)", out)
    if re.search(r"test result: FAILED", out) and panic:
        return "reproduced", "; ".join(f"{loc}: {msg}" for loc, msg in panic[:3]) + f"   [native run of {name}, {wall:.0f}s]"
    if re.search(r"test result: ok\. 1 passed", out):
        return "not-reproduced", f"the native run of {name} did not panic (the failed check may be one that only the symbolic engine evaluates, e.g. a pointer-validity check)"
    return "error", out[-1500:]


def warm():
    hs = [h for h in load_registry()][:1]
    if not hs:
        return 0, "no harness registered"
    res, out, cmd, wall = run_batch(hs, jobs=1)
    return (0 if all(r["status"] == "success" for r in res.values()) else 1), out[-2000:]
