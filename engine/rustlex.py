"""A small Rust-aware scanner (DESIGN §2.2): enough lexing to find items and balanced blocks in the REAL source text of /repo without
being fooled by strings, chars, lifetimes and (nested) comments. No parsing beyond that: the extractor copies text verbatim."""
import re
from .common import Undecided


def mask(text, keep_strings=False):
    """same-length copy of `text` in which comments (and, unless keep_strings, the contents of string/char literals) are blanked"""
    out = list(text)
    i, n = 0, len(text)

    def blank(a, b):
        for k in range(a, b):
            if out[k] != "\n":
                out[k] = " "

    while i < n:
        c = text[i]
        if c == "/" and i + 1 < n and text[i + 1] == "/":
            j = text.find("\n", i)
            j = n if j < 0 else j
            blank(i, j); i = j; continue
        if c == "/" and i + 1 < n and text[i + 1] == "*":
            depth, j = 1, i + 2
            while j < n and depth:
                if text.startswith("/*", j):
                    depth += 1; j += 2
                elif text.startswith("*/", j):
                    depth -= 1; j += 2
                else:
                    j += 1
            blank(i, j); i = j; continue
        if c == '"' or (c in "br" and re.match(r'b?r?#*"', text[i:i + 6]) and (i == 0 or not (text[i - 1].isalnum() or text[i - 1] == "_"))):
            m = re.match(r'(b?)(r?)(#*)"', text[i:])
            if m:
                raw, hashes = m.group(2) == "r", m.group(3)
                j = i + m.end()
                if raw:
                    end = text.find('"' + hashes, j)
                    end = n if end < 0 else end
                    if not keep_strings:
                        blank(j, end)
                    i = end + 1 + len(hashes); continue
                while j < n and text[j] != '"':
                    j += 2 if text[j] == "\\" else 1
                if not keep_strings:
                    blank(i + m.end(), min(j, n))
                i = j + 1; continue
        if c == "'":
            # char literal or lifetime
            m = re.match(r"'(\\.[^']*|[^\\'])'", text[i:])
            if m:
                if not keep_strings:
                    blank(i + 1, i + m.end() - 1)
                i += m.end(); continue
            i += 1; continue
        i += 1
    return "".join(out)


def strip_comments(text):
    """text with comments removed (strings kept) -- rule R1"""
    m = mask(text, keep_strings=True)
    # drop lines that became empty because they only held a comment
    out = []
    for orig, ml in zip(text.split("\n"), m.split("\n")):
        if ml.strip() == "" and orig.strip() != "":
            continue
        out.append(ml.rstrip())
    return "\n".join(out)


def match_close(msk, open_pos):
    """index of the bracket closing the one at open_pos (msk must be a mask)"""
    pairs = {"{": "}", "(": ")", "[": "]"}
    o = msk[open_pos]
    c = pairs[o]
    depth = 0
    for k in range(open_pos, len(msk)):
        ch = msk[k]
        if ch == o:
            depth += 1
        elif ch == c:
            depth -= 1
            if depth == 0:
                return k
    raise Undecided(f"unbalanced {o} at offset {open_pos}")


def find_blocks(text, header_re, msk=None):
    """all (header_start, body_open, body_close) of items whose header matches header_re (regex over the mask, must end before the `{`)"""
    msk = msk or mask(text)
    res = []
    for m in re.finditer(header_re, msk, re.S):
        o = msk.find("{", m.end() - 1)
        if o < 0:
            continue
        res.append((m.start(), o, match_close(msk, o)))
    return res


def find_fn(text, name, within=None, msk=None, nth=0):
    """(start, body_open, body_close) of `fn name` inside the byte range `within`; start is at `pub`/`async`/`unsafe`/`fn`"""
    msk = msk or mask(text)
    a, b = within or (0, len(text))
    hits = []
    for m in re.finditer(r"(?:\bpub(?:\([^)]*\))?\s+)?(?:\bconst\s+)?(?:\basync\s+)?(?:\bunsafe\s+)?\bfn\s+" + re.escape(name) + r"\b", msk[a:b]):
        s = a + m.start()
        # the body `{` is the first `{` at bracket depth 0 after the parameter list; a `;` first means a declaration without body
        k = a + m.end()
        depth = 0
        body = None
        while k < b:
            ch = msk[k]
            if ch in "([":
                depth += 1
            elif ch in ")]":
                depth -= 1
            elif ch == ";" and depth == 0:
                break
            elif ch == "{" and depth == 0:
                body = k; break
            k += 1
        if body is None:
            continue
        hits.append((s, body, match_close(msk, body)))
    if len(hits) <= nth:
        return None
    return hits[nth]


def struct_fields(text, name):
    """[(field, type)] of `struct name` in declaration order"""
    msk = mask(text)
    m = re.search(r"\bstruct\s+" + re.escape(name) + r"\b[^;{]*\{", msk)
    if not m:
        return None
    o = m.end() - 1
    c = match_close(msk, o)
    body, mb = text[o + 1:c], msk[o + 1:c]
    fields, depth, start = [], 0, 0
    parts = []
    for k, ch in enumerate(mb):
        if ch in "([{<":
            depth += 1
        elif ch in ")]}>":
            depth -= 1
        elif ch == "," and depth == 0:
            parts.append((start, k)); start = k + 1
    parts.append((start, len(mb)))
    for s, e in parts:
        seg = re.sub(r"#\[[^\]]*\]", "", mb[s:e]).strip()
        mm = re.match(r"(?:pub(?:\([^)]*\))?\s+)?(\w+)\s*:\s*(.*)$", seg, re.S)
        if mm:
            fields.append((mm.group(1), re.sub(r"\s+", " ", mm.group(2)).strip()))
    return fields


def macro_rules(text, name):
    """(params, body_text) of a single-arm `macro_rules! name { (params) => { body } }`"""
    msk = mask(text)
    m = re.search(r"\bmacro_rules!\s+" + re.escape(name) + r"\s*\{", msk)
    if not m:
        return None
    o = m.end() - 1
    c = match_close(msk, o)
    inner_s = o + 1
    po = msk.find("(", inner_s, c)
    pc = match_close(msk, po)
    params = re.findall(r"\$(\w+)\s*:\s*\w+", text[po:pc])
    arrow = msk.find("=>", pc, c)
    bo = msk.find("{", arrow, c)
    bc = match_close(msk, bo)
    return params, text[bo + 1:bc]


def split_args(argtext):
    """top-level comma split of a macro/function argument list"""
    msk = mask(argtext)
    parts, depth, start = [], 0, 0
    for k, ch in enumerate(msk):
        if ch in "([{":
            depth += 1
        elif ch in ")]}":
            depth -= 1
        elif ch == "," and depth == 0:
            parts.append(argtext[start:k].strip()); start = k + 1
    last = argtext[start:].strip()
    if last:
        parts.append(last)
    return parts


def find_macro_calls(text, name):
    """[(start, end_exclusive_including_optional_semicolon, args_text)] of `name!( ... )` invocations"""
    msk = mask(text)
    res = []
    for m in re.finditer(r"\b" + re.escape(name) + r"!\s*([(\[{])", msk):
        o = m.end() - 1
        c = match_close(msk, o)
        e = c + 1
        res.append((m.start(), e, text[o + 1:c]))
    return res
