"""Back end V: Verus on functions extracted mechanically from /repo on every run (DESIGN §2.2).

A unit = /verif/verus/units/<name>.py exporting UNIT (engine.verus_run.Unit). Running a unit:
  1. extract every FnSpec from /repo's working tree (engine.extract) -> <cache>/verus/<unit>.rs  (+ per-function diffs under evidence/diffs/)
  2. `verus <unit>.rs --output-json --time --error-format=json`
  3. every extracted function and every listed lemma is one obligation; the unit's negative control MUST fail (vacuity guard)
Failures inside a verified function (postcondition / precondition / invariant / assertion / overflow) are violations; compile errors,
unsupported constructs, rlimit and timeouts are UNDECIDED."""
import importlib.util, json, os, re, time
from concurrent.futures import ThreadPoolExecutor
from .common import *
from . import extract as ex

VERUS_DIR = os.path.join(VERIF, "verus")
UNITS_DIR = os.path.join(VERUS_DIR, "units")
UNIT_TIMEOUT_S = 240


class Lemma:
    """a hand-written proof fn / spec-level obligation inside the unit's spec text that counts as an obligation of `props`"""

    def __init__(self, name, props, kind="lemma", clauses=()):
        self.name, self.props, self.kind, self.clauses = name, list(props), kind, list(clauses)


class Unit:
    def __init__(self, name, fns, spec="", prelude=("prelude.rs",), lemmas=(), global_rules=(), generated=None, tier="quick", model="S",
                 trusted=(), assumptions=(), props=()):
        self.name, self.fns, self.spec, self.prelude, self.lemmas = name, list(fns), spec, list(prelude), list(lemmas)
        self.global_rules = list(global_rules)
        self.generated = generated        # callable(repo, log) -> (text, [Lemma]) : text generated from /repo (e.g. drop glue from field order)
        self.tier, self.model = tier, model
        self.trusted, self.assumptions = list(trusted), list(assumptions)
        self.extra_props = list(props)       # properties served by obligations that only exist once `generated` ran

    def props(self):
        s = set(self.extra_props)
        for f in self.fns:
            s.update(f.props)
        for l in self.lemmas:
            s.update(l.props)
        return s


def load_units():
    units = []
    if not os.path.isdir(UNITS_DIR):
        return units
    for fn in sorted(os.listdir(UNITS_DIR)):
        if not fn.endswith(".py") or fn.startswith("_"):
            continue
        spec = importlib.util.spec_from_file_location("vunit_" + fn[:-3], os.path.join(UNITS_DIR, fn))
        mod = importlib.util.module_from_spec(spec)
        spec.loader.exec_module(mod)
        for u in getattr(mod, "UNITS", [getattr(mod, "UNIT", None)]):
            if u is not None:
                units.append(u)
    return units


def generate(unit, repo=None):
    """-> (path of generated .rs, fn_ranges {out_name: (first_line, last_line)}, infos {out_name: info}, rules log, lemmas)"""
    repo = repo or REPO
    log = {}
    parts = ["// GENERATED on every run by /verif/engine from " + repo + " -- do not edit\n#![allow(unused)]\nuse vstd::prelude::*;\nverus! {\n"]
    for p in unit.prelude:
        parts.append(f"// ---- prelude {p} ----\n" + read(os.path.join(VERUS_DIR, p)) + "\n")
    # a unit's spec text may depend on the real source (e.g. extra atomic fields of the real struct): callable(repo) -> text
    spec_text = unit.spec(repo) if callable(unit.spec) else unit.spec
    parts.append(f"// ---- spec of unit {unit.name} ----\n" + spec_text + "\n")
    lemmas = list(unit.lemmas)
    if unit.generated:
        gtext, glemmas = unit.generated(repo, log)
        parts.append("// ---- generated from /repo (structure) ----\n" + gtext + "\n")
        byname = {l.name: l for l in lemmas}
        byname.update({l.name: l for l in glemmas})
        lemmas = list(byname.values())
    infos, ranges = {}, {}
    cur_container = None
    text_so_far = "".join(parts)
    for f in unit.fns:
        body, info = f.extract(repo, unit.global_rules, log)
        container = getattr(f, "container", None)
        chunk = ""
        if container != cur_container:
            if cur_container:
                chunk += "}\n"
            if container:
                chunk += container + " {\n"
            cur_container = container
        first = (text_so_far + chunk).count("\n") + 1
        chunk += f"// ---- extracted: {info['file']}:{info['line']} fn {info['fn']} ----\n" + body
        text_so_far += chunk
        last = text_so_far.count("\n") + 1
        ranges[f.out_name] = (first, last)
        infos[f.out_name] = info
    if cur_container:
        text_so_far += "}\n"
    text_so_far += ("\n// ---- negative control: this obligation MUST FAIL (guards against a silently disabled verifier) ----\n"
                    "proof fn negative_control_must_fail(x: int) ensures x == x + 1 {}\n")
    text_so_far += "\n} // verus!\nfn main() {}\n"
    out = os.path.join(CACHE, "verus", repo_tag(), unit.name + ".rs")
    write(out, text_so_far)
    return out, ranges, infos, log, lemmas


VERIF_FAIL_PATTERNS = [r"postcondition not satisfied", r"precondition not satisfied", r"assertion failed", r"invariant not satisfied",
                       r"possible arithmetic underflow/overflow", r"possible division by zero", r"decreases not satisfied",
                       r"possible bit shift", r"index out of bounds", r"unreachable", r"might not be allowed at type",
                       r"recommendation not met", r"could not prove termination", r"failed to satisfy", r"not satisfied"]


def run_unit(unit, repo=None):
    t0 = time.time()
    path, ranges, infos, rlog, lemmas = generate(unit, repo)
    cmd = ["verus", os.path.basename(path), "--output-json", "--time", "--error-format=json", "--multiple-errors", "20"]
    rc, out, wall = sh(" ".join(cmd) + " 2> " + os.path.basename(path) + ".stderr", cwd=os.path.dirname(path), timeout=UNIT_TIMEOUT_S)
    err = read(path + ".stderr") if os.path.exists(path + ".stderr") else ""
    res = {"unit": unit, "path": path, "cmd": f"(cd {os.path.dirname(path)} && {' '.join(cmd)})", "wall": wall, "rules": rlog, "infos": infos,
           "ranges": ranges, "lemmas": lemmas, "fn_status": {}, "errors": [], "undecided": None, "raw": err[-8000:], "smt_ms": 0}
    if rc == 124:
        res["undecided"] = f"verus timed out after {UNIT_TIMEOUT_S}s on unit {unit.name}"
        return res
    try:
        j = json.loads(out[out.index("{"):])
    except Exception:
        res["undecided"] = f"verus produced no JSON on unit {unit.name}: {(out + err)[-1500:]}"
        return res
    vr = j.get("verification-results", {})
    diags = []
    for line in err.splitlines():
        line = line.strip()
        if not line.startswith("{"):
            continue
        try:
            d = json.loads(line)
        except Exception:
            continue
        if d.get("level") == "error" and d.get("spans"):
            diags.append(d)
    # per-function SMT verdicts
    fb = {}
    try:
        for mod in j["times-ms"]["smt"]["smt-run-module-times"]:
            for f in mod.get("function-breakdown", []):
                fb[f["function"].split("::")[-1]] = f
        res["smt_ms"] = j["times-ms"]["smt"].get("smt-run", 0)
    except Exception:
        pass
    res["fb"] = fb
    if vr.get("encountered-vir-error") or (not fb and not vr.get("success")):
        msgs = [d.get("rendered") or d["message"] for d in diags][:4]
        res["undecided"] = f"unit {unit.name}: the generated text is not accepted by Verus (tool limit / lost anchor, not a verdict):\n" + "\n".join(msgs) + ("" if msgs else err[-1500:])
        return res
    lines = read(path).splitlines()

    def owner(line_no):
        for name, (a, b) in ranges.items():
            if a <= line_no <= b:
                return name
        # lemma / spec area: find enclosing `fn name` by scanning upwards
        for k in range(min(line_no, len(lines)) - 1, -1, -1):
            m = re.match(r"\s*(?:pub\s+)?(?:open\s+|closed\s+)?(?:proof|spec|exec)?\s*fn\s+(\w+)", lines[k])
            if m:
                return m.group(1)
        return None

    non_verif = []
    for d in diags:
        prim = next((s for s in d["spans"] if s.get("is_primary")), d["spans"][0])
        o = owner(prim["line_start"])
        msg = d["message"]
        detail = msg + " :: " + _span_text(prim)
        for s in d["spans"]:
            if not s.get("is_primary") and s.get("label"):
                detail += f"  [{s['label']}: " + _span_text(s) + "]"
        entry = {"fn": o, "message": msg, "detail": detail, "line": prim["line_start"]}
        if any(re.search(p, msg) for p in VERIF_FAIL_PATTERNS) or (o in fb and fb[o].get("success") is False):
            res["errors"].append(entry)
        elif "rlimit" in msg.lower() or "resource limit" in msg.lower():
            res["errors"].append(dict(entry, rlimit=True))
        else:
            non_verif.append(entry)
    if non_verif:
        res["undecided"] = f"unit {unit.name}: Verus reported non-verification errors (tool limit / lost anchor): " + "; ".join(e["detail"] for e in non_verif[:4])
    return res


def _span_text(sp, limit=260):
    """the source text a diagnostic span points at (the highlighted part only)"""
    parts = []
    for t in sp.get("text", []):
        parts.append(t["text"][max(0, t.get("highlight_start", 1) - 1):max(0, t.get("highlight_end", len(t["text"]) + 1) - 1)].strip())
    return re.sub(r"\s+", " ", " ".join(parts))[:limit]


def records_for(pid, tier, results):
    """turn unit results into obligation records of property pid"""
    recs = []
    for r in results:
        u = r["unit"]
        obls = [(f.out_name, f.props, f.kind, f) for f in u.fns] + [(l.name, l.props, l.kind, l) for l in r.get("lemmas", u.lemmas)]
        nc_failed = any(e["fn"] == "negative_control_must_fail" for e in r["errors"])
        for name, props, kind, obj in obls:
            if pid not in props:
                continue
            errs = [e for e in r["errors"] if e["fn"] == name]
            fbe = r.get("fb", {}).get(name)
            rec = {"name": f"{pid}.V.{u.name}.{name}", "instance": f"model-{u.model}", "backend": "verus", "unit": u.name, "kind": kind,
                   "time_s": round((fbe or {}).get("time-micros", 0) / 1e6, 3), "solver_checks": 1, "raw": "",
                   "clauses": getattr(obj, "clauses", None) or _clauses_of(obj)}
            info = r["infos"].get(name)
            if info:
                rec["functions"] = [f"{info['file']}:{info['line']} {info['fn']} (model {u.model}, verus, extracted)"]
            if r["undecided"]:
                rec["status"] = "undecided"; rec["detail"] = [r["undecided"][:1500]]
            elif not nc_failed:
                rec["status"] = "undecided"; rec["detail"] = ["vacuity guard: the unit's negative control did not fail"]
            elif errs and info and info.get("hints_skipped"):
                rec["status"] = "undecided"
                rec["detail"] = [f"{info['hints_skipped']} proof hint(s) lost their anchor in the edited source, so the failed proof decides nothing (contract needs review): " + errs[0]["detail"]]
            elif errs and info and info.get("loops_without_invariant"):
                rec["status"] = "undecided"
                rec["detail"] = [f"the function now contains {info['loops_without_invariant']} loop(s) for which the contract holds no invariant, so the failed proof decides nothing (contract needs review): " + errs[0]["detail"]]
            elif errs:
                if all(e.get("rlimit") for e in errs):
                    rec["status"] = "undecided"; rec["detail"] = ["rlimit exceeded: " + e["detail"] for e in errs]
                else:
                    rec["status"] = "violated"; rec["detail"] = [e["detail"] for e in errs if not e.get("rlimit")]
                    rec["raw"] = "\n".join(e["detail"] for e in errs) + "\n\n--- verus stderr (tail) ---\n" + r["raw"][-3000:]
            elif fbe is not None and fbe.get("success") is False:
                rec["status"] = "violated"; rec["detail"] = ["verus reports this function as not verified"]; rec["raw"] = r["raw"][-3000:]
            else:
                rec["status"] = "discharged"
            recs.append(rec)
    return recs


def _clauses_of(obj):
    out = []
    for attr in ("requires", "ensures"):
        t = getattr(obj, attr, None)
        if t:
            out += [f"{attr}: " + re.sub(r"\s+", " ", c.strip()) for c in t.split(",\n") if c.strip()][:8]
    return out[:12]


_cache = {}


def run(pid, tier, records, info):
    units = [u for u in load_units() if pid in u.props() and (tier == "thorough" or u.tier == "quick")]
    if not units:
        return
    def run_unit_guarded(u):
        # a unit whose text can no longer be extracted (lost anchor, changed shape) decides nothing ITSELF; the other units' verdicts stand
        try:
            return run_unit(u)
        except Undecided as e:
            return {"unit": u, "path": None, "cmd": f"(unit {u.name}: extraction undecided)", "wall": 0.0, "rules": {}, "infos": {}, "ranges": {},
                    "lemmas": u.lemmas, "fn_status": {}, "errors": [], "undecided": f"unit {u.name}: {e}", "raw": "", "smt_ms": 0, "fb": {}}
    with ThreadPoolExecutor(max_workers=8) as pool:
        results = list(pool.map(run_unit_guarded, units))
    for r in results:
        info["checker_cmds"].append(r["cmd"])
        for k, v in r["rules"].items():
            info.setdefault("rewrite_rules", {})[k] = info.get("rewrite_rules", {}).get(k, 0) + v
        ddir = os.path.join(EVIDENCE_DIR, "diffs", r["unit"].name)
        for name, i in r["infos"].items():
            write(os.path.join(ddir, name + ".diff"), i["diff"])
            info.setdefault("diffs", []).append(os.path.relpath(os.path.join(ddir, name + ".diff"), VERIF))
        info.setdefault("verus_wall_s", 0.0)
        info["verus_wall_s"] = round(info["verus_wall_s"] + r["wall"], 1)
        info.setdefault("assumption_scan", [])
        info["assumption_scan"] += scan_assumptions(r["path"], r["unit"]) if r["path"] else []
        info.setdefault("unit_assumptions", [])
        info["unit_assumptions"] += r["unit"].assumptions
        info.setdefault("unit_trusted", [])
        info["unit_trusted"] += r["unit"].trusted
    records += records_for(pid, tier, results)


def scan_assumptions(path, unit):
    """mechanical scan of the generated text for unchecked assumptions (DESIGN §6)"""
    out = []
    for i, l in enumerate(read(path).splitlines(), 1):
        s = l.strip()
        if s.startswith("//"):
            continue
        for kw in ("assume(", "admit(", "external_body", "assume_specification", "external_fn_specification", "#[verifier::external"):
            if kw in s:
                out.append(f"verus unit {unit.name} line {i}: {s[:160]}")
                break
    return out


def warm():
    t = os.path.join(CACHE, "verus", "warm.rs")
    write(t, "use vstd::prelude::*;\nverus!{ proof fn w() ensures 1 + 1 == 2int {} }\nfn main(){}\n")
    rc, out, wall = sh(["verus", "warm.rs"], cwd=os.path.dirname(t), timeout=300)
    return (0 if rc == 0 else 1), out[-1500:]


def replay(pid, ob, text, path):
    m = re.match(r"(C\d+)\.V\.([^.]+)\.(.+)$", ob)
    if not m:
        print("UNDECIDED: cannot parse obligation name"); return EXIT_UNDECIDED
    units = [u for u in load_units() if u.name == m.group(2)]
    if not units:
        print("UNDECIDED: unit no longer registered"); return EXIT_UNDECIDED
    try:
        r = run_unit(units[0])
    except Undecided as u:
        print("UNDECIDED:", u); return EXIT_UNDECIDED
    recs = [x for x in records_for(pid, "thorough", [r]) if x["name"] == ob]
    if not recs:
        print("UNDECIDED: obligation no longer registered"); return EXIT_UNDECIDED
    rec = recs[0]
    print(f"{ob}: {rec['status']}")
    for d in rec.get("detail", []):
        print("   ", d)
    if rec["status"] == "violated":
        print(f"VIOLATION property={pid} replay={path} no-failing-input-found"); return EXIT_VIOLATION
    return EXIT_OK if rec["status"] == "discharged" else EXIT_UNDECIDED
