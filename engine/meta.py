"""Static per-property metadata that goes into evidence files: residue that is NOT decided, trusted base, assumptions.
(The measured part - obligations, counts, times - is produced by the run itself.)"""

VERUS_TRUSTED = [
    "Verus 0.2026.09.13 + its Z3 (SMT encoding of the extracted functions; vstd's specifications of core/std items)",
    "the extractor's rewrite rules (DESIGN §2.2): listed with their application counts under coverage.rewrite_rules_applied; the per-function diffs real text -> verified text are under evidence/diffs/",
]
COMMON_TRUSTED = [
    "Kani 0.68 / CBMC 6.11 (symbolic execution of the MIR of the real crate, incl. its model of atomics as sequential operations; compare_exchange_weak never fails spuriously in the model)",
    "rustc front end; Kani's std-library models",
]
COMMON_ASSUMPTIONS = [
    "memory is sequentially consistent (memory orderings Relaxed/Release/Acquire are not modelled by either back end)",
    "hardware atomic read-modify-write operations are atomic",
    "Kani instantiations are concrete in BUFFER_SIZE/POOL_SIZE/MAX_STREAMS (listed under coverage.instantiations); within one instantiation the start state is an ARBITRARY state satisfying the representation invariant (every u32 counter origin, every fill level, every payload), so all sequential histories are covered by induction",
    "termination of spin loops is not proved (Kani: unwinding assertions show they run a bounded number of iterations in the sequential setting only)",
]

RING_RESIDUE = ("interleavings of concurrent producers/consumers on the lock-free AtomicMove protocol (linearizability under true concurrency), "
                "memory-ordering correctness; the crossbeam-backed channels' queue (assumed bounded FIFO)")

PROPS = {
    "C01": {"residue": "exactly-once under concurrent producers/consumers of AtomicMove; crossbeam queue internals (assumed). " + RING_RESIDUE},
    "C02": {"residue": "'every operation takes effect at one instant' for AtomicMove under real concurrency; " + RING_RESIDUE},
    "C03": {"residue": "producers racing consumers on the per-listener rings; order between several concurrent producers"},
    "C04": {"residue": "the race itself (wake decision vs. consumer's consume/check/register/park steps) is a liveness property over interleavings and is NOT decided; only the necessary sequential condition is"},
    "C05": {"residue": "two threads dropping the last two handles simultaneously (RMW atomicity assumed); handles outliving the channel (excluded by the statement)"},
    "C06": {"residue": "'fully processed by the pipeline' for items inside for_each_concurrent futures; sends racing close; tokio scheduling"},
    "C07": {"residue": "the cancel landing between the keep-running check and the waker registration (interleaving)"},
    "C08": {"residue": "interleavings with a concurrently polling consumer"},
    "C09": {"residue": "subscription racing publishers that reserved but did not yet publish; real mmap behaviour"},
    "C10": {"residue": "none beyond the sequential histories the statement quantifies over, except concurrent create/drop"},
    "C11": {"residue": "counters under concurrent inc (see C19), real time, the futures crate's for_each_concurrent limit (assumed)"},
    "C12": {"residue": "report_scheduled_to_finish racing the end; out-of-order completion inside for_each_concurrent; real scheduling"},
    "C13": {"residue": "exclusive ownership under concurrent alloc/dealloc on the atomic free list"},
    "C14": {"residue": "clone racing the final drop on different threads (RMW atomicity assumed)"},
    "C15": {"residue": "none for sequential histories at the listed instantiations; concurrency as in C01"},
    "C16": {"residue": "producers colliding at the capacity boundary (overshoot-and-recede path under real concurrency)"},
    "C18": {"residue": "lock exclusion itself (swap-based spin flag / parking_lot RawMutex provide mutual exclusion: assumed), the atomic non-blocking queue under concurrency, Relaxed unlock store"},
    "C19": {"residue": "'average equals the arithmetic mean within tolerance' (floating-point error accumulation); lightweight_probe is outside the statement"},
    "C20": {"residue": "'completes in a bounded number of its own steps' under real concurrency for spin loops in general"},
}
