import json, os, re, sys, time
from .common import *
from . import kani_run, meta

try:
    from . import verus_run
except ImportError:           # back end V not built yet
    verus_run = None


def _safe(name):
    return re.sub(r"[^A-Za-z0-9_.-]+", "_", name)


def run_kani(pid, tier, records, info):
    hs = kani_run.select(pid, tier)
    if not hs:
        return
    res, raw, cmd, wall = kani_run.run_batch(hs)
    # a harness without a verdict (CBMC killed / out of memory / timed out under load) is retried once with little parallelism before the
    # run is declared undecided
    flaky = [h for h in hs if res[h.full]["status"] in ("tool_error", "missing", "unknown")]
    if flaky and len(flaky) <= 12:
        res2, raw2, cmd2, wall2 = kani_run.run_batch(flaky, jobs=2, use_cache=False)
        kani_run._cache_store(res2)
        for h in flaky:
            if res2[h.full]["status"] in ("success", "failed"):
                res[h.full] = res2[h.full]
        raw += "\n--- retry of harnesses without a verdict ---\n" + raw2
        wall += wall2
        info["kani_retried"] = [h.full for h in flaky]
    info["checker_cmds"].append(f"(cd {REPO} && REACTIVE_MUTINY_VERIF_DIR={VERIF} CARGO_TARGET_DIR=<cache> {cmd})")
    info["kani_wall_s"] = round(wall, 1)
    write(os.path.join(CACHE, "logs", f"{pid}-kani.log"), raw)
    for h in hs:
        r = res[h.full]
        rec = {"name": h.obligation(pid), "instance": h.size or "-", "backend": "kani_contract" if getattr(h, "contract", False) else "kani_harness_complete", "harness": h.full,
               "time_s": r["time_s"], "solver_checks": r["checks"], "covers": list(r["covers"]), "asserts": h.asserts, "_h": h, "_r": r}
        if r["status"] == "success":
            if r["covers"][0] < r["covers"][1]:
                rec["status"] = "undecided"
                rec["detail"] = [f"vacuity guard: only {r['covers'][0]} of {r['covers'][1]} cover properties reachable"]
            elif r["checks"] == 0:
                rec["status"] = "undecided"; rec["detail"] = ["vacuity guard: zero checks generated"]
            else:
                rec["status"] = "discharged"
        else:
            kind, checks = kani_run.classify_failure(h, r)
            rec["status"] = "violated" if kind == "violation" else "undecided"
            rec["detail"] = [c if isinstance(c, str) else f"{c['description']}  [{c.get('file','')}:{c.get('line','')}]" for c in checks]
            if r["status"] in ("missing", "tool_error", "unknown"):
                # CBMC was stopped by the per-harness time limit / ran out of memory (also after the low-parallelism retry): this instantiation was NOT EXPLORED.
                # It is reported (line + evidence), never counted as discharged, and -- as long as it stays the exception -- does not turn the run into "undecided"
                rec["status"] = "not_explored"
        records.append(rec)


def write_replay(pid, rec, info):
    """replay file for a violated obligation: obligation name, verifier output, concrete input if the verifier gives one"""
    path = os.path.join(REPLAY_DIR, _safe(f"{rec['name']}.{rec['instance']}") + ".txt")
    lines = [f"property: {pid}", f"obligation: {rec['name']}", f"instance: {rec['instance']}", f"backend: {rec['backend']}",
             f"repo: {REPO} @ {git_head(REPO)} (+ working-tree changes: {repo_dirty_summary()})", "failed clauses:"]
    lines += [f"  - {d}" for d in rec.get("detail", [])]
    has_input = False
    if rec["backend"].startswith("kani"):
        h = rec["_h"]
        lines.append(f"replay_cmd: {VERIF}/bin/vcheck --replay {path}")
        lines.append(f"harness: {h.full}")
        test, out = (None, "") if info.setdefault("playbacks", set()) & {rec["name"]} else kani_run.concrete_playback(h, failed_checks=rec["_r"].get("failed_checks"))
        info["playbacks"].add(rec["name"])
        if test is None and not out:
            lines.append("(concrete playback already produced for another instantiation of this obligation in this run)")
        if test:
            has_input = True
            lines += ["", "concrete counterexample (Kani concrete playback; a unit test that drives the REAL code with these bytes):", "```", test.rstrip(), "```"]
            if os.environ.get("VERIF_NO_NATIVE_REPLAY") != "1":
                outcome, text = kani_run.native_playback(h, test)
                lines += ["", f"native replay of that test against the real code (rustc-compiled, cargo kani playback): {outcome.upper()}", "  " + text]
                rec["native_replay"] = outcome
        else:
            lines += ["", "Kani produced no concrete playback test for this failure."]
        lines += ["", "verifier output (tail):", rec["_r"].get("raw", "")[-4000:]]
    else:
        lines.append(f"replay_cmd: {VERIF}/bin/vcheck --replay {path}")
        lines.append(f"unit: {rec.get('unit','')}")
        lines += ["", "verifier output:", rec.get("raw", "")[-6000:]]
        if rec.get("concrete_input"):
            has_input = True
            lines += ["", "concrete failing input (replayed against the real code):", rec["concrete_input"]]
    write(path, "\n".join(lines) + "\n")
    return path, has_input


def main(argv):
    if not argv or argv[0] in ("-h", "--help"):
        print(__doc__ or "usage: vcheck <PROPERTY> [--tier quick|thorough] | --replay <file> | --warm"); return 0
    if argv[0] == "--warm":
        rc, tail = kani_run.warm()
        if verus_run:
            rc2, tail2 = verus_run.warm()
            rc = rc or rc2
        print("warm:", "ok" if rc == 0 else "FAILED\n" + tail)
        return 0 if rc == 0 else 2
    if argv[0] == "--replay":
        return replay(argv[1])
    if argv[0] == "--dev-kani":      # development aid: run every harness of one /verif/kani/<file>.rs (optionally filtered by substring)
        hs = [h for h in kani_run.load_registry() if (h.file == argv[1] or argv[1] == "ALL" or (argv[1] == "QUICK" and h.tier == "quick")) and (len(argv) < 3 or argv[2] in h.full) and (os.environ.get("DEV_TIER") in (None, h.tier))]
        res, raw, cmd, wall = kani_run.run_batch(hs)
        write(os.path.join(CACHE, "logs", "dev-kani.log"), raw)
        bad = 0
        for h in hs:
            r = res[h.full]
            print(f"{r['status']:8}{'*' if r.get('cached') else ' '}{r['time_s']:7.1f}s checks={r['checks']:5} covers={r['covers']} {h.full.split('verif_hooks::proofs::')[1]}")
            for fc in r["failed_checks"]:
                print("      FAILED:", fc["description"], fc.get("file", ""), fc.get("line", ""))
            bad += r["status"] != "success"
        print(f"{len(hs)} harnesses, {bad} not successful, wall {wall:.0f}s")
        if bad and "error" in raw:
            print(raw[-3000:])
        return 1 if bad else 0
    pid = argv[0]
    tier = os.environ.get("VERIF_TIER", "quick")
    if "--tier" in argv:
        tier = argv[argv.index("--tier") + 1]
    seed = int(os.environ.get("VERIF_SEED", "0") or 0)
    return check(pid, tier, seed)


def check(pid, tier, seed):
    t0 = time.time()
    findings = Findings()
    records, info = [], {"checker_cmds": []}
    undecided_reason = None
    # development aid for trying seeded changes quickly (scratch copies only; the registered checks always run both back ends)
    only = os.environ.get("VERIF_ONLY") if REPO != "/repo" else None
    try:
        if only != "verus":
            run_kani(pid, tier, records, info)
        if verus_run and only != "kani":
            verus_run.run(pid, tier, records, info)
    except Undecided as u:
        undecided_reason = str(u)
    violations, known, undecided = [], [], []
    for rec in records:
        if rec["status"] == "violated":
            kf = findings.lookup(pid, rec["name"])
            if kf is not None:
                rec["status"] = "known_finding"; known.append((rec, kf))
            else:
                violations.append(rec)
        elif rec["status"] == "undecided":
            undecided.append(rec)
    printed = set()
    for rec, kf in known:
        if rec["name"] not in printed:
            print(f"KNOWN-FINDING: property={pid} obligation={rec['name']} {kf}")
            printed.add(rec["name"])
    vio_lines = []
    for rec in violations:
        path, has_input = write_replay(pid, rec, info)
        line = f"VIOLATION property={pid} replay={path}" + ("" if has_input else " no-failing-input-found")
        vio_lines.append(line)
        print(f"failed obligation: {rec['name']} [{rec['instance']}] via {rec['backend']}")
        for d in rec.get("detail", [])[:8]:
            print(f"    {d}")
        print(line)
    for rec in undecided:
        print(f"UNDECIDED obligation: {rec['name']} [{rec['instance']}]: {'; '.join(rec.get('detail', []))[:400]}")
    not_explored = [r for r in records if r["status"] == "not_explored"]
    for rec in not_explored:
        print(f"NOT-EXPLORED obligation: {rec['name']} [{rec['instance']}]: no verdict within the time / memory limit of this run (not counted as discharged)")
    n_kani = sum(1 for r in records if r["backend"].startswith("kani"))
    if not_explored and len(not_explored) > max(3, n_kani // 4):
        undecided_reason = (undecided_reason + "; " if undecided_reason else "") + f"{len(not_explored)} of {n_kani} Kani harnesses produced no verdict: the back end itself seems unable to run here"
    if undecided_reason:
        print("UNDECIDED:", undecided_reason[:2000])
    if not records and not undecided_reason:
        print(f"UNDECIDED: no obligation registered for {pid}")
        undecided_reason = "no obligations"
    wall = time.time() - t0
    write_evidence(pid, tier, seed, records, info, wall, len(violations), known, undecided_reason)
    n_dis = sum(1 for r in records if r["status"] == "discharged")
    print(f"{pid} [{tier}]: {len(records)} obligations, {n_dis} discharged, {len(known)} known findings, {len(violations)} violated, "
          f"{len(undecided)} undecided" + (f", {len(not_explored)} not explored" if not_explored else "") + f", {wall:.0f}s")
    if violations:
        return EXIT_VIOLATION
    if undecided or undecided_reason:
        return EXIT_UNDECIDED
    return EXIT_OK


def write_evidence(pid, tier, seed, records, info, wall, n_viol, known, undecided_reason):
    m = meta.PROPS.get(pid, {})
    by_backend, times, samples, functions, inst = {}, {}, [], set(), set()
    for r in records:
        by_backend[r["backend"]] = by_backend.get(r["backend"], 0) + 1
        times[f"{r['name']}[{r['instance']}]"] = round(r.get("time_s", 0.0), 2)
        inst.add(f"{r['backend']}:{r['instance']}")
        for f in r.get("functions", []):
            functions.add(f)
    seen = set()
    for r in records:
        if r["name"] in seen:
            continue
        seen.add(r["name"])
        samples.append({"obligation": r["name"], "backend": r["backend"], "status": r["status"], "kind": r.get("kind", "property"),
                        "clauses": (r.get("asserts") or r.get("clauses") or [])[:12]})
    proved_backends = ("kani_harness_complete", "kani_contract", "verus")
    # known findings are reported separately (KNOWN-FINDING lines, coverage.known_findings_matched) and are not counted as obligations
    # of the proof claim; bounded stand-ins are never counted as proved
    obligations = sum(1 for r in records if r["status"] not in ("known_finding", "not_explored") and r["backend"] in proved_backends)
    discharged = sum(1 for r in records if r["status"] == "discharged" and r["backend"] in proved_backends)
    bounded = sum(1 for r in records if r["backend"] == "kani_bounded")
    ev = {
        "property_id": pid, "tier": tier, "seed": seed, "level": "proof",
        "coverage": {
            "obligations": obligations, "discharged": discharged,
            "checker_cmd": " ; ".join(info["checker_cmds"]) or "none",
            "trusted_base": m.get("trusted_base", []) + (meta.COMMON_TRUSTED if any(r["backend"].startswith("kani") for r in records) else [])
                            + (meta.VERUS_TRUSTED if any(r["backend"] == "verus" for r in records) else []) + sorted(set(info.get("unit_trusted", []))),
            "kinds": {k: sum(1 for r in records if r.get("kind", "property") == k) for k in sorted({r.get("kind", "property") for r in records})},
            "memoised_kani_verdicts": sum(1 for r in records if r.get("_r", {}).get("cached")),
            "bounded_standins_not_counted_as_proved": bounded,
            "by_backend": by_backend,
            "solver_checks_total": sum(r.get("solver_checks", 0) for r in records),
            "instantiations": sorted(inst),
            "functions_under_contract": sorted(functions | set(m.get("functions", []))),
            "solver_time_s": times,
            "samples": samples[:40],
            "known_findings_matched": [{"obligation": r["name"], "text": t} for r, t in known],
            "undecided": [{"obligation": r["name"], "instance": r["instance"], "detail": r.get("detail", [])} for r in records if r["status"] == "undecided"]
                         + ([{"reason": undecided_reason}] if undecided_reason else []),
            "not_explored": [{"obligation": r["name"], "instance": r["instance"], "reason": "no verdict within the time / memory limit of this run"} for r in records if r["status"] == "not_explored"],
            "not_decided_residue": m.get("residue", ""),
            "rewrite_rules_applied": info.get("rewrite_rules", {}),
            "extraction_diffs": info.get("diffs", []),
            "repo_head": git_head(REPO), "repo_uncommitted": repo_dirty_summary(), "verif_head": git_head(VERIF),
            "explanation": m.get("explanation", ""),
        },
        "assumptions": m.get("assumptions", []) + meta.COMMON_ASSUMPTIONS + sorted(set(info.get("unit_assumptions", []))) + info.get("assumption_scan", []),
        "wall_s": round(wall, 1),
        "violations": n_viol,
    }
    write(os.path.join(EVIDENCE_DIR, f"{pid}.json"), json.dumps(ev, indent=1, default=str) + "\n")


def replay(path):
    text = read(path)
    pid = re.search(r"^property: (\S+)", text, re.M).group(1)
    ob = re.search(r"^obligation: (\S+)", text, re.M).group(1)
    inst = re.search(r"^instance: (\S+)", text, re.M).group(1)
    mh = re.search(r"^harness: (\S+)", text, re.M)
    if mh:
        hs = [h for h in kani_run.load_registry() if h.full == mh.group(1)]
        if not hs:
            print("UNDECIDED: harness no longer registered"); return EXIT_UNDECIDED
        res, raw, cmd, wall = kani_run.run_batch(hs, jobs=1)
        r = res[hs[0].full]
        print(raw[-3000:])
        if r["status"] == "success":
            print(f"replay: obligation {ob} [{inst}] now holds"); return EXIT_OK
        kind, checks = kani_run.classify_failure(hs[0], r)
        if kind == "violation":
            print(f"VIOLATION property={pid} replay={path}"); return EXIT_VIOLATION
        return EXIT_UNDECIDED
    if verus_run:
        return verus_run.replay(pid, ob, text, path)
    return EXIT_UNDECIDED
