// Shims shared by every unit (DESIGN §2.2). Everything marked external_body / assume_specification here is an ASSUMPTION and is
// listed in every evidence file by the mechanical scan.

/// R9: panic!/unreachable!/unimplemented!/todo!/expect become calls of this function: reaching one is a failed obligation
#[verifier::external_body]
pub fn vpanic() -> !
    requires false,
{ panic!() }

/// R4: memory orderings are accepted and ignored (the model is sequentially consistent)
#[derive(Clone, Copy)]
pub enum Ordering { Relaxed, Acquire, Release, AcqRel, SeqCst }
pub const Relaxed: Ordering = Ordering::Relaxed;
pub const Acquire: Ordering = Ordering::Acquire;
pub const Release: Ordering = Ordering::Release;
pub const AcqRel: Ordering = Ordering::AcqRel;
pub const SeqCst: Ordering = Ordering::SeqCst;

/// S-model atomic cell: exact sequential semantics (R4/R5)
pub struct AtomicU32 { pub v: u32 }
impl AtomicU32 {
    pub open spec fn view(&self) -> u32 { self.v }
    pub fn new(v: u32) -> (r: Self) ensures r@ == v { AtomicU32 { v } }
    pub fn load(&self, o: Ordering) -> (r: u32) ensures r == self@ { self.v }
    pub fn store(&mut self, v: u32, o: Ordering) ensures final(self)@ == v { self.v = v; }
    pub fn fetch_add(&mut self, d: u32, o: Ordering) -> (r: u32) ensures r == old(self)@, final(self)@ == old(self)@.wrapping_add(d) { let r = self.v; self.v = self.v.wrapping_add(d); r }
    pub fn fetch_sub(&mut self, d: u32, o: Ordering) -> (r: u32) ensures r == old(self)@, final(self)@ == old(self)@.wrapping_sub(d) { let r = self.v; self.v = self.v.wrapping_sub(d); r }
    pub fn compare_exchange(&mut self, cur: u32, new: u32, o1: Ordering, o2: Ordering) -> (r: Result<u32, u32>)
        ensures old(self)@ == cur ==> r == Ok::<u32, u32>(cur) && final(self)@ == new,
                old(self)@ != cur ==> r == Err::<u32, u32>(old(self)@) && final(self)@ == old(self)@,
    { if self.v == cur { self.v = new; Ok(cur) } else { Err(self.v) } }
    pub fn compare_exchange_weak(&mut self, cur: u32, new: u32, o1: Ordering, o2: Ordering) -> (r: Result<u32, u32>)
        ensures old(self)@ == cur ==> r == Ok::<u32, u32>(cur) && final(self)@ == new,
                old(self)@ != cur ==> r == Err::<u32, u32>(old(self)@) && final(self)@ == old(self)@,
    { if self.v == cur { self.v = new; Ok(cur) } else { Err(self.v) } }
}
pub struct AtomicU64 { pub v: u64 }
impl AtomicU64 {
    pub open spec fn view(&self) -> u64 { self.v }
    pub fn new(v: u64) -> (r: Self) ensures r@ == v { AtomicU64 { v } }
    pub fn load(&self, o: Ordering) -> (r: u64) ensures r == self@ { self.v }
    pub fn store(&mut self, v: u64, o: Ordering) ensures final(self)@ == v { self.v = v; }
    pub fn fetch_add(&mut self, d: u64, o: Ordering) -> (r: u64) ensures r == old(self)@, final(self)@ == old(self)@.wrapping_add(d) { let r = self.v; self.v = self.v.wrapping_add(d); r }
    pub fn compare_exchange(&mut self, cur: u64, new: u64, o1: Ordering, o2: Ordering) -> (r: Result<u64, u64>)
        ensures old(self)@ == cur ==> r == Ok::<u64, u64>(cur) && final(self)@ == new,
                old(self)@ != cur ==> r == Err::<u64, u64>(old(self)@) && final(self)@ == old(self)@,
    { if self.v == cur { self.v = new; Ok(cur) } else { Err(self.v) } }
    pub fn compare_exchange_weak(&mut self, cur: u64, new: u64, o1: Ordering, o2: Ordering) -> (r: Result<u64, u64>)
        ensures old(self)@ == cur ==> r == Ok::<u64, u64>(cur) && final(self)@ == new,
                old(self)@ != cur ==> r == Err::<u64, u64>(old(self)@) && final(self)@ == old(self)@,
    { if self.v == cur { self.v = new; Ok(cur) } else { Err(self.v) } }
}
pub struct AtomicUsize { pub v: usize }
impl AtomicUsize {
    pub open spec fn view(&self) -> usize { self.v }
    pub fn new(v: usize) -> (r: Self) ensures r@ == v { AtomicUsize { v } }
    pub fn load(&self, o: Ordering) -> (r: usize) ensures r == self@ { self.v }
    pub fn store(&mut self, v: usize, o: Ordering) ensures final(self)@ == v { self.v = v; }
    pub fn fetch_add(&mut self, d: usize, o: Ordering) -> (r: usize) ensures r == old(self)@, final(self)@ == old(self)@.wrapping_add(d) { let r = self.v; self.v = self.v.wrapping_add(d); r }
    pub fn compare_exchange(&mut self, cur: usize, new: usize, o1: Ordering, o2: Ordering) -> (r: Result<usize, usize>)
        ensures old(self)@ == cur ==> r == Ok::<usize, usize>(cur) && final(self)@ == new,
                old(self)@ != cur ==> r == Err::<usize, usize>(old(self)@) && final(self)@ == old(self)@,
    { if self.v == cur { self.v = new; Ok(cur) } else { Err(self.v) } }
    pub fn compare_exchange_weak(&mut self, cur: usize, new: usize, o1: Ordering, o2: Ordering) -> (r: Result<usize, usize>)
        ensures old(self)@ == cur ==> r == Ok::<usize, usize>(cur) && final(self)@ == new,
                old(self)@ != cur ==> r == Err::<usize, usize>(old(self)@) && final(self)@ == old(self)@,
    { if self.v == cur { self.v = new; Ok(cur) } else { Err(self.v) } }
}
pub struct AtomicBool { pub v: bool }
impl AtomicBool {
    pub open spec fn view(&self) -> bool { self.v }
    pub fn load(&self, o: Ordering) -> (r: bool) ensures r == self@ { self.v }
    pub fn store(&mut self, v: bool, o: Ordering) ensures final(self)@ == v { self.v = v; }
    pub fn swap(&mut self, v: bool, o: Ordering) -> (r: bool) ensures r == old(self)@, final(self)@ == v { let r = self.v; self.v = v; r }
}

/// time (R11): opaque; only `is_zero` is observable, comparisons are nondeterministic
#[derive(Clone, Copy)]
pub struct Duration { pub nanos: u64 }
impl Duration {
    pub open spec fn is_zero_spec(&self) -> bool { self.nanos == 0 }
    #[verifier::when_used_as_spec(is_zero_spec)]
    pub fn is_zero(&self) -> (r: bool) ensures r == self.is_zero_spec() { self.nanos == 0 }
    /// unit conversions truncate, exactly as std's do
    pub fn as_nanos(&self) -> (r: u128) ensures r == self.nanos { self.nanos as u128 }
    pub fn as_micros(&self) -> (r: u128) ensures r == self.nanos / 1_000 { (self.nanos / 1_000) as u128 }
    pub fn as_millis(&self) -> (r: u128) ensures r == self.nanos / 1_000_000 { (self.nanos / 1_000_000) as u128 }
    pub fn as_secs(&self) -> (r: u64) ensures r == self.nanos / 1_000_000_000 { self.nanos / 1_000_000_000 }
}
#[derive(Clone, Copy)]
pub struct Instant { pub t: u64 }
impl Instant {
    #[verifier::external_body]
    pub fn now() -> Instant { unimplemented!() }
    /// `self.elapsed() > d`: wall-clock, nondeterministic (assumed: says nothing)
    #[verifier::external_body]
    pub fn elapsed_exceeds(&self, d: &Duration) -> bool { unimplemented!() }
}
