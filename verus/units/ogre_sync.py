"""Unit ogre_sync_a (V, A-model): `ogre_sync::lock` / `unlock` -- the spin flag every "full sync" container, the streams manager and (through
them) the full-sync channels rely on. The "modulo LK" bridge of DESIGN §3.4 ASSUMES that the flag excludes (LK3). This unit discharges the
thread-local half of that assumption under an ADVERSARIAL environment (every compare-exchange answers arbitrarily, as if other threads held or
released the flag at will): `lock` returns ONLY through one successful compare-exchange false -> true of its own -- exactly one acquisition per
call, however long it spins --, it never writes the flag in any other way (a blind `store(true)`, a `swap`, a compare-exchange from `true` are
failed obligations of the protocol-typed flag), and `unlock` is one `store(false)` by the holder. What stays assumed: the hardware's
compare-exchange is atomic, and memory is sequentially consistent (the Acquire / Release orderings are not modelled)."""
from engine.extract import FnSpec, Rule
from engine.verus_run import Unit

F = "src/ogre_std/ogre_sync.rs"
SPEC = r"""
/// PROTOCOL-TYPED spin flag (A-model): the only transitions a thread may attempt are `false -> true` by compare-exchange (acquire) and
/// `store(false)` while holding it (release); the answers of compare-exchange are ARBITRARY (other threads acquire and release at will)
pub struct SpinFlag { pub acquisitions: Ghost<nat>, pub held_by_me: Ghost<bool> }
impl SpinFlag {
    #[verifier::external_body]
    pub fn compare_exchange_weak(&mut self, cur: bool, new: bool, o1: Ordering, o2: Ordering) -> (r: Result<bool, bool>)
        requires !cur, new, !old(self).held_by_me@,
        ensures r is Ok ==> final(self).held_by_me@ && final(self).acquisitions@ == old(self).acquisitions@ + 1,
                r is Err ==> final(self).held_by_me == old(self).held_by_me && final(self).acquisitions == old(self).acquisitions,
    { unimplemented!() }
    #[verifier::external_body]
    pub fn compare_exchange(&mut self, cur: bool, new: bool, o1: Ordering, o2: Ordering) -> (r: Result<bool, bool>)
        requires !cur, new, !old(self).held_by_me@,
        ensures r is Ok ==> final(self).held_by_me@ && final(self).acquisitions@ == old(self).acquisitions@ + 1,
                r is Err ==> final(self).held_by_me == old(self).held_by_me && final(self).acquisitions == old(self).acquisitions,
    { unimplemented!() }
    /// release: only `false` may be stored, and only by the holder
    #[verifier::external_body]
    pub fn store(&mut self, v: bool, o: Ordering)
        requires !v, old(self).held_by_me@,
        ensures !final(self).held_by_me@, final(self).acquisitions == old(self).acquisitions,
    { }
    /// test-and-set acquisition (`swap(true)` answering "was it held?"): the other correct way of taking a spin flag
    #[verifier::external_body]
    pub fn swap(&mut self, v: bool, o: Ordering) -> (was_held: bool)
        requires v, !old(self).held_by_me@,
        ensures !was_held ==> final(self).held_by_me@ && final(self).acquisitions@ == old(self).acquisitions@ + 1,
                was_held ==> final(self).held_by_me == old(self).held_by_me && final(self).acquisitions == old(self).acquisitions,
    { unimplemented!() }
    #[verifier::external_body] pub fn fetch_or(&mut self, v: bool, o: Ordering) -> bool requires false { unimplemented!() }
    #[verifier::external_body] pub fn fetch_and(&mut self, v: bool, o: Ordering) -> bool requires false { unimplemented!() }
    /// a plain read decides nothing (racy): arbitrary answer
    #[verifier::external_body] pub fn load(&self, o: Ordering) -> bool { unimplemented!() }
}
pub fn spin_hint() { }
"""
RULES = [Rule("R11-spin", r"std::hint::spin_loop\(\)", "spin_hint()", min=0, note="spin hint: no effect on program state"),
         Rule("R5-mut", r"\bflag\.", "flag.", min=1)]
FNS = [
    FnSpec(F, "lock", props=["C18", "C01", "C02", "C16", "C20"], kind="mechanism", attrs="#[verifier::exec_allows_no_decreases_clause]",
           sig="pub fn lock(flag: &mut SpinFlag)", sig_anchor=r"pub fn lock\(flag: &AtomicBool\)",
           rules=RULES, requires="!old(flag).held_by_me@",
           ensures="final(flag).held_by_me@, final(flag).acquisitions@ == old(flag).acquisitions@ + 1",
           loops={0: "invariant_except_break !flag.held_by_me@, flag.acquisitions == old(flag).acquisitions,\n"
                     "ensures flag.held_by_me@, flag.acquisitions@ == old(flag).acquisitions@ + 1,"},
           loops_optional=True),
    FnSpec(F, "unlock", props=["C18", "C01", "C02", "C16", "C20"], kind="mechanism",
           sig="pub fn unlock(flag: &mut SpinFlag)", sig_anchor=r"pub fn unlock\(flag: &AtomicBool\)",
           rules=RULES, requires="old(flag).held_by_me@",
           ensures="!final(flag).held_by_me@, final(flag).acquisitions == old(flag).acquisitions"),
]
UNIT = Unit("ogre_sync_a", FNS, spec=SPEC, model="A", prelude=("prelude.rs",),
            trusted=["AtomicBool::compare_exchange(_weak): the hardware compare-exchange is atomic (its ANSWER is adversarial here)"],
            assumptions=["mutual exclusion follows from 'acquire only by one's own successful compare-exchange false -> true, release only by the holder' + atomicity of compare-exchange + sequential consistency; the last two are ASSUMED",
                         "termination of the spin loop is not proved (exec_allows_no_decreases_clause)"])
