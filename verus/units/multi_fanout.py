"""Units fanout_ogre_arc_{atomic,full_sync} (V, S-model): `send_derived` of the two pooled Multi channels for a SYMBOLIC MAX_STREAMS and
BUFFER_SIZE (C03 C04): one accepted event is handed -- as a raw copy of the SAME OgreArc, i.e. the same allocation -- to the queue of
every listener on the live list and to no other queue, the reference count is raised by exactly the number of copies made, every
listener whose queue was (nearly) empty is woken, every unchecked index is in range, and the BUG! panic is unreachable given the pool
coupling (no listener queue can hold more handles than the pool has slots)."""
from engine.extract import FnSpec, Rule
from engine.verus_run import Unit

SPEC = r"""
use core::num::NonZeroU32;
/// an OgreArc handle: which allocation it points to (ghost) -- the real type is decided under C14
pub struct OgreArc { pub alloc: Ghost<int>, pub refs: Ghost<nat>,
    /// ghost: references added by increment_references during this call / raw copies handed out during this call
    pub granted: Ghost<nat>, pub copies: Ghost<nat> }
impl OgreArc {
    /// `unsafe { item.increment_references(n) }`
    #[verifier::external_body]
    pub fn increment_references(&mut self, count: u32)
        ensures final(self).refs@ == old(self).refs@ + count, final(self).alloc == old(self).alloc, final(self).granted@ == old(self).granted@ + count, final(self).copies == old(self).copies,
    { }
    /// `unsafe { item.raw_copy() }`: another handle to the same allocation, the count is NOT touched.
    /// MECHANISM obligation (C05 C14): the copy must be covered by a reference that was counted BEFORE the copy exists -- a copy handed to a
    /// listener that is not yet counted lets that listener's drop free the payload while the producer and the other listeners still hold it
    #[verifier::external_body]
    pub fn raw_copy(&mut self) -> (r: OgreArc)
        requires old(self).copies@ < old(self).granted@,
        ensures r.alloc == old(self).alloc, final(self).alloc == old(self).alloc, final(self).refs == old(self).refs, final(self).granted == old(self).granted, final(self).copies@ == old(self).copies@ + 1,
    { unimplemented!() }
}
/// one listener's ring (AtomicMove / FullSyncMove of OgreArc; decided under C01/C02): abstractly the sequence of allocations queued
pub struct Queue { pub seq: Ghost<Seq<int>> }
pub struct StreamsManagerBase<const MAX_STREAMS: usize> {
    pub used_streams: [u32; MAX_STREAMS],
    pub used_streams_count: AtomicU32,
    /// ghost: wake_stream calls per stream id
    pub wakes: Ghost<Seq<nat>>,
}
impl<const MAX_STREAMS: usize> StreamsManagerBase<MAX_STREAMS> {
    pub fn running_streams_count(&self) -> (r: u32) ensures r == self.used_streams_count@ { self.used_streams_count.load(Relaxed) }
    /// `keep_stream_running(id)`: a racy snapshot of the listener's keep-running flag (ARBITRARY answer; the index bound is the obligation)
    #[verifier::external_body]
    pub fn keep_stream_running(&self, stream_id: u32) -> bool requires (stream_id as int) < MAX_STREAMS { unimplemented!() }
    /// requires the id in range (get_unchecked inside)
    #[verifier::external_body]
    pub fn wake_stream(&mut self, stream_id: u32)
        requires (stream_id as int) < MAX_STREAMS, old(self).wakes@.len() == MAX_STREAMS,
        ensures final(self).wakes@ == old(self).wakes@.update(stream_id as int, old(self).wakes@[stream_id as int] + 1),
                final(self).used_streams == old(self).used_streams, final(self).used_streams_count == old(self).used_streams_count,
    { }
    /// Inv_SM (DESIGN §3.3): the first `count` entries of the live list are distinct valid ids, count <= MAX_STREAMS
    pub open spec fn inv_sm(&self) -> bool {
        &&& self.used_streams_count@ as int <= MAX_STREAMS <= 0x7fff_ffff
        &&& self.wakes@.len() == MAX_STREAMS
        &&& forall|i: int| 0 <= i < self.used_streams_count@ ==> (#[trigger] self.used_streams[i] as int) < MAX_STREAMS
        &&& forall|i: int, j: int| 0 <= i < j < self.used_streams_count@ ==> self.used_streams[i] != self.used_streams[j]
    }
    pub open spec fn is_live(&self, id: int) -> bool { exists|i: int| 0 <= i < self.used_streams_count@ && (#[trigger] self.used_streams[i]) as int == id }
}
pub struct Channel<const BUFFER_SIZE: usize, const MAX_STREAMS: usize> { pub streams_manager: StreamsManagerBase<MAX_STREAMS>, pub dispatcher_managers: [Queue; MAX_STREAMS],
    /// ghost: per listener, the wake-ups issued WHILE its queue had something to hand out (a wake-up issued before the handle is in the queue finds nothing: C04 mechanism)
    pub eff: Ghost<Seq<nat>> }
impl<const BUFFER_SIZE: usize, const MAX_STREAMS: usize> Channel<BUFFER_SIZE, MAX_STREAMS> {
    /// `self.streams_manager.wake_stream(id)` seen from the channel (index bound obligation inherited)
    #[verifier::external_body]
    pub fn wake_stream(&mut self, stream_id: u32)
        requires (stream_id as int) < MAX_STREAMS, old(self).streams_manager.wakes@.len() == MAX_STREAMS, old(self).eff@.len() == MAX_STREAMS,
        ensures final(self).streams_manager.wakes@ == old(self).streams_manager.wakes@.update(stream_id as int, old(self).streams_manager.wakes@[stream_id as int] + 1),
                final(self).streams_manager.used_streams == old(self).streams_manager.used_streams, final(self).streams_manager.used_streams_count == old(self).streams_manager.used_streams_count,
                final(self).dispatcher_managers == old(self).dispatcher_managers,
                final(self).eff@ == (if old(self).dispatcher_managers[stream_id as int].seq@.len() > 0 { old(self).eff@.update(stream_id as int, old(self).eff@[stream_id as int] + 1) } else { old(self).eff@ }),
    { }
    /// `self.dispatcher_managers.get_unchecked(id).publish_movable(handle).0`: ASSUMED ring contract (C01/C02): accepted iff not full
    #[verifier::external_body]
    pub fn publish_to(&mut self, stream_id: u32, handle: OgreArc) -> (r: Option<NonZeroU32>)
        requires (stream_id as int) < MAX_STREAMS,
        ensures final(self).streams_manager == old(self).streams_manager, final(self).eff == old(self).eff,
                old(self).dispatcher_managers[stream_id as int].seq@.len() < BUFFER_SIZE ==> (r matches Some(n) && n.get() as int == old(self).dispatcher_managers[stream_id as int].seq@.len() + 1
                    && final(self).dispatcher_managers[stream_id as int].seq@ == old(self).dispatcher_managers[stream_id as int].seq@.push(handle.alloc@)),
                old(self).dispatcher_managers[stream_id as int].seq@.len() >= BUFFER_SIZE ==> r is None && final(self).dispatcher_managers[stream_id as int] == old(self).dispatcher_managers[stream_id as int],
                forall|j: int| 0 <= j < MAX_STREAMS && j != stream_id ==> final(self).dispatcher_managers[j] == old(self).dispatcher_managers[j],
    { unimplemented!() }
}
"""


def unit(kind, file, threshold):
    impl = r"ChannelProducer\s*<\s*'a\s*,\s*ItemType\s*,\s*OgreArc\s*<\s*ItemType\s*,\s*OgreAllocatorType\s*>\s*>\s*for\s+\w+\s*<[^{]*(?=\{)"
    f = FnSpec(file, "send_derived", impl=impl, props=["C03", "C04", "C05", "C14"],
               sig="pub fn send_derived(&mut self, ogre_arc_item: &mut OgreArc) -> (r: bool)",
               sig_anchor=r"fn send_derived\(&self, ogre_arc_item: &OgreArc<ItemType, OgreAllocatorType>\) -> bool",
               rules=[Rule("R6-wake", r"\bself\.streams_manager\.wake_stream\(", "self.wake_stream(", min=1, note="wake_stream -> channel-level shim (counts the wake-ups issued while the listener's queue has something to hand out)"),
                      Rule("R6-unsafe-call", r"unsafe \{ ogre_arc_item\.increment_references\(([^()]*)\) \};", r"ogre_arc_item.increment_references(\1);", count=1),
                      Rule("R6-alias", r"let used_streams = self\.streams_manager\.used_streams\(\);", "", count=1, note="&[u32; M] alias of the live list inlined"),
                      Rule("R6-get_unchecked", r"\*unsafe \{ used_streams\.get_unchecked\(([^()]*)\) \}", r"self.streams_manager.used_streams[\1]", count=1, note="unchecked read -> checked index (bound obligation)"),
                      Rule("R6-queue", r"let dispatcher_manager = unsafe \{ self\.dispatcher_managers\.get_unchecked\(([^()]*)\) \};\s*match dispatcher_manager\.publish_movable\(unsafe \{ ogre_arc_item\.raw_copy\(\) \}\)\.0 \{",
                           r"match self.publish_to(\1 as u32, ogre_arc_item.raw_copy()) {", count=1, note="unchecked queue lookup + publish_movable(..).0 -> publish_to (index bound obligation)"),
                      Rule("R12-for-label", r"\bfor\s+(\w+)\s+in\s+(?!it_)", r"for \1 in it_\1: ", count=1)],
               requires="old(self).streams_manager.inv_sm(), old(self).eff@.len() == MAX_STREAMS, old(ogre_arc_item).granted@ == 0, old(ogre_arc_item).copies@ == 0,"
                        "forall|j: int| 0 <= j < MAX_STREAMS ==> old(self).dispatcher_managers[j].seq@.len() < BUFFER_SIZE",
               ensures="r, final(ogre_arc_item).alloc == old(ogre_arc_item).alloc,"
                       "final(ogre_arc_item).refs@ == old(ogre_arc_item).refs@ + old(self).streams_manager.used_streams_count@,"
                       "final(self).streams_manager.used_streams == old(self).streams_manager.used_streams, final(self).streams_manager.used_streams_count == old(self).streams_manager.used_streams_count,"
                       "forall|i: int| 0 <= i < old(self).streams_manager.used_streams_count@ ==> "
                       "   final(self).dispatcher_managers[old(self).streams_manager.used_streams[i] as int].seq@ == old(self).dispatcher_managers[old(self).streams_manager.used_streams[i] as int].seq@.push(old(ogre_arc_item).alloc@),"
                       "forall|id: int| 0 <= id < MAX_STREAMS && (forall|k: int| 0 <= k < old(self).streams_manager.used_streams_count@ ==> (#[trigger] old(self).streams_manager.used_streams[k]) as int != id) ==> final(self).dispatcher_managers[id] == old(self).dispatcher_managers[id],"
                       "forall|i: int| 0 <= i < old(self).streams_manager.used_streams_count@ && old(self).dispatcher_managers[old(self).streams_manager.used_streams[i] as int].seq@.len() == 0 ==> "
                       "   final(self).eff@[old(self).streams_manager.used_streams[i] as int] > old(self).eff@[old(self).streams_manager.used_streams[i] as int]",
               loops={0: "invariant old(self).streams_manager.inv_sm(), self.streams_manager.inv_sm(), self.eff@.len() == MAX_STREAMS, it_i.iter.end == running_streams_count, it_i.iter.start <= running_streams_count, running_streams_count == old(self).streams_manager.used_streams_count@,"
                         " self.streams_manager.used_streams == old(self).streams_manager.used_streams, self.streams_manager.used_streams_count == old(self).streams_manager.used_streams_count,"
                         " ogre_arc_item.alloc == old(ogre_arc_item).alloc, ogre_arc_item.refs@ == old(ogre_arc_item).refs@ + old(self).streams_manager.used_streams_count@,"
                         " ogre_arc_item.granted@ == old(self).streams_manager.used_streams_count@, ogre_arc_item.copies@ <= it_i.iter.start,"
                         " forall|j: int| 0 <= j < MAX_STREAMS ==> old(self).dispatcher_managers[j].seq@.len() < BUFFER_SIZE,"
                         " forall|k: int| 0 <= k < it_i.iter.start ==> self.dispatcher_managers[old(self).streams_manager.used_streams[k] as int].seq@ == old(self).dispatcher_managers[old(self).streams_manager.used_streams[k] as int].seq@.push(old(ogre_arc_item).alloc@),"
                         " forall|id: int| 0 <= id < MAX_STREAMS && (forall|k: int| 0 <= k < it_i.iter.start ==> (#[trigger] old(self).streams_manager.used_streams[k]) as int != id) ==> self.dispatcher_managers[id] == old(self).dispatcher_managers[id],"
                         " forall|id: int| 0 <= id < MAX_STREAMS ==> self.eff@[id] >= old(self).eff@[id],"
                         " forall|k: int| 0 <= k < it_i.iter.start && old(self).dispatcher_managers[old(self).streams_manager.used_streams[k] as int].seq@.len() == 0 ==> "
                         "    self.eff@[old(self).streams_manager.used_streams[k] as int] > old(self).eff@[old(self).streams_manager.used_streams[k] as int],\n"
                         "ensures it_i.iter.start == old(self).streams_manager.used_streams_count@,"})
    f.container = "impl<const BUFFER_SIZE: usize, const MAX_STREAMS: usize> Channel<BUFFER_SIZE, MAX_STREAMS>"
    return Unit(f"fanout_ogre_arc_{kind}", [f], spec=SPEC,
                trusted=["publish_to (ring publish_movable: C01/C02), wake_stream, OgreArc::{increment_references, raw_copy} (C14): shims with the contracts printed in the unit"],
                assumptions=["precondition 'every listener queue has room' is the pool coupling (a queue never holds more handles than the pool has slots, and this event owns one): decided by back end K (thorough tier), ASSUMED here",
                             "producers racing consumers / listener churn during the loop are NOT decided"])


UNITS = [unit("atomic", "src/multi/channels/ogre_arc/atomic.rs", 2), unit("full_sync", "src/multi/channels/ogre_arc/full_sync.rs", 1)]

# ------------------------------------------------------------------------------------------------------------------------------------
# fanout_arc_{atomic,full_sync}: `send_derived` of the Arc-based Multi channels for a SYMBOLIC MAX_STREAMS / BUFFER_SIZE (C03 C04):
# the live list is walked up to the first sentinel; every listed listener's queue gets one clone of the SAME Arc (Arc::clone: same
# allocation), no other queue is touched, a listener whose queue was empty is woken. These channels WAIT (sleep + retry) while a listener's
# queue is full -- documented upstream, excluded from C16 by the statement; here 'every listed queue has room' is the precondition, so the
# waiting arm is shown unreachable instead of being modelled.
# ------------------------------------------------------------------------------------------------------------------------------------
SPEC_ARC = r"""
use core::num::NonZeroU32;
/// an `Arc<ItemType>`: which allocation it points to (ghost)
pub struct ArcItem { pub alloc: Ghost<int> }
impl ArcItem {
    /// `Arc::clone`: another handle to the SAME allocation
    #[verifier::external_body]
    pub fn clone(&self) -> (r: ArcItem) ensures r.alloc == self.alloc { unimplemented!() }
}
pub struct Queue { pub seq: Ghost<Seq<int>> }
pub struct StreamsManagerBase<const MAX_STREAMS: usize> {
    pub used_streams: [u32; MAX_STREAMS],
    pub used_streams_count: AtomicU32,
    pub wakes: Ghost<Seq<nat>>,
}
impl<const MAX_STREAMS: usize> StreamsManagerBase<MAX_STREAMS> {
    /// `keep_stream_running(id)`: a racy snapshot of the listener's keep-running flag (ARBITRARY answer; the index bound is the obligation)
    #[verifier::external_body]
    pub fn keep_stream_running(&self, stream_id: u32) -> bool requires (stream_id as int) < MAX_STREAMS { unimplemented!() }
    #[verifier::external_body]
    pub fn wake_stream(&mut self, stream_id: u32)
        requires (stream_id as int) < MAX_STREAMS, old(self).wakes@.len() == MAX_STREAMS,
        ensures final(self).wakes@ == old(self).wakes@.update(stream_id as int, old(self).wakes@[stream_id as int] + 1),
                final(self).used_streams == old(self).used_streams, final(self).used_streams_count == old(self).used_streams_count,
    { }
    /// Inv_SM (unit streams_bookkeeping proves it for every history): the first `count` entries of the live list are distinct valid ids, the rest is the sentinel
    pub open spec fn inv_sm(&self) -> bool {
        &&& self.used_streams_count@ as int <= MAX_STREAMS <= 0x7fff_ffff
        &&& self.wakes@.len() == MAX_STREAMS
        &&& forall|i: int| 0 <= i < self.used_streams_count@ ==> (#[trigger] self.used_streams[i] as int) < MAX_STREAMS
        &&& forall|i: int, j: int| 0 <= i < j < self.used_streams_count@ ==> self.used_streams[i] != self.used_streams[j]
        &&& forall|i: int| self.used_streams_count@ <= i < MAX_STREAMS ==> self.used_streams[i] == u32::MAX
    }
}
/// `std::thread::sleep(..)` of the waiting arm (R11)
pub fn env_sleep() { }
pub struct Channel<const BUFFER_SIZE: usize, const MAX_STREAMS: usize> { pub streams_manager: StreamsManagerBase<MAX_STREAMS>, pub channels: [Queue; MAX_STREAMS],
    /// ghost: per listener, the wake-ups issued WHILE its queue had something to hand out (C04 mechanism)
    pub eff: Ghost<Seq<nat>> }
impl<const BUFFER_SIZE: usize, const MAX_STREAMS: usize> Channel<BUFFER_SIZE, MAX_STREAMS> {
    /// `self.streams_manager.wake_stream(id)` seen from the channel (index bound obligation inherited)
    #[verifier::external_body]
    pub fn wake_stream(&mut self, stream_id: u32)
        requires (stream_id as int) < MAX_STREAMS, old(self).streams_manager.wakes@.len() == MAX_STREAMS, old(self).eff@.len() == MAX_STREAMS,
        ensures final(self).streams_manager.wakes@ == old(self).streams_manager.wakes@.update(stream_id as int, old(self).streams_manager.wakes@[stream_id as int] + 1),
                final(self).streams_manager.used_streams == old(self).streams_manager.used_streams, final(self).streams_manager.used_streams_count == old(self).streams_manager.used_streams_count,
                final(self).channels == old(self).channels,
                final(self).eff@ == (if old(self).channels[stream_id as int].seq@.len() > 0 { old(self).eff@.update(stream_id as int, old(self).eff@[stream_id as int] + 1) } else { old(self).eff@ }),
    { }
    /// `self.channels.get_unchecked(id).publish_movable(handle)`: ASSUMED ring contract (C01/C02): accepted iff not full
    #[verifier::external_body]
    pub fn publish_to(&mut self, stream_id: u32, handle: ArcItem) -> (r: (Option<NonZeroU32>, Option<ArcItem>))
        requires (stream_id as int) < MAX_STREAMS,
        ensures final(self).streams_manager == old(self).streams_manager, final(self).eff == old(self).eff,
                old(self).channels[stream_id as int].seq@.len() < BUFFER_SIZE ==> (r.0 matches Some(n) && n.get() as int == old(self).channels[stream_id as int].seq@.len() + 1
                    && final(self).channels[stream_id as int].seq@ == old(self).channels[stream_id as int].seq@.push(handle.alloc@)),
                old(self).channels[stream_id as int].seq@.len() >= BUFFER_SIZE ==> r.0 is None && final(self).channels[stream_id as int] == old(self).channels[stream_id as int],
                forall|j: int| 0 <= j < MAX_STREAMS && j != stream_id ==> final(self).channels[j] == old(self).channels[j],
    { unimplemented!() }
}
"""


def unit_arc(kind, file, publish_rule):
    impl = r"ChannelProducer\s*<\s*'a\s*,\s*ItemType\s*,\s*Arc\s*<\s*ItemType\s*>\s*>\s*for\s+\w+\s*<[^{]*(?=\{)"
    US = "old(self).streams_manager.used_streams"
    CNT = "old(self).streams_manager.used_streams_count@"
    f = FnSpec(file, "send_derived", impl=impl, props=["C03", "C04"], attrs="#[verifier::exec_allows_no_decreases_clause]",
               sig="pub fn send_derived(&mut self, arc_item: &ArcItem) -> (r: bool)",
               sig_anchor=r"fn send_derived\(&self, arc_item: &Arc<ItemType>\) -> bool",
               rules=[Rule("R6-wake", r"\bself\.streams_manager\.wake_stream\(", "self.wake_stream(", min=1, note="wake_stream -> channel-level shim (counts the wake-ups issued while the listener's queue has something to hand out)"),
                      Rule("R16-iter-index", r"for stream_id in self\.streams_manager\.used_streams\(\)\s*\{",
                           "let mut vi: usize = 0; while vi < MAX_STREAMS { let stream_id_v = self.streams_manager.used_streams[vi]; let stream_id = &stream_id_v; vi += 1;", count=1,
                           note="`for x in &array` -> indexed while over a COPY of the entry (same order, same break)"),
                      Rule("R6-queue", r"let channel = unsafe \{ self\.channels\.get_unchecked\(\*stream_id as usize\) \};", "", count=1, note="unchecked queue lookup folded into publish_to (index bound obligation)"),
                      publish_rule,
                      Rule("R11-sleep", r"std::thread::sleep\(Duration::from_millis\(500\)\);", "env_sleep();", count=1)],
               requires="old(self).streams_manager.inv_sm(), old(self).eff@.len() == MAX_STREAMS, forall|j: int| 0 <= j < MAX_STREAMS ==> old(self).channels[j].seq@.len() < BUFFER_SIZE",
               ensures="r, final(self).streams_manager.used_streams == " + US + ", final(self).streams_manager.used_streams_count == old(self).streams_manager.used_streams_count,"
                       "forall|i: int| 0 <= i < " + CNT + " ==> final(self).channels[" + US + "[i] as int].seq@ == old(self).channels[" + US + "[i] as int].seq@.push(arc_item.alloc@),"
                       "forall|id: int| 0 <= id < MAX_STREAMS && (forall|k: int| 0 <= k < " + CNT + " ==> (#[trigger] " + US + "[k]) as int != id) ==> final(self).channels[id] == old(self).channels[id],"
                       "forall|i: int| 0 <= i < " + CNT + " && old(self).channels[" + US + "[i] as int].seq@.len() == 0 ==> "
                       "   final(self).eff@[" + US + "[i] as int] > old(self).eff@[" + US + "[i] as int]",
               loops={0: "invariant_except_break old(self).streams_manager.inv_sm(), self.streams_manager.inv_sm(), self.eff@.len() == MAX_STREAMS, vi <= MAX_STREAMS, vi <= " + CNT + ","
                         " self.streams_manager.used_streams == " + US + ", self.streams_manager.used_streams_count == old(self).streams_manager.used_streams_count,"
                         " forall|j: int| 0 <= j < MAX_STREAMS ==> old(self).channels[j].seq@.len() < BUFFER_SIZE,"
                         " forall|k: int| 0 <= k < vi ==> self.channels[" + US + "[k] as int].seq@ == old(self).channels[" + US + "[k] as int].seq@.push(arc_item.alloc@),"
                         " forall|id: int| 0 <= id < MAX_STREAMS && (forall|k: int| 0 <= k < vi ==> (#[trigger] " + US + "[k]) as int != id) ==> self.channels[id] == old(self).channels[id],"
                         " forall|id: int| 0 <= id < MAX_STREAMS ==> self.eff@[id] >= old(self).eff@[id],"
                         " forall|k: int| 0 <= k < vi && old(self).channels[" + US + "[k] as int].seq@.len() == 0 ==> "
                         "    self.eff@[" + US + "[k] as int] > old(self).eff@[" + US + "[k] as int],\n"
                         "ensures old(self).streams_manager.inv_sm(), self.streams_manager.used_streams == " + US + ", self.streams_manager.used_streams_count == old(self).streams_manager.used_streams_count,"
                         " forall|k: int| 0 <= k < " + CNT + " ==> self.channels[" + US + "[k] as int].seq@ == old(self).channels[" + US + "[k] as int].seq@.push(arc_item.alloc@),"
                         " forall|id: int| 0 <= id < MAX_STREAMS && (forall|k: int| 0 <= k < " + CNT + " ==> (#[trigger] " + US + "[k]) as int != id) ==> self.channels[id] == old(self).channels[id],"
                         " forall|k: int| 0 <= k < " + CNT + " && old(self).channels[" + US + "[k] as int].seq@.len() == 0 ==> "
                         "    self.eff@[" + US + "[k] as int] > old(self).eff@[" + US + "[k] as int],\n"
                         "decreases MAX_STREAMS - vi,",
                      1: "invariant_except_break old(self).streams_manager.inv_sm(), self.streams_manager.inv_sm(), self.eff@.len() == MAX_STREAMS, 1 <= vi <= " + CNT + ", stream_id_v == " + US + "[vi - 1], *stream_id == stream_id_v,"
                         " self.streams_manager.used_streams == " + US + ", self.streams_manager.used_streams_count == old(self).streams_manager.used_streams_count,"
                         " forall|j: int| 0 <= j < MAX_STREAMS ==> old(self).channels[j].seq@.len() < BUFFER_SIZE,"
                         " self.channels[stream_id_v as int] == old(self).channels[stream_id_v as int],"
                         " forall|k: int| 0 <= k < vi - 1 ==> self.channels[" + US + "[k] as int].seq@ == old(self).channels[" + US + "[k] as int].seq@.push(arc_item.alloc@),"
                         " forall|id: int| 0 <= id < MAX_STREAMS && (forall|k: int| 0 <= k < vi - 1 ==> (#[trigger] " + US + "[k]) as int != id) ==> self.channels[id] == old(self).channels[id],"
                         " forall|id: int| 0 <= id < MAX_STREAMS ==> self.eff@[id] >= old(self).eff@[id],"
                         " forall|k: int| 0 <= k < vi - 1 && old(self).channels[" + US + "[k] as int].seq@.len() == 0 ==> "
                         "    self.eff@[" + US + "[k] as int] > old(self).eff@[" + US + "[k] as int],\n"
                         "ensures self.streams_manager.inv_sm(), self.eff@.len() == MAX_STREAMS, self.streams_manager.used_streams == " + US + ", self.streams_manager.used_streams_count == old(self).streams_manager.used_streams_count,"
                         " forall|k: int| 0 <= k < vi ==> self.channels[" + US + "[k] as int].seq@ == old(self).channels[" + US + "[k] as int].seq@.push(arc_item.alloc@),"
                         " forall|id: int| 0 <= id < MAX_STREAMS && (forall|k: int| 0 <= k < vi ==> (#[trigger] " + US + "[k]) as int != id) ==> self.channels[id] == old(self).channels[id],"
                         " forall|id: int| 0 <= id < MAX_STREAMS ==> self.eff@[id] >= old(self).eff@[id],"
                         " forall|k: int| 0 <= k < vi && old(self).channels[" + US + "[k] as int].seq@.len() == 0 ==> "
                         "    self.eff@[" + US + "[k] as int] > old(self).eff@[" + US + "[k] as int],"})
    f.container = "impl<const BUFFER_SIZE: usize, const MAX_STREAMS: usize> Channel<BUFFER_SIZE, MAX_STREAMS>"
    return Unit(f"fanout_arc_{kind}", [f], spec=SPEC_ARC,
                trusted=["publish_to (ring publish_movable: C01/C02), wake_stream, Arc::clone: shims with the contracts printed in the unit"],
                assumptions=["precondition 'every listed listener queue has room': these channels sleep-and-retry on a full queue (documented upstream; excluded from C16 by the statement)",
                             "producers racing consumers / listener churn during the loop are NOT decided"])


UNITS += [unit_arc("atomic", "src/multi/channels/arc/atomic.rs", Rule("R6-publish", r"\bchannel\.publish_movable\(arc_item\.clone\(\)\)", "self.publish_to(*stream_id, arc_item.clone())", count=1)),
          unit_arc("full_sync", "src/multi/channels/arc/full_sync.rs", Rule("R6-publish", r"\bchannel\.publish_movable\(arc_item\.clone\(\)\)", "self.publish_to(*stream_id, arc_item.clone())", count=1))]

# fanout_arc_crossbeam: the crossbeam-backed Arc Multi channel (its per-listener queues are crossbeam_channel::bounded -- an ASSUMED bounded FIFO;
# Kani cannot compile crossbeam: internal compiler error). Same obligations as the other Arc channels.
SPEC_XB = SPEC_ARC.replace("pub struct Channel<const BUFFER_SIZE: usize, const MAX_STREAMS: usize> {", "pub struct SendError { pub v: u8 }\npub struct Channel<const BUFFER_SIZE: usize, const MAX_STREAMS: usize> {", 1) + r"""
impl<const BUFFER_SIZE: usize, const MAX_STREAMS: usize> Channel<BUFFER_SIZE, MAX_STREAMS> {
    /// `self.senders.get_unchecked(id).len()`: ASSUMED crossbeam contract
    #[verifier::external_body]
    pub fn sender_len(&self, stream_id: u32) -> (r: usize)
        requires (stream_id as int) < MAX_STREAMS,
        ensures r == self.channels[stream_id as int].seq@.len(),
    { unimplemented!() }
    /// `self.senders.get_unchecked(id).try_send(handle)`: ASSUMED crossbeam contract (bounded FIFO: accepted iff not full)
    #[verifier::external_body]
    pub fn try_send_to(&mut self, stream_id: u32, handle: ArcItem) -> (r: Result<(), SendError>)
        requires (stream_id as int) < MAX_STREAMS,
        ensures final(self).streams_manager == old(self).streams_manager, final(self).eff == old(self).eff,
                old(self).channels[stream_id as int].seq@.len() < BUFFER_SIZE ==> r is Ok && final(self).channels[stream_id as int].seq@ == old(self).channels[stream_id as int].seq@.push(handle.alloc@),
                old(self).channels[stream_id as int].seq@.len() >= BUFFER_SIZE ==> r is Err && final(self).channels[stream_id as int] == old(self).channels[stream_id as int],
                forall|j: int| 0 <= j < MAX_STREAMS && j != stream_id ==> final(self).channels[j] == old(self).channels[j],
    { unimplemented!() }
}
"""


def unit_xb():
    u = unit_arc("crossbeam", "src/multi/channels/arc/crossbeam.rs", Rule("R6-try-send", r"\bsender\.try_send\(arc_item\.clone\(\)\)", "self.try_send_to(*stream_id, arc_item.clone())", min=1))
    f = u.fns[0]
    f.rules = [r for r in f.rules if r.rid != "R6-queue"] + [
        Rule("R6-sender", r"let sender = unsafe \{ self\.senders\.get_unchecked\(\*stream_id as usize\) \};", "", count=1, note="unchecked sender lookup folded into the shims (index bound obligation)"),
        Rule("R6-sender-len", r"\bsender\.len\(\)", "self.sender_len(*stream_id)", count=1)]
    # loop 1 of the other Arc channels (the retry `loop`) is the `while .. .is_err()` of the waiting arm here
    inv1 = f.loops[1]
    f.loops = {0: f.loops[0],
               1: inv1.replace("invariant_except_break", "invariant").split("\nensures")[0]}
    u.spec = SPEC_XB
    u.trusted = ["sender_len / try_send_to: crossbeam_channel::bounded as a bounded FIFO (ASSUMED contract), wake_stream, Arc::clone: shims"]
    return u


UNITS += [unit_xb()]

# ------------------------------------------------------------------------------------------------------------------------------------
# mmap_log_send: `send` / `send_with` of the log (mmap) Multi channel for a SYMBOLIC MAX_STREAMS (C03 C04 C09): one append to the single log
# (the topic's publish contract: units mmap_meta / mmap_log_a), then EVERY live listener is woken -- each has its own cursor into the log, so
# each has something new to yield; a rejected send hands the payload / un-invoked setter back and changes nothing.
# ------------------------------------------------------------------------------------------------------------------------------------
SPEC_LOG = SPEC_ARC.split("/// `std::thread::sleep(..)`")[0] + r"""
pub enum RetryResult<I> { Ok { reported_input: (), output: () }, Transient { input: I, error: () }, Fatal { input: I, error: () } }
pub struct Setter { pub value: Ghost<u64>, pub id: Ghost<int> }
/// the log topic (MMapMeta): abstractly the published history
pub struct LogQueue { pub log: Ghost<Seq<u64>>,
    /// ghost: has THIS call's event been appended (made visible) yet
    pub appended: Ghost<bool> }
impl LogQueue {
    /// ASSUMED contract of MMapMeta::publish_movable / publish (decided in units mmap_meta / mmap_log_a, K): accepted => exactly one entry appended
    #[verifier::external_body]
    pub fn publish_movable(&mut self, item: u64) -> (r: (Option<NonZeroU32>, Option<u64>))
        ensures r.0 is Some ==> r.1 is None && final(self).log@ == old(self).log@.push(item) && final(self).appended@,
                r.0 is None ==> r.1 == Some(item) && final(self).log == old(self).log && final(self).appended == old(self).appended,
    { unimplemented!() }
    #[verifier::external_body]
    pub fn publish(&mut self, setter: Setter) -> (r: (Option<NonZeroU32>, Option<Setter>))
        ensures r.0 is Some ==> r.1 is None && final(self).log@ == old(self).log@.push(setter.value@) && final(self).appended@,
                r.0 is None ==> r.1 == Some(setter) && final(self).log == old(self).log && final(self).appended == old(self).appended,
    { unimplemented!() }
}
impl<const MAX_STREAMS: usize> StreamsManagerBase<MAX_STREAMS> {
    pub fn running_streams_count(&self) -> (r: u32) ensures r == self.used_streams_count@ { self.used_streams_count.load(Relaxed) }
}
pub struct MmapLog<const MAX_STREAMS: usize> { pub streams_manager: StreamsManagerBase<MAX_STREAMS>, pub log_queue: LogQueue }
impl<const MAX_STREAMS: usize> MmapLog<MAX_STREAMS> {
    /// `self.streams_manager.running_streams_count()` as the bound of the wake-up loop. MECHANISM obligation (C09 / C04): the set of listeners to wake is
    /// sampled AFTER the event is visible -- a listener that subscribes between an earlier sample and the publication owns the event (it is 'new' for it)
    /// but would not be woken for it
    pub fn live_count_for_wakeup(&self) -> (r: u32)
        requires self.log_queue.appended@,
        ensures r == self.streams_manager.used_streams_count@,
    { self.streams_manager.running_streams_count() }
}
"""


def unit_log():
    impl = r"ChannelProducer\s*<\s*'a\s*,\s*ItemType\s*,\s*&'static\s+ItemType\s*>\s*for\s+MmapLog\s*<[^{]*(?=\{)"
    US, CNT = "old(self).streams_manager.used_streams", "old(self).streams_manager.used_streams_count@"
    rules = [Rule("R3-retry-path", r"\bkeen_retry::RetryResult::", "RetryResult::", min=1),
             Rule("R6-live-count", r"self\.streams_manager\.running_streams_count\(\)", "self.live_count_for_wakeup()", count=1, note="the wake-up loop's bound -> shim that requires the event to be visible already"),
             Rule("R6-alias", r"let used_streams = self\.streams_manager\.used_streams\(\);", "", min=0, note="&[u32; M] alias of the live list inlined"),
             Rule("R6-get_unchecked", r"\*unsafe \{ used_streams\.get_unchecked\(([^()]*)\) \}", r"self.streams_manager.used_streams[\1]", min=0, note="unchecked read -> checked index (bound obligation)"),
             Rule("R12-for-label", r"\bfor\s+(\w+)\s+in\s+(?!it_)", r"for \1 in it_w: ", count=1, note="ghost iterator label (independent of the loop variable's name)"),
             Rule("R9-expect", r"\.expect\(\"[^\"]*\"\)", ".unwrap()", count=1, note="expect -> unwrap: reachability of the BUG! panic becomes an obligation")]
    inv = ("invariant old(self).streams_manager.inv_sm(), self.streams_manager.inv_sm(), it_w.iter.end == " + CNT + ", it_w.iter.start <= " + CNT + ","
           " self.streams_manager.used_streams == " + US + ", self.streams_manager.used_streams_count == old(self).streams_manager.used_streams_count, self.log_queue.log@ == old(self).log_queue.log@.push(PAYLOAD),"
           " forall|id: int| 0 <= id < MAX_STREAMS ==> self.streams_manager.wakes@[id] >= old(self).streams_manager.wakes@[id],"
           " forall|k: int| 0 <= k < it_w.iter.start ==> self.streams_manager.wakes@[" + US + "[k] as int] > old(self).streams_manager.wakes@[" + US + "[k] as int],\n"
           "ensures it_w.iter.start == " + CNT + ",")
    post = ("r is Ok ==> final(self).log_queue.log@ == old(self).log_queue.log@.push(PAYLOAD) && (forall|k: int| 0 <= k < " + CNT + " ==> final(self).streams_manager.wakes@[" + US + "[k] as int] > old(self).streams_manager.wakes@[" + US + "[k] as int]),"
            "(r matches RetryResult::Transient { input, .. } ==> input == INPUT && final(self).log_queue.log == old(self).log_queue.log && final(self).streams_manager == old(self).streams_manager),"
            "!(r is Fatal), final(self).streams_manager.used_streams == " + US)
    fns = [FnSpec("src/multi/channels/reference/mmap_log.rs", "send", impl=impl, props=["C03", "C04", "C09"],
                  sig="pub fn send(&mut self, item: u64) -> (r: RetryResult<u64>)", sig_anchor=r"fn send\(&self, item: ItemType\)",
                  rules=rules, requires="old(self).streams_manager.inv_sm(), !old(self).log_queue.appended@", ensures=post.replace("PAYLOAD", "item").replace("INPUT", "item"),
                  loops={0: inv.replace("PAYLOAD", "item")}),
           FnSpec("src/multi/channels/reference/mmap_log.rs", "send_with", impl=impl, props=["C03", "C04", "C09"],
                  sig="pub fn send_with(&mut self, setter: Setter) -> (r: RetryResult<Setter>)", sig_anchor=r"fn send_with<F: FnOnce\(&mut ItemType\)>\(&self, setter: F\)",
                  rules=rules, requires="old(self).streams_manager.inv_sm(), !old(self).log_queue.appended@", ensures=post.replace("PAYLOAD", "setter.value@").replace("INPUT", "setter"),
                  loops={0: inv.replace("PAYLOAD", "setter.value@")})]
    for f in fns:
        f.container = "impl<const MAX_STREAMS: usize> MmapLog<MAX_STREAMS>"
    return Unit("mmap_log_send", fns, spec=SPEC_LOG,
                trusted=["LogQueue::publish_movable / publish (the topic's append: units mmap_meta, mmap_log_a and back end K), wake_stream: shims"],
                assumptions=["send_with_async / reserve_slot of this channel start with leak_slot(), which is todo!() upstream: excluded"])


UNITS += [unit_log()]


# ------------------------------------------------------------------------------------------------------------------------------------
# fanout_arc_waits_{atomic,full_sync,crossbeam}: the SAME `send_derived` of the three Arc Multi channels once more, this time WITHOUT assuming that
# every listener queue has room: whether an enqueue attempt is accepted is decided by the queue's fill level, which the environment changes at
# every sleep of the waiting arm (consumers run meanwhile). C03: however long it has to wait, when `send_derived` returns EVERY live listener has
# been handed the event exactly once (ghost `pushed[id]` counts the accepted enqueues of this event per listener) and no other queue was touched --
# an attempt that was refused must be repeated until it is accepted, never given up. (That it returns at all: the consumers' progress -- not proved.)
# ------------------------------------------------------------------------------------------------------------------------------------
SPEC_WAITS = r"""
use core::num::NonZeroU32;
pub struct ArcItem { pub alloc: Ghost<int> }
impl ArcItem { #[verifier::external_body] pub fn clone(&self) -> (r: ArcItem) ensures r.alloc == self.alloc { unimplemented!() } }
pub struct SendError { pub v: u8 }
pub struct StreamsManagerBase<const MAX_STREAMS: usize> { pub used_streams: [u32; MAX_STREAMS], pub used_streams_count: AtomicU32 }
impl<const MAX_STREAMS: usize> StreamsManagerBase<MAX_STREAMS> {
    #[verifier::external_body]
    pub fn wake_stream(&self, stream_id: u32) requires (stream_id as int) < MAX_STREAMS { }
    pub open spec fn inv_sm(&self) -> bool {
        &&& self.used_streams_count@ as int <= MAX_STREAMS <= 0x7fff_ffff
        &&& forall|i: int| 0 <= i < self.used_streams_count@ ==> (#[trigger] self.used_streams[i] as int) < MAX_STREAMS
        &&& forall|i: int, j: int| 0 <= i < j < self.used_streams_count@ ==> self.used_streams[i] != self.used_streams[j]
        &&& forall|i: int| self.used_streams_count@ <= i < MAX_STREAMS ==> self.used_streams[i] == u32::MAX
    }
}
pub struct Channel<const BUFFER_SIZE: usize, const MAX_STREAMS: usize> {
    pub streams_manager: StreamsManagerBase<MAX_STREAMS>,
    /// ghost: current fill level of each listener's queue (changed by the environment at every sleep)
    pub lens: Ghost<Seq<nat>>,
    /// ghost: accepted enqueues of THIS event, per listener
    pub pushed: Ghost<Seq<nat>>,
}
impl<const BUFFER_SIZE: usize, const MAX_STREAMS: usize> Channel<BUFFER_SIZE, MAX_STREAMS> {
    pub open spec fn wf(&self) -> bool { self.streams_manager.inv_sm() && self.lens@.len() == MAX_STREAMS && self.pushed@.len() == MAX_STREAMS && BUFFER_SIZE >= 1 }
    pub open spec fn frame(&self, o: &Self) -> bool { self.streams_manager == o.streams_manager && self.lens@.len() == o.lens@.len() && self.pushed@.len() == o.pushed@.len() }
    /// ring `publish_movable(handle)` of listener `id`: accepted <=> its queue has room right now
    #[verifier::external_body]
    pub fn publish_to(&mut self, stream_id: u32, handle: ArcItem) -> (r: (Option<NonZeroU32>, Option<ArcItem>))
        requires (stream_id as int) < MAX_STREAMS, old(self).lens@.len() == MAX_STREAMS, old(self).pushed@.len() == MAX_STREAMS,
        ensures final(self).frame(old(self)),
                old(self).lens@[stream_id as int] < BUFFER_SIZE ==> r.0 is Some && final(self).pushed@ == old(self).pushed@.update(stream_id as int, old(self).pushed@[stream_id as int] + 1),
                old(self).lens@[stream_id as int] >= BUFFER_SIZE ==> r.0 is None && final(self).pushed == old(self).pushed && final(self).lens == old(self).lens,
    { unimplemented!() }
    /// crossbeam `sender.len()` / `sender.try_send(handle)` (ASSUMED bounded FIFO)
    #[verifier::external_body]
    pub fn sender_len(&self, stream_id: u32) -> (r: usize) requires (stream_id as int) < MAX_STREAMS, self.lens@.len() == MAX_STREAMS ensures r == self.lens@[stream_id as int] { unimplemented!() }
    #[verifier::external_body]
    pub fn try_send_to(&mut self, stream_id: u32, handle: ArcItem) -> (r: Result<(), SendError>)
        requires (stream_id as int) < MAX_STREAMS, old(self).lens@.len() == MAX_STREAMS, old(self).pushed@.len() == MAX_STREAMS,
        ensures final(self).frame(old(self)),
                old(self).lens@[stream_id as int] < BUFFER_SIZE ==> r is Ok && final(self).pushed@ == old(self).pushed@.update(stream_id as int, old(self).pushed@[stream_id as int] + 1),
                old(self).lens@[stream_id as int] >= BUFFER_SIZE ==> r is Err && final(self).pushed == old(self).pushed && final(self).lens == old(self).lens,
    { unimplemented!() }
    /// `std::thread::sleep(..)` of the waiting arm (R11): the consumers run -- every queue's fill level is whatever they made of it; nothing is enqueued
    #[verifier::external_body]
    pub fn env_sleep(&mut self) ensures final(self).frame(old(self)), final(self).pushed == old(self).pushed { }
}
"""


def unit_arc_waits(kind, file, attempt_rules):
    impl = r"ChannelProducer\s*<\s*'a\s*,\s*ItemType\s*,\s*Arc\s*<\s*ItemType\s*>\s*>\s*for\s+\w+\s*<[^{]*(?=\{)"
    US, CNT = "old(self).streams_manager.used_streams", "old(self).streams_manager.used_streams_count@"
    DONE = lambda upto: ("forall|k: int| 0 <= k < " + upto + " ==> self.pushed@[" + US + "[k] as int] == old(self).pushed@[" + US + "[k] as int] + 1,"
                         " forall|id: int| 0 <= id < MAX_STREAMS && (forall|k: int| 0 <= k < " + upto + " ==> (#[trigger] " + US + "[k]) as int != id) ==> self.pushed@[id] == old(self).pushed@[id],")
    COMMON_INV = "old(self).wf(), self.wf(), self.streams_manager == old(self).streams_manager,"
    f = FnSpec(file, "send_derived", impl=impl, out_name="send_derived_waits", props=["C03", "C10"], attrs="#[verifier::exec_allows_no_decreases_clause]",
               sig="pub fn send_derived_waits(&mut self, arc_item: &ArcItem) -> (r: bool)", sig_anchor=r"fn send_derived\(&self, arc_item: &Arc<ItemType>\) -> bool",
               rules=[Rule("R16-iter-index", r"for stream_id in self\.streams_manager\.used_streams\(\)\s*\{",
                           "let mut vi: usize = 0; while vi < MAX_STREAMS { let stream_id_v = self.streams_manager.used_streams[vi]; let stream_id = &stream_id_v; vi += 1;", count=1,
                           note="`for x in &array` -> indexed while over a COPY of the entry (same order, same break)"),
                      Rule("R6-wake", r"\bself\.streams_manager\.wake_stream\(", "self.streams_manager.wake_stream(", min=1),
                      Rule("R11-sleep", r"std::thread::sleep\(Duration::from_millis\(500\)\);", "self.env_sleep();", count=1)] + attempt_rules,
               requires="old(self).wf()",
               ensures="r, final(self).streams_manager == old(self).streams_manager,"
                       "forall|k: int| 0 <= k < " + CNT + " ==> final(self).pushed@[" + US + "[k] as int] == old(self).pushed@[" + US + "[k] as int] + 1,"
                       "forall|id: int| 0 <= id < MAX_STREAMS && (forall|k: int| 0 <= k < " + CNT + " ==> (#[trigger] " + US + "[k]) as int != id) ==> final(self).pushed@[id] == old(self).pushed@[id]",
               loops={0: "invariant_except_break " + COMMON_INV + " vi <= MAX_STREAMS, vi <= " + CNT + ", " + DONE("vi") + "\n"
                         "ensures old(self).wf(), self.streams_manager == old(self).streams_manager, " + DONE(CNT),
                      1: "invariant_except_break " + COMMON_INV + " 1 <= vi <= " + CNT + ", stream_id_v == " + US + "[vi - 1], *stream_id == stream_id_v, " + DONE("vi - 1") + "\n"
                         "ensures self.wf(), self.streams_manager == old(self).streams_manager, " + DONE("vi")},
               loops_optional=True)
    f.container = "impl<const BUFFER_SIZE: usize, const MAX_STREAMS: usize> Channel<BUFFER_SIZE, MAX_STREAMS>"
    return Unit(f"fanout_arc_waits_{kind}", [f], spec=SPEC_WAITS,
                trusted=["publish_to / try_send_to / sender_len: the listener queue's contract (accepted <=> room right now), env_sleep: the environment", "wake_stream, Arc::clone: shims"],
                assumptions=["termination of the waiting arm (consumer progress) is NOT proved", 
                             "listener churn during the loop is NOT decided (C17)"])


RING_ATTEMPT = [Rule("R6-queue", r"let channel = unsafe \{ self\.channels\.get_unchecked\(\*stream_id as usize\) \};", "", count=1, note="unchecked queue lookup folded into publish_to (index bound obligation)"),
                Rule("R6-publish", r"\bchannel\.publish_movable\(arc_item\.clone\(\)\)", "self.publish_to(*stream_id, arc_item.clone())", count=1)]
XB_ATTEMPT = [Rule("R6-sender", r"let sender = unsafe \{ self\.senders\.get_unchecked\(\*stream_id as usize\) \};", "", count=1, note="unchecked sender lookup folded into the shims (index bound obligation)"),
              Rule("R6-sender-len", r"\bsender\.len\(\)", "self.sender_len(*stream_id)", count=1),
              Rule("R6-try-send", r"\bsender\.try_send\(arc_item\.clone\(\)\)", "self.try_send_to(*stream_id, arc_item.clone())", min=1)]
UNITS += [unit_arc_waits("atomic", "src/multi/channels/arc/atomic.rs", RING_ATTEMPT),
          unit_arc_waits("full_sync", "src/multi/channels/arc/full_sync.rs", RING_ATTEMPT),
          unit_arc_waits("crossbeam", "src/multi/channels/arc/crossbeam.rs", XB_ATTEMPT)]
