"""Unit mutiny_stream (V, S-model): MutinyStream::poll_next against an abstract events source (C06 C07 C04): a stream yields what ITS
consume attempt returned; it answers end-of-stream only from a poll whose consume attempt found nothing AND after it was told to end
(buffered events are drained first); it answers Pending only after registering its waker -- and the registration happens AFTER the
consume attempt (the order the lost-wake-up argument of C04 relies on: a mechanism-preservation obligation)."""
from engine.extract import FnSpec, Rule
from engine.verus_run import Unit

F = "src/mutiny_stream.rs"
IMPL = r"Stream\s+for\s+MutinyStream\s*<[^>]*>\s*(?=\{)"
SPEC = r"""
pub struct Item { pub v: u64 }
pub struct Waker { pub id: u64 }
pub struct Context { pub w: Waker }
impl Context { pub fn waker(&self) -> (r: &Waker) ensures *r == self.w { &self.w } }
pub enum Poll<T> { Ready(T), Pending }
/// what the stream did to its events source, in order (ghost)
pub enum Step { Consumed(u32, bool), AskedKeepRunning(u32, bool), RegisteredWaker(u32), DroppedResources(u32) }
/// abstract ChannelConsumer: the three calls poll_next makes (their real implementations are decided per channel by back end K)
pub struct EventsSource { pub steps: Ghost<Seq<Step>> }
impl EventsSource {
    #[verifier::external_body]
    pub fn consume(&mut self, stream_id: u32) -> (r: Option<Item>)
        ensures final(self).steps@ == old(self).steps@.push(Step::Consumed(stream_id, r is Some)),
    { unimplemented!() }
    #[verifier::external_body]
    pub fn keep_stream_running(&mut self, stream_id: u32) -> (r: bool)
        ensures final(self).steps@ == old(self).steps@.push(Step::AskedKeepRunning(stream_id, r)),
    { unimplemented!() }
    #[verifier::external_body]
    pub fn register_stream_waker(&mut self, stream_id: u32, waker: &Waker)
        ensures final(self).steps@ == old(self).steps@.push(Step::RegisteredWaker(stream_id)),
    { }
    #[verifier::external_body]
    pub fn drop_resources(&mut self, stream_id: u32)
        ensures final(self).steps@ == old(self).steps@.push(Step::DroppedResources(stream_id)),
    { }
}
pub struct MutinyStream { pub stream_id: u32, pub events_source: EventsSource }
"""
FNS = [
    FnSpec(F, "poll_next", impl=IMPL, props=["C06", "C07", "C04", "C01", "C10", "C03"],
           sig="pub fn poll_next(&mut self, cx: &mut Context) -> (r: Poll<Option<Item>>)",
           sig_anchor=r"fn poll_next\(self: Pin<&mut Self>, cx: &mut Context<'_>\) -> Poll<Option<Self::Item>>",
           rules=[Rule("R3-Poll", r"\bPoll::", "Poll::", min=1)],
           requires="old(self).events_source.steps@.len() == 0",
           ensures="final(self).stream_id == old(self).stream_id,"
                   "final(self).events_source.steps@.len() >= 1, final(self).events_source.steps@[0] matches Step::Consumed(id, got) && id == old(self).stream_id"
                   "  && (got <==> r matches Poll::Ready(Some(_))) && (got ==> final(self).events_source.steps@.len() == 1),"
                   "r matches Poll::Ready(None) ==> final(self).events_source.steps@ =~= seq![Step::Consumed(old(self).stream_id, false), Step::AskedKeepRunning(old(self).stream_id, false)],"
                   "r is Pending ==> final(self).events_source.steps@ =~= seq![Step::Consumed(old(self).stream_id, false), Step::AskedKeepRunning(old(self).stream_id, true), Step::RegisteredWaker(old(self).stream_id)]"),
]
IMPL_DROP = r"Drop\s+for\s+MutinyStream\s*<[^>]*>\s*(?=\{)"
FNS.append(
    # C10 / C07: a dropped stream gives ITS OWN id back to the channel, exactly once (the id becomes reusable; nobody else's does)
    FnSpec(F, "drop", impl=IMPL_DROP, props=["C10", "C07"],
           sig="pub fn drop(&mut self)", sig_anchor=r"fn drop\(&mut self\)",
           ensures="final(self).stream_id == old(self).stream_id, final(self).events_source.steps@ == old(self).events_source.steps@.push(Step::DroppedResources(old(self).stream_id))"))
for f in FNS:
    f.container = "impl MutinyStream"
UNIT = Unit("mutiny_stream", FNS, spec=SPEC,
            trusted=["EventsSource: the ChannelConsumer calls are shims that only log; each channel's real consume / keep_stream_running / register_stream_waker is decided by back end K"],
            assumptions=["the event arriving between the consume attempt and the waker registration (the race) is NOT decided; only the order of the steps is"])
