"""Unit ring_full_sync (V): FullSyncMove for a SYMBOLIC BUFFER_SIZE with its spin lock treated as a resource invariant (DESIGN §3.4).
Acquiring the lock hands the critical section an ARBITRARY well-formed (head, tail) -- whatever other threads left; every access to head /
tail / a buffer slot is asserted to happen while the lock is held (LK1); each function states the lock state it leaves behind (the
reserve / consume-leaking halves return WITH the lock held, by design); the critical sections implement the FIFO steps on the state
they found (LK2). With LK3 (the flag excludes -- ASSUMED) the sequential contracts of back end K transfer to all schedules."""
from engine.extract import FnSpec, Rule, InlineCellAlias
from engine.verus_run import Unit

F = "src/ogre_std/ogre_queues/full_sync/full_sync_move.rs"
IMPL = r"impl\s*<\s*'a\s*,\s*SlotType\s*:\s*'a\s*\+\s*Debug\s*\+\s*Default\s*,\s*const\s+BUFFER_SIZE\s*:\s*usize\s*>\s*FullSyncMove\s*<\s*SlotType\s*,\s*BUFFER_SIZE\s*>\s*(?=\{)"
IMPL_PUB = r"MovePublisher\s*<\s*SlotType\s*>\s*for\s+FullSyncMove\s*<\s*SlotType\s*,\s*BUFFER_SIZE\s*>\s*(?=\{)"
IMPL_SUB = r"MoveSubscriber\s*<\s*SlotType\s*>\s*for\s+FullSyncMove\s*<\s*SlotType\s*,\s*BUFFER_SIZE\s*>\s*(?=\{)"
CONTAINER = "impl<const BUFFER_SIZE: usize> FullSyncMove<BUFFER_SIZE>"
SPEC = r"""
use core::num::NonZeroU32;
pub assume_specification [u32::overflowing_sub](a: u32, b: u32) -> (r: (u32, bool)) ensures r.0 == a.wrapping_sub(b);
pub assume_specification [u32::overflowing_add](a: u32, b: u32) -> (r: (u32, bool)) ensures r.0 == a.wrapping_add(b);
pub assume_specification [u32::abs_diff](a: u32, b: u32) -> (r: u32) ensures r == (if a >= b { a - b } else { b - a });

pub struct FullSyncMove<const BUFFER_SIZE: usize> {
    pub head: u32, pub tail: u32,
    /// ghost: THIS thread holds the spin lock
    pub held: Ghost<bool>,
    /// ghost: (head, tail) found at the last acquisition / left at the last release
    pub at_acquire: Ghost<(u32, u32)>, pub at_release: Ghost<(u32, u32)>,
    /// ghost (R7): the reserved slot's payload has been written / the leaked slot's payload has been moved out, since the last acquisition
    pub written: Ghost<bool>, pub moved_out: Ghost<bool>,
}
impl<const BUFFER_SIZE: usize> FullSyncMove<BUFFER_SIZE> {
    pub open spec fn len(&self) -> int { self.tail.wrapping_sub(self.head) as int }
    /// resource invariant protected by the lock
    pub open spec fn wf(&self) -> bool { 2 <= BUFFER_SIZE <= 0x4000_0000 && self.len() <= BUFFER_SIZE }
    /// `ogre_sync::lock(&self.concurrency_guard)`: ASSUMED to exclude (LK3); the protected state is whatever the previous holder left
    #[verifier::external_body]
    pub fn acquire(&mut self)
        requires !old(self).held@,
        ensures final(self).held@, final(self).wf(), final(self).at_acquire@ == (final(self).head, final(self).tail), !final(self).written@, !final(self).moved_out@,
    { }
    /// `ogre_sync::unlock(&self.concurrency_guard)`: the invariant must hold again
    #[verifier::external_body]
    pub fn release(&mut self)
        requires old(self).held@, old(self).wf(),
        ensures !final(self).held@, final(self).at_release@ == (old(self).head, old(self).tail), final(self).at_acquire == old(self).at_acquire,
                final(self).head == old(self).head, final(self).tail == old(self).tail, final(self).written == old(self).written, final(self).moved_out == old(self).moved_out,
    { }
    pub fn slot_at(i: usize) -> (r: usize) requires i < BUFFER_SIZE ensures r == i { i }
    #[verifier::external_body]
    pub fn slot_write(&mut self, slot: usize)
        requires slot < BUFFER_SIZE, old(self).held@,
        ensures final(self).written@, final(self).head == old(self).head, final(self).tail == old(self).tail, final(self).held == old(self).held, final(self).at_acquire == old(self).at_acquire, final(self).at_release == old(self).at_release, final(self).moved_out == old(self).moved_out,
    { }
    #[verifier::external_body]
    pub fn slot_read(&mut self, slot: usize)
        requires slot < BUFFER_SIZE, old(self).held@,
        ensures final(self).moved_out@, final(self).head == old(self).head, final(self).tail == old(self).tail, final(self).held == old(self).held, final(self).at_acquire == old(self).at_acquire, final(self).at_release == old(self).at_release, final(self).written == old(self).written,
    { }
}
"""
ALIAS = InlineCellAlias(min=0)
DEREF_CELL = Rule("R6-cell-deref", r"\*unsafe \{ &(?:mut )?\s*\* self\.(head|tail)\.get\(\) \}", r"self.\1", min=0, note="UnsafeCell read -> field")
DEREF_FIELD = Rule("R6-field-deref", r"\*\s*self\.(head|tail)\b", r"self.\1", min=0, note="deref of the inlined alias")
MUTBUF = Rule("R6-buffer-alias", r"let mutable_buffer = unsafe \{ &mut \* \(self\.buffer\.get\(\) as \*mut Box<\[SlotType; BUFFER_SIZE\]>\) \};", "", count=1)
LOCK = Rule("LK-acquire", r"ogre_sync::lock\(&self\.concurrency_guard\);", "self.acquire();", min=0, note="spin-lock acquisition -> acquire()")
UNLOCK = Rule("LK-release", r"ogre_sync::unlock\(&self\.concurrency_guard\);", "self.release();", min=0, note="spin-lock release -> release()")
LK1 = Rule("LK1-assert-held", r"(?m)^(\s*)(?=[^\n]*\bself\.(?:head|tail)\b)", r"\1assert(self.held@); ", min=1, note="every statement touching head / tail is preceded by assert(lock held)")
COMMON = [MUTBUF, ALIAS, DEREF_CELL, DEREF_FIELD, LOCK, UNLOCK]
FRAME = "final(self).written == old(self).written, final(self).moved_out == old(self).moved_out"
NO_RETRY = "forall|b: bool| report_full_fn.ensures((), b) ==> !b, report_full_fn.requires(())"
NO_RETRY_E = "forall|b: bool| report_empty_fn.ensures((), b) ==> !b, report_empty_fn.requires(())"
CLOSURE_FALSE = Rule("R15-closure-false", r"\|\| false", "|| -> (b: bool) ensures !b { false }", count=1)


def fn(name, impl=IMPL, **kw):
    f = FnSpec(F, name, impl=impl, **kw)
    f.container = CONTAINER
    return f


FNS = [
    fn("available_elements_count", impl=IMPL_PUB, props=["C02", "C15", "C16", "C03", "C05", "C18"], kind="helper",
       sig="pub fn available_elements_count(&self) -> (r: usize)", sig_anchor=r"fn available_elements_count\(&self\) -> usize",
       rules=[ALIAS, DEREF_FIELD], ensures="r as int == self.len()"),
    fn("leak_slot_internal", props=["C01", "C02", "C15", "C16", "C20", "C03", "C05", "C18"], attrs="#[verifier::exec_allows_no_decreases_clause]",
       sig="pub fn leak_slot_internal<ReportFullFn: Fn() -> bool>(&mut self, report_full_fn: ReportFullFn) -> (r: Option<(usize, u32, u32)>)",
       sig_anchor=r"pub fn leak_slot_internal\(&self, report_full_fn: impl Fn\(\) -> bool\) -> Option<\(&'a mut SlotType, u32, u32\)>",
       rules=[r for r in COMMON if r is not MUTBUF] + [MUTBUF,
              Rule("R8-break-value", r"break unsafe \{ Some\( \(mutable_buffer\.get_unchecked_mut\(([^()]*)\), tail, len_before\) \) \}", r"return Some( (Self::slot_at(\1), tail, len_before) );", count=1),
              Rule("R8-break-none", r"\bbreak None;", "return None;", count=1), LK1],
       requires="!old(self).held@, " + NO_RETRY,
       ensures="r is Some ==> final(self).held@ && final(self).wf() && final(self).at_acquire@ == (final(self).head, final(self).tail) && !final(self).written@"
               "   && (r matches Some((idx, id, len_before)) && id == final(self).tail && idx == id as usize % BUFFER_SIZE && len_before as int == final(self).len() && final(self).len() < BUFFER_SIZE),"
               "r is None ==> !final(self).held@ && final(self).at_release@ == final(self).at_acquire@ && (final(self).at_acquire@.1.wrapping_sub(final(self).at_acquire@.0) as int) >= BUFFER_SIZE",
       loops={0: "invariant !self.held@, " + NO_RETRY + ","}),
    fn("publish_leaked_internal", props=["C01", "C02", "C15", "C20", "C03", "C05", "C18"],
       sig="pub fn publish_leaked_internal(&mut self)", sig_anchor=r"pub fn publish_leaked_internal\(&self\)",
       rules=COMMON[1:] + [LK1],
       requires="old(self).held@, old(self).wf(), old(self).len() < BUFFER_SIZE, old(self).written@",
       ensures="!final(self).held@, final(self).at_release@ == (old(self).head, old(self).tail.wrapping_add(1)), final(self).at_acquire == old(self).at_acquire, final(self).head == old(self).head, final(self).tail == old(self).tail.wrapping_add(1)"),
    fn("consume_leaking_internal", props=["C01", "C02", "C15", "C03", "C05", "C18"], attrs="#[verifier::exec_allows_no_decreases_clause]",
       sig="pub fn consume_leaking_internal<ReportEmptyFn: Fn() -> bool>(&mut self, report_empty_fn: ReportEmptyFn) -> (r: Option<(usize, i32)>)",
       sig_anchor=r"fn consume_leaking_internal\(&self, report_empty_fn: impl Fn\(\) -> bool\) -> Option<\(&'a mut SlotType, i32\)>",
       rules=[r for r in COMMON if r is not MUTBUF] + [MUTBUF,
              Rule("R8-break-value", r"break unsafe \{ Some\( \(mutable_buffer\.get_unchecked_mut\(([^()]*)\), len_before\) \) \}", r"return Some( (Self::slot_at(\1), len_before) );", count=1),
              Rule("R8-break-none", r"\bbreak None;", "return None;", count=1), LK1],
       requires="!old(self).held@, " + NO_RETRY_E,
       ensures="r is Some ==> final(self).held@ && final(self).wf() && final(self).at_acquire@ == (final(self).head, final(self).tail) && !final(self).moved_out@"
               "   && (r matches Some((idx, len_before)) && idx == final(self).head as usize % BUFFER_SIZE && len_before as int == final(self).len() && final(self).len() > 0),"
               "r is None ==> !final(self).held@ && final(self).at_release@ == final(self).at_acquire@ && final(self).at_acquire@.1 == final(self).at_acquire@.0",
       loops={0: "invariant !self.held@, " + NO_RETRY_E + ","}),
    fn("release_leaked_internal", props=["C01", "C02", "C15", "C03", "C05", "C18"],
       sig="pub fn release_leaked_internal(&mut self)", sig_anchor=r"fn release_leaked_internal\(&self\)",
       rules=COMMON[1:] + [LK1],
       requires="old(self).held@, old(self).wf(), old(self).len() > 0, old(self).moved_out@",
       ensures="final(self).held@, final(self).wf(), final(self).head == old(self).head.wrapping_add(1), final(self).tail == old(self).tail, final(self).at_acquire == old(self).at_acquire"),
    # C01/C02 mod LK: one publish = the FIFO push on the state found at acquisition; payload written under the lock, before the tail moves
    fn("publish_movable", impl=IMPL_PUB, props=["C01", "C02", "C16", "C15", "C13", "C03", "C05", "C18"],
       sig="pub fn publish_movable(&mut self, item: u64) -> (r: (Option<NonZeroU32>, Option<u64>))",
       sig_anchor=r"fn publish_movable\(&self, item: SlotType\) -> \(Option<NonZeroU32>, Option<SlotType>\)",
       rules=[CLOSURE_FALSE, Rule("R7-write", r"unsafe \{ ptr::write\(slot, item\); \}", "self.slot_write(slot);", count=1, note="ptr::write -> slot_write (ghost: written under the lock)")],
       requires="!old(self).held@",
       ensures="!final(self).held@,"
               "r.0 is Some ==> r.1 is None && final(self).at_release@ == (final(self).at_acquire@.0, final(self).at_acquire@.1.wrapping_add(1))"
               "   && r.0.unwrap().get() as int == (final(self).at_acquire@.1.wrapping_sub(final(self).at_acquire@.0) as int) + 1,"
               "r.0 is None ==> r.1 == Some(item) && final(self).at_release@ == final(self).at_acquire@ && (final(self).at_acquire@.1.wrapping_sub(final(self).at_acquire@.0) as int) >= BUFFER_SIZE"),
    fn("consume_movable", impl=IMPL_SUB, props=["C01", "C02", "C05", "C13", "C03", "C18"],
       sig="pub fn consume_movable(&mut self) -> (r: Option<u64>)", sig_anchor=r"fn consume_movable\(&self\) -> Option<SlotType>",
       rules=[CLOSURE_FALSE, UNLOCK,
              Rule("R7-read", r"unsafe \{ Some\(ptr::read\(slot_ref\)\) \}", "{ self.slot_read(slot_ref); Some(0u64) }", count=1, note="ptr::read -> slot_read (ghost: moved out under the lock); the value itself is decided by back end K")],
       requires="!old(self).held@",
       ensures="!final(self).held@,"
               "r is Some ==> final(self).at_release@ == (final(self).at_acquire@.0.wrapping_add(1), final(self).at_acquire@.1) && final(self).at_acquire@.0 != final(self).at_acquire@.1,"
               "r is None ==> final(self).at_release@ == final(self).at_acquire@ && final(self).at_acquire@.1 == final(self).at_acquire@.0"),
]
UNIT = Unit("ring_full_sync", FNS, spec=SPEC,
            trusted=["acquire / release: lock shims (mutual exclusion of the compare-exchange spin flag of ogre_sync is ASSUMED: LK3)", "slot_write / slot_read: the payload moves, decided by back end K on the real code"],
            assumptions=["LK3 + sequential consistency", "available_elements_count() outside the lock is a racy advisory read by design; peek_remaining is `unsafe fn` (caller excludes); Drop has &mut self"])
