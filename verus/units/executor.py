"""Unit executor_items (V, S-model): the seven `item_processor` closures of stream_executor.rs (C11), lifted mechanically (R15) out of
their `spawn_*` functions after textual expansion of the crate's own on_*_item! macros (R13), with `INSTRUMENTS` SYMBOLIC (any usize).
Each closure body must account for its item exactly once: with metrics enabled exactly one of the three outcome counters moves by one,
the right one; the error callback runs exactly once for a failed item and never otherwise; no panic!() of the on_timed_* macros is
reachable; the body returns normally for every outcome (a failed or timed-out item does not stop later ones).

Unit executor_life (V, S-model): the six `tokio::spawn(async move { .. })` bodies + register_execution_start/finish (C12, and C11's
call-site obligations: the concurrency limit handed to for_each_concurrent, the timeout variant chosen iff futures_timeout != 0)."""
from engine.extract import FnSpec, Rule, DropChain, DropStatement, ReplaceBlocksNumbered
from engine.verus_run import Unit, Lemma

F = "src/stream_executor.rs"
IMPL = r"impl\s*<\s*const\s+INSTRUMENTS_USIZE\s*:\s*usize\s*>\s*StreamExecutor\s*<\s*INSTRUMENTS_USIZE\s*>\s*(?=\{)"
CONTAINER = "impl StreamExecutor"
ITEM_MACROS = ["on_non_timed_ok_item", "on_timed_ok_item", "on_non_timed_err_item", "on_timed_err_item"]

SPEC = r"""
/// shim of `Instruments` (src/instruments.rs): the bit tests are uninterpreted here; `metrics() == cheap_profiling()` for every usize is
/// decided by back end K (harness instruments::metrics_iff_cheap_profiling, loop-free over all usize) and ASSUMED in this unit
#[derive(Clone, Copy)]
pub struct Instruments { pub bits: usize }
impl Instruments {
    pub uninterp spec fn profiling(self) -> bool;
    pub uninterp spec fn logs(self) -> bool;
    pub uninterp spec fn traces(self) -> bool;
    #[verifier::external_body] pub fn cheap_profiling(self) -> (r: bool) ensures r == self.profiling() { unimplemented!() }
    #[verifier::external_body] pub fn metrics(self) -> (r: bool) ensures r == self.profiling() { unimplemented!() }
    #[verifier::external_body] pub fn logging(self) -> (r: bool) ensures r == self.logs() { unimplemented!() }
    #[verifier::external_body] pub fn tracing(self) -> (r: bool) ensures r == self.traces() { unimplemented!() }
}

/// shim of AtomicIncrementalAverage64: only the count matters here (C19 decides the real type)
pub struct AvgCounter { pub count: Ghost<nat> }
impl AvgCounter {
    #[verifier::external_body] pub fn inc(&mut self, measurement: f32) ensures final(self).count@ == old(self).count@ + 1 { }
}
impl Duration { #[verifier::external_body] pub fn as_secs_f32(&self) -> f32 { unimplemented!() } }
impl Instant { #[verifier::external_body] pub fn elapsed(&self) -> Duration { unimplemented!() } }

pub struct Item { pub v: u64 }
pub struct ErrBox { pub v: u64 }
pub struct Elapsed { pub v: u8 }
/// a pipeline item that is a future: `ok` = resolves to Ok, `slow` = does not resolve within the executor's timeout
pub struct FallibleFuture { pub ok: bool, pub slow: bool }
pub struct PlainFuture { pub slow: bool }
impl FallibleFuture {
    /// `.await` on the item (R10)
    #[verifier::external_body] pub fn resolve(self) -> (r: Result<Item, ErrBox>) ensures r is Ok <==> self.ok { unimplemented!() }
}
impl PlainFuture {
    #[verifier::external_body] pub fn resolve(self) -> Item { unimplemented!() }
}
/// ASSUMED contract of tokio::time::timeout(d, fut).await: Err(Elapsed) iff the future did not resolve in time (and it is dropped)
#[verifier::external_body]
pub fn timeout_fallible(d: Duration, f: FallibleFuture) -> (r: Result<Result<Item, ErrBox>, Elapsed>)
    ensures r is Err <==> f.slow, r matches Ok(inner) ==> (inner is Ok <==> f.ok),
{ unimplemented!() }
#[verifier::external_body]
pub fn timeout_plain(d: Duration, f: PlainFuture) -> (r: Result<Item, Elapsed>)
    ensures r is Err <==> f.slow,
{ unimplemented!() }

pub enum Outcome { Ok, Failed, TimedOut }

pub struct StreamExecutor {
    pub instruments: Instruments,
    pub futures_timeout: Duration,
    pub ok_events_avg_future_duration: AvgCounter,
    pub timed_out_events_avg_future_duration: AvgCounter,
    pub failed_events_avg_future_duration: AvgCounter,
    /// ghost: number of on_err_callback invocations
    pub err_cb_calls: Ghost<nat>,
}
impl StreamExecutor {
    /// `on_err_callback(err)` [.await]
    #[verifier::external_body]
    pub fn err_callback(&mut self, err: ErrBox)
        ensures final(self).err_cb_calls@ == old(self).err_cb_calls@ + 1, final(self).same_counters(old(self)),
                final(self).instruments == old(self).instruments, final(self).futures_timeout == old(self).futures_timeout,
    { }
    /// `tokio::spawn(on_err_callback(err))`: MECHANISM obligation -- the error handling of an item must be complete when the item processor returns
    /// (for_each(_concurrent) counts the item as done then; the close callback runs after the last item is done)
    #[verifier::external_body]
    pub fn err_callback_detached(&mut self, err: ErrBox) requires false { }
    /// `on_err_callback(err);` without `.await`: the future is dropped unpolled -- the callback never runs
    #[verifier::external_body]
    pub fn err_callback_never_run(&mut self, err: ErrBox) requires false { }
    pub open spec fn same_counters(&self, o: &Self) -> bool {
        self.ok_events_avg_future_duration == o.ok_events_avg_future_duration && self.timed_out_events_avg_future_duration == o.timed_out_events_avg_future_duration
        && self.failed_events_avg_future_duration == o.failed_events_avg_future_duration
    }
    /// C11: this item was accounted for exactly once as `outcome`
    pub open spec fn accounted(&self, o: &Self, outcome: Outcome, has_err_callback: bool) -> bool {
        let m: nat = if o.instruments.profiling() { 1 } else { 0 };
        &&& self.instruments == o.instruments
        &&& self.ok_events_avg_future_duration.count@        == o.ok_events_avg_future_duration.count@        + (if outcome is Ok { m } else { 0 })
        &&& self.failed_events_avg_future_duration.count@    == o.failed_events_avg_future_duration.count@    + (if outcome is Failed { m } else { 0 })
        &&& self.timed_out_events_avg_future_duration.count@ == o.timed_out_events_avg_future_duration.count@ + (if outcome is TimedOut { m } else { 0 })
        &&& self.err_cb_calls@ == o.err_cb_calls@ + (if has_err_callback && outcome is Failed { 1nat } else { 0 })
    }
}
"""

SELF_REF = Rule("R15-self_ref", r"\bself_ref\b", "self", min=1, note="captured `self_ref` is the lifted function's &mut self")
INSTR = Rule("R15-INSTRUMENTS", r"Self::INSTRUMENTS\b", "self.instruments", min=1, note="associated const INSTRUMENTS -> symbolic field")
AWAIT_ITEM = Rule("R10-await-item", r"\bfuture_element\.await", "future_element.resolve()", count=1)
TIMEOUT_F = Rule("R10-timeout", r"\btimeout\(self\.futures_timeout, future_element\)\.await", "timeout_fallible(self.futures_timeout, future_element)", count=1)
TIMEOUT_P = Rule("R10-timeout", r"\btimeout\(self\.futures_timeout, future_element\)\.await", "timeout_plain(self.futures_timeout, future_element)", count=1)
def _errcb(m):
    if m.group(1):
        return "self.err_callback_detached(err);"      # tokio::spawn(on_err_callback_ref(err)): runs some time later, nobody waits for it
    if not m.group(3):
        return "self.err_callback_never_run(err);"     # the future is created and dropped: never polled
    return "self.err_callback(err);"


ERRCB_ASYNC = Rule("R15-err-callback", r"(tokio::spawn\(\s*)?\bon_err_callback_ref\(err\)(\s*\))?(\.await)?;", _errcb, min=1,
                   note="on_err_callback_ref(err).await -> err_callback; a detached (tokio::spawn) or never-awaited call -> shims whose precondition is false: the item does not "
                        "count as processed before its error handling completed (C11), and the close callback must not overtake it (C12)")
ERRCB_SYNC = Rule("R15-err-callback", r"\bon_err_callback\(err\);", "self.err_callback(err);", count=1)

OUT_FALLIBLE = "(if future_element.ok { Outcome::Ok } else { Outcome::Failed })"
OUT_FALLIBLE_T = "(if future_element.slow { Outcome::TimedOut } else if future_element.ok { Outcome::Ok } else { Outcome::Failed })"
OUT_PLAIN_T = "(if future_element.slow { Outcome::TimedOut } else { Outcome::Ok })"


def item(fnname, out, nth, anchor, sig, rules, ensures):
    f = FnSpec(F, fnname, impl=IMPL, out_name=out, block_anchor=anchor, block_nth=nth, macros=ITEM_MACROS, sig=sig, sig_anchor=r"\bfn " + fnname + r"\b",
               rules=rules, ensures=ensures, props=["C11", "C12"] if any(r is ERRCB_ASYNC for r in rules) else ["C11"])
    f.container = CONTAINER
    return f


A_FUT = r"let item_processor = \|future_element\| \{\s*async move\s*(?=\{)"
ITEMS = [
    item("spawn_executor", "item_fallible_future_no_timeout", 0, A_FUT,
         "pub fn item_fallible_future_no_timeout(&mut self, mut start: Instant, future_element: FallibleFuture)",
         [SELF_REF, INSTR, AWAIT_ITEM, ERRCB_ASYNC], "final(self).accounted(old(self), " + OUT_FALLIBLE + ", true)"),
    item("spawn_executor", "item_fallible_future_with_timeout", 1, A_FUT,
         "pub fn item_fallible_future_with_timeout(&mut self, mut start: Instant, future_element: FallibleFuture)",
         [SELF_REF, INSTR, TIMEOUT_F, ERRCB_ASYNC], "final(self).accounted(old(self), " + OUT_FALLIBLE_T + ", true)"),
    item("spawn_futures_executor", "item_plain_future_no_timeout", 0, A_FUT,
         "pub fn item_plain_future_no_timeout(&mut self, mut start: Instant, future_element: PlainFuture)",
         [SELF_REF, INSTR, AWAIT_ITEM], "final(self).accounted(old(self), Outcome::Ok, false)"),
    item("spawn_futures_executor", "item_plain_future_with_timeout", 1, A_FUT,
         "pub fn item_plain_future_with_timeout(&mut self, mut start: Instant, future_element: PlainFuture)",
         [SELF_REF, INSTR, TIMEOUT_P], "final(self).accounted(old(self), " + OUT_PLAIN_T + ", false)"),
    item("spawn_fallibles_executor", "item_fallible_sync", 0, r"let item_processor = \|element\|\s*(?=\{)",
         "pub fn item_fallible_sync(&mut self, element: Result<Item, ErrBox>)",
         [INSTR, ERRCB_SYNC], "final(self).accounted(old(self), (if element is Ok { Outcome::Ok } else { Outcome::Failed }), true)"),
    item("spawn_non_futures_executor", "item_fallible_sync_no_callback", 0, r"let item_processor = \|fallible_element\|\s*(?=\{)",
         "pub fn item_fallible_sync_no_callback(&mut self, fallible_element: Result<Item, ErrBox>)",
         [INSTR], "final(self).accounted(old(self), (if fallible_element is Ok { Outcome::Ok } else { Outcome::Failed }), false)"),
    item("spawn_non_futures_non_fallibles_executor", "item_plain_sync", 0, r"let item_processor = \|yielded_item\|\s*(?=\{)",
         "pub fn item_plain_sync(&mut self, yielded_item: Item)",
         [INSTR], "final(self).accounted(old(self), Outcome::Ok, false)"),
]

UNIT_ITEMS = Unit("executor_items", ITEMS, spec=SPEC,
                  trusted=["tokio::time::timeout (Err iff the duration elapsed first; the inner future is dropped), the item futures, on_err_callback: external_body shims",
                           "Instruments::{metrics,cheap_profiling,logging,tracing}: uninterpreted; metrics()==cheap_profiling() for every usize is decided by the K harness instruments::metrics_iff_cheap_profiling"],
                  assumptions=["AtomicIncrementalAverage64::inc counts exactly one (decided under C19)",
                               "closure capture mechanics are dropped by lifting (R15): the closure body text is verified as a method taking the captured variables as parameters",
                               "futures::StreamExt::for_each / for_each_concurrent call the closure exactly once per item (assumed)"])
UNITS = [UNIT_ITEMS]

# ------------------------------------------------------------------------------------------------------------------------------------
# executor_life (C12 + C11 call sites)
# ------------------------------------------------------------------------------------------------------------------------------------
LIFE_SPEC = r"""
#[derive(Clone, Copy)]
pub struct Instruments { pub bits: usize }
impl Instruments {
    #[verifier::external_body] pub fn cheap_profiling(self) -> bool { unimplemented!() }
    #[verifier::external_body] pub fn metrics(self) -> bool { unimplemented!() }
    #[verifier::external_body] pub fn logging(self) -> bool { unimplemented!() }
    #[verifier::external_body] pub fn tracing(self) -> bool { unimplemented!() }
}
#[derive(Clone, Copy, PartialEq, Eq)]
pub enum ExecutorStatus { NotStarted, Running, ScheduledToFinish, ProgrammaticallyEnded, StreamEnded }
/// shim of the atomic_enum-generated AtomicExecutorStatus (S-model: exact sequential semantics)
pub struct AtomicExecutorStatus { pub v: ExecutorStatus }
impl AtomicExecutorStatus {
    pub open spec fn view(&self) -> ExecutorStatus { self.v }
    #[verifier::external_body]
    pub fn load(&self, o: Ordering) -> (r: ExecutorStatus) ensures r == self@ { unimplemented!() }
    #[verifier::external_body]
    pub fn store(&mut self, v: ExecutorStatus, o: Ordering) ensures final(self)@ == v { }
    #[verifier::external_body]
    pub fn compare_exchange(&mut self, cur: ExecutorStatus, new: ExecutorStatus, o1: Ordering, o2: Ordering) -> (r: Result<ExecutorStatus, ExecutorStatus>)
        ensures old(self)@ == cur ==> r is Ok && final(self)@ == new,
                old(self)@ != cur ==> r is Err && final(self)@ == old(self)@,
    { unimplemented!() }
}
pub struct Stream { pub v: u8 }
impl Instant { #[verifier::external_body] pub fn elapsed(&self) -> Duration { unimplemented!() } }

/// where the task body is (ghost)
pub enum Phase { Fresh, Started, ItemsDone, FinishRegistered, CallbackDone }

pub struct StreamExecutor {
    pub instruments: Instruments,
    pub futures_timeout: Duration,
    pub creation_time: Instant,
    pub executor_status: AtomicExecutorStatus,
    pub execution_start_delta_nanos: AtomicU64,
    pub execution_finish_delta_nanos: AtomicU64,
    /// ghost: the last value the (monotone) clock `creation_time.elapsed()` returned
    pub clock: Ghost<nat>,
    pub phase: Ghost<Phase>,
    /// ghost: invocations of stream_ended_callback
    pub close_cb_calls: Ghost<nat>,
    /// ghost: how the stream was driven: the concurrency limit in force (1 for for_each)
    pub used_limit: Ghost<nat>,
    /// ghost: which tokio task body was spawned (0: no per-item timeout, 1: with timeout)
    pub spawned_arm: Ghost<Option<nat>>,
}
impl StreamExecutor {
    pub open spec fn ended(&self) -> bool { self.executor_status@ is StreamEnded || self.executor_status@ is ProgrammaticallyEnded }
    /// `self.creation_time.elapsed().as_nanos() as u64`: ASSUMED monotone (minstant clock)
    #[verifier::external_body]
    pub fn elapsed_nanos(&mut self) -> (r: u64)
        ensures r as nat >= old(self).clock@, final(self).clock@ == r as nat, final(self).same_but_clock(old(self)),
    { unimplemented!() }
    pub open spec fn same_but_clock(&self, o: &Self) -> bool {
        self.executor_status == o.executor_status && self.execution_start_delta_nanos == o.execution_start_delta_nanos
        && self.execution_finish_delta_nanos == o.execution_finish_delta_nanos && self.phase == o.phase && self.close_cb_calls == o.close_cb_calls
        && self.used_limit == o.used_limit && self.futures_timeout == o.futures_timeout && self.spawned_arm == o.spawned_arm
    }
    /// ASSUMED contract of `stream.for_each(item_processor).await`: returns after the closure ran for every item (each item's obligations:
    /// unit executor_items); meanwhile another thread may call report_scheduled_to_finish() (Running -> ScheduledToFinish)
    #[verifier::external_body]
    pub fn run_for_each(&mut self, stream: Stream)
        requires old(self).phase@ is Started, old(self).executor_status@ is Running,
        ensures final(self).phase@ is ItemsDone, final(self).used_limit@ == 1,
                final(self).executor_status@ is Running || final(self).executor_status@ is ScheduledToFinish,
                final(self).execution_start_delta_nanos == old(self).execution_start_delta_nanos, final(self).clock == old(self).clock,
                final(self).close_cb_calls == old(self).close_cb_calls, final(self).futures_timeout == old(self).futures_timeout, final(self).spawned_arm == old(self).spawned_arm,
    { }
    /// ASSUMED contract of `stream.for_each_concurrent(limit, item_processor).await` (at most `limit` item futures in flight)
    #[verifier::external_body]
    pub fn run_for_each_concurrent(&mut self, stream: Stream, limit: usize)
        requires old(self).phase@ is Started, old(self).executor_status@ is Running,
        ensures final(self).phase@ is ItemsDone, final(self).used_limit@ == limit as nat,
                final(self).executor_status@ is Running || final(self).executor_status@ is ScheduledToFinish,
                final(self).execution_start_delta_nanos == old(self).execution_start_delta_nanos, final(self).clock == old(self).clock,
                final(self).close_cb_calls == old(self).close_cb_calls, final(self).futures_timeout == old(self).futures_timeout, final(self).spawned_arm == old(self).spawned_arm,
    { }
    /// `stream_ended_callback(self).await` -- C12's obligations are its PRECONDITION: it runs after the last item (phase), after the
    /// finish was registered, and finds an 'ended' status with finish time >= start time; it is an FnOnce, so calling it twice is a failure
    #[verifier::external_body]
    pub fn stream_ended_callback(&mut self)
        requires old(self).phase@ is FinishRegistered, old(self).ended(),
                 old(self).execution_finish_delta_nanos@ >= old(self).execution_start_delta_nanos@,
        ensures final(self).close_cb_calls@ == old(self).close_cb_calls@ + 1, final(self).phase@ is CallbackDone,
                final(self).used_limit == old(self).used_limit, final(self).executor_status == old(self).executor_status, final(self).spawned_arm == old(self).spawned_arm,
    { }
    /// `tokio::spawn(async move { <task body k> })` -- ASSUMED to run the task; which body was handed over is recorded
    #[verifier::external_body]
    pub fn spawn_task(&mut self, arm: usize)
        ensures final(self).spawned_arm@ == Some(arm as nat), final(self).futures_timeout == old(self).futures_timeout,
    { }
}
"""

LIFE_MACROS = ["on_executor_start", "on_executor_end"] + ITEM_MACROS
DROP_PROC = DropStatement("R15-closure-def", r"let item_processor = ", count=1, note="the item_processor closure definition is verified separately (unit executor_items)")
DROP_REPORT = DropChain("R9-stats-report", r"if Self::INSTRUMENTS\.logging\(\) && Self::INSTRUMENTS\.cheap_profiling\(\)", count=1,
                        note="the statistics report of on_executor_end! (format!/warn! only) is dropped")
LIFE_COMMON = [DROP_PROC, DROP_REPORT,
               Rule("R15-self_ref-def", r"let self_ref: &Self = &self;", "", min=0),
               Rule("R15-errcb-ref-def", r"let on_err_callback_ref = &on_err_callback;", "", min=0),
               Rule("R15-self_ref", r"\bself_ref\b", "self", min=0),
               Rule("R15-INSTRUMENTS", r"Self::INSTRUMENTS\b", "self.instruments", min=1),
               Rule("R10-callback", r"stream_ended_callback\([^()]*(?:\([^()]*\))?[^()]*\)\.await;", "self.stream_ended_callback();", min=1, note="close callback invocation"),
               Rule("R11-finish-phase", r"(self\.register_execution_finish\(\);)", r"\1", count=1)]
FOR_EACH_ASYNC = [Rule("R10-for_each", r"stream\.for_each\(item_processor\)\.await", "self.run_for_each(stream)", count=1),
                  Rule("R10-for_each_concurrent", r"stream\.for_each_concurrent\(([^,]+), item_processor\)\.await", r"self.run_for_each_concurrent(stream, \1)", count=1)]
FOR_EACH_SYNC = [Rule("R10-for_each", r"stream\.for_each\(\|(\w+)\| \{\s*item_processor\(\1\);\s*future::ready\(\(\)\)\s*\}\)\.await", "self.run_for_each(stream)", count=1),
                 Rule("R10-for_each_concurrent", r"stream\.for_each_concurrent\(([^,]+), \|(\w+)\| \{\s*item_processor\(\2\);\s*future::ready\(\(\)\)\s*\}\)\.await", r"self.run_for_each_concurrent(stream, \1)", count=1)]
TASK_ENS = ("final(self).close_cb_calls@ == old(self).close_cb_calls@ + 1, final(self).phase@ is CallbackDone, final(self).ended(),"
            "final(self).used_limit@ == concurrency_limit as nat")


def task(fnname, out, nth, sync):
    f = FnSpec(F, fnname, impl=IMPL, out_name=out, block_anchor=r"tokio::spawn\(async move\s*(?=\{)", block_nth=nth, macros=LIFE_MACROS,
               sig=f"pub fn {out}(&mut self, concurrency_limit: u32, stream: Stream)", sig_anchor=r"\bfn " + fnname + r"\b",
               rules=LIFE_COMMON + (FOR_EACH_SYNC if sync else FOR_EACH_ASYNC),
               requires="old(self).phase@ is Fresh", ensures=TASK_ENS, props=["C12", "C11"])
    f.container = CONTAINER
    return f


def plain(name, **kw):
    f = FnSpec(F, name, impl=IMPL, **kw)
    f.container = CONTAINER
    return f


ELAPSED_NANOS = Rule("R11-clock", r"self\.creation_time\.elapsed\(\)\.as_nanos\(\) as u64", "self.elapsed_nanos()", count=1, note="clock read -> monotone clock shim")
SPAWN_NUMBERED = None
LIFE = [
    plain("register_execution_start", props=["C12"],
          sig="pub fn register_execution_start(&mut self)", sig_anchor=r"fn register_execution_start\(&self\)",
          rules=[Rule("R11-clock-let", r"self\.execution_start_delta_nanos\.store\(self\.creation_time\.elapsed\(\)\.as_nanos\(\) as u64, Relaxed\);",
                      "let now = self.elapsed_nanos(); self.execution_start_delta_nanos.store(now, Relaxed);", count=1, note="argument evaluated first (borrow order), clock shim")],
          tail="\n        proof { self.phase@ = Phase::Started; }\n",
          requires="old(self).phase@ is Fresh",
          ensures="final(self).executor_status@ is Running, final(self).phase@ is Started, final(self).execution_start_delta_nanos@ as nat <= final(self).clock@,"
                  "final(self).close_cb_calls == old(self).close_cb_calls, final(self).futures_timeout == old(self).futures_timeout, final(self).spawned_arm == old(self).spawned_arm"),
    plain("register_execution_finish", props=["C12"],
          sig="pub fn register_execution_finish(&mut self)", sig_anchor=r"fn register_execution_finish\(&self\)",
          rules=[Rule("R11-clock-let", r"self\.execution_finish_delta_nanos\.store\(self\.creation_time\.elapsed\(\)\.as_nanos\(\) as u64, Relaxed\);",
                      "let now = self.elapsed_nanos(); self.execution_finish_delta_nanos.store(now, Relaxed);", count=1, note="argument evaluated first (borrow order), clock shim")],
          tail="\n        proof { self.phase@ = Phase::FinishRegistered; }\n",
          requires="old(self).phase@ is ItemsDone, old(self).execution_start_delta_nanos@ as nat <= old(self).clock@, old(self).executor_status@ is Running || old(self).executor_status@ is ScheduledToFinish",
          ensures="final(self).ended(), final(self).phase@ is FinishRegistered,"
                  "final(self).executor_status@ is ProgrammaticallyEnded ==> old(self).executor_status@ is ScheduledToFinish,"
                  "final(self).executor_status@ is StreamEnded ==> old(self).executor_status@ is Running,"
                  "final(self).execution_finish_delta_nanos@ >= final(self).execution_start_delta_nanos@, final(self).execution_start_delta_nanos == old(self).execution_start_delta_nanos,"
                  "final(self).close_cb_calls == old(self).close_cb_calls, final(self).used_limit == old(self).used_limit, final(self).futures_timeout == old(self).futures_timeout, final(self).spawned_arm == old(self).spawned_arm",
          loops={0: "invariant_except_break self.phase == old(self).phase, self.clock == old(self).clock, self.execution_start_delta_nanos == old(self).execution_start_delta_nanos, self.close_cb_calls == old(self).close_cb_calls,"
                    " self.used_limit == old(self).used_limit, self.futures_timeout == old(self).futures_timeout, self.spawned_arm == old(self).spawned_arm, self.execution_finish_delta_nanos == old(self).execution_finish_delta_nanos,"
                    " self.executor_status == old(self).executor_status, self.executor_status@ is Running || self.executor_status@ is ScheduledToFinish,\n"
                    "ensures self.phase == old(self).phase, self.clock == old(self).clock, self.execution_start_delta_nanos == old(self).execution_start_delta_nanos, self.close_cb_calls == old(self).close_cb_calls,"
                    " self.used_limit == old(self).used_limit, self.futures_timeout == old(self).futures_timeout, self.spawned_arm == old(self).spawned_arm, self.execution_finish_delta_nanos == old(self).execution_finish_delta_nanos,"
                    " self.ended(), self.executor_status@ is ProgrammaticallyEnded ==> old(self).executor_status@ is ScheduledToFinish, self.executor_status@ is StreamEnded ==> old(self).executor_status@ is Running,\n"
                    "decreases 0int,"}),
    task("spawn_executor", "task_fallible_futures_no_timeout", 0, False),
    task("spawn_executor", "task_fallible_futures_with_timeout", 1, False),
    task("spawn_futures_executor", "task_plain_futures_no_timeout", 0, False),
    task("spawn_futures_executor", "task_plain_futures_with_timeout", 1, False),
    task("spawn_fallibles_executor", "task_fallible_sync", 0, True),
    task("spawn_non_futures_executor", "task_fallible_sync_no_callback", 0, True),
    task("spawn_non_futures_non_fallibles_executor", "task_plain_sync", 0, True),
]

SPAWN_RULES = [ReplaceBlocksNumbered("R15-task-bodies", r"tokio::spawn\(", "self.spawn_task({k})", count=2, note="the two task bodies are verified separately (task_* obligations)"),
               Rule("R17-match-zero", r"match (self\.futures_timeout(?:\s*\.\s*\w+\(\))?) \{\s*(Duration::ZERO|0) => \{",
                    lambda m: ("if " + m.group(1) + ".is_zero() { {") if m.group(2) == "Duration::ZERO" else ("if " + m.group(1) + " == 0 { {"), count=1,
                    note="`match d { Duration::ZERO => A, _ => B }` -> `if d.is_zero() A else B` (a scrutinee converted to a unit, `d.as_millis()` .. with pattern 0, becomes `if d.as_millis() == 0`)"),
               Rule("R17-match-else", r"\},\s*_ => \{", "} } else { {", count=1),
               Rule("R17-match-close", r"\},\s*\}\s*$", "} }", count=1)]
for _name in ("spawn_executor", "spawn_futures_executor"):
    LIFE.append(plain(_name, props=["C11", "C12"],
                      sig=f"pub fn {_name}(&mut self, concurrency_limit: u32)", sig_anchor=r"pub fn " + _name + r"<",
                      rules=SPAWN_RULES,
                      ensures="final(self).spawned_arm@ == Some(if old(self).futures_timeout.is_zero() { 0nat } else { 1nat })"))

UNIT_LIFE = Unit("executor_life", LIFE, spec=LIFE_SPEC,
                 trusted=["futures::StreamExt::for_each / for_each_concurrent, tokio::spawn, the close callback, the minstant clock (monotone): external_body shims with the contracts printed in the unit's spec"],
                 assumptions=["S-model: report_scheduled_to_finish() racing the end (a `store` that may overwrite an ended state) is NOT covered",
                              "out-of-order completion inside for_each_concurrent and real scheduling are outside the model"])
UNITS = [UNIT_ITEMS, UNIT_LIFE]


# ------------------------------------------------------------------------------------------------------------------------------------
# executor_stats: the `StreamExecutorStats` view of an executor -- what the close callback / `Multi` / `Uni` read through
# `Arc<dyn StreamExecutorStats>`. Each accessor hands out the field of ITS OWN name (C11: an outcome is reported under the counter it was
# recorded in; C12: the close callback finds the status / timestamps of this executor).
# ------------------------------------------------------------------------------------------------------------------------------------
SPEC_STATS = r"""
/// a field of the executor, tagged (ghost) with which one it is
pub struct Field { pub which: Ghost<int> }
pub struct NanosCell { pub v: u64 }
impl NanosCell { pub fn load(&self, o: Ordering) -> (r: u64) ensures r == self.v { self.v } }
pub enum ExecutorStatus { NotStarted, Running, ScheduledToFinish, ProgrammaticallyEnded, StreamEnded }
pub struct StatusCell { pub which: Ghost<int>, pub stored: Ghost<Seq<ExecutorStatus>> }
impl StatusCell {
    #[verifier::external_body]
    pub fn store(&mut self, s: ExecutorStatus, o: Ordering) ensures final(self).stored@ == old(self).stored@.push(s), final(self).which == old(self).which { }
}
pub struct StreamExecutor {
    pub executor_name: Field, pub futures_timeout: Field, pub creation_time: Field, pub executor_status: StatusCell,
    pub execution_start_delta_nanos: NanosCell, pub execution_finish_delta_nanos: NanosCell,
    pub ok_events_avg_future_duration: Field, pub timed_out_events_avg_future_duration: Field, pub failed_events_avg_future_duration: Field,
}
impl StreamExecutor {
    /// the fields are different objects
    pub open spec fn tagged(&self) -> bool {
        self.executor_name.which@ == 1 && self.futures_timeout.which@ == 2 && self.creation_time.which@ == 3 && self.executor_status.which@ == 4
        && self.ok_events_avg_future_duration.which@ == 5 && self.timed_out_events_avg_future_duration.which@ == 6 && self.failed_events_avg_future_duration.which@ == 7
    }
}
"""
F_EXEC = "src/stream_executor.rs"
IMPL_STATS = r"StreamExecutorStats\s+for\s+StreamExecutor\s*<\s*INSTRUMENTS_USIZE\s*>\s*(?=\{)"


def _stats_fn(name, sig, anchor, ensures, props, requires="self.tagged()", rules=()):
    f = FnSpec(F_EXEC, name, impl=IMPL_STATS, props=props, sig=sig, sig_anchor=anchor, requires=requires, ensures=ensures, rules=list(rules))
    f.container = "impl StreamExecutor"
    return f


FNS_STATS = [
    _stats_fn("executor_name", "pub fn executor_name(&self) -> (r: &Field)", r"fn executor_name\(&self\) -> &String", "r.which@ == 1", ["C12"]),
    _stats_fn("futures_timeout", "pub fn futures_timeout(&self) -> (r: &Field)", r"fn futures_timeout\(&self\) -> &Duration", "r.which@ == 2", ["C11"]),
    _stats_fn("creation_time", "pub fn creation_time(&self) -> (r: &Field)", r"fn creation_time\(&self\) -> &Instant", "r.which@ == 3", ["C12"]),
    _stats_fn("executor_status", "pub fn executor_status(&self) -> (r: &StatusCell)", r"fn executor_status\(&self\) -> &AtomicExecutorStatus", "r.which@ == 4", ["C12"]),
    _stats_fn("execution_start_delta_nanos", "pub fn execution_start_delta_nanos(&self) -> (r: u64)", r"fn execution_start_delta_nanos\(&self\) -> u64", "r == self.execution_start_delta_nanos.v", ["C12"]),
    _stats_fn("execution_finish_delta_nanos", "pub fn execution_finish_delta_nanos(&self) -> (r: u64)", r"fn execution_finish_delta_nanos\(&self\) -> u64", "r == self.execution_finish_delta_nanos.v", ["C12"]),
    _stats_fn("ok_events_avg_future_duration", "pub fn ok_events_avg_future_duration(&self) -> (r: &Field)", r"fn ok_events_avg_future_duration\(&self\) -> &AtomicIncrementalAverage64", "r.which@ == 5", ["C11"]),
    _stats_fn("timed_out_events_avg_future_duration", "pub fn timed_out_events_avg_future_duration(&self) -> (r: &Field)", r"fn timed_out_events_avg_future_duration\(&self\) -> &AtomicIncrementalAverage64", "r.which@ == 6", ["C11"]),
    _stats_fn("failed_events_avg_future_duration", "pub fn failed_events_avg_future_duration(&self) -> (r: &Field)", r"fn failed_events_avg_future_duration\(&self\) -> &AtomicIncrementalAverage64", "r.which@ == 7", ["C11"]),
    _stats_fn("report_scheduled_to_finish", "pub fn report_scheduled_to_finish(&mut self)", r"fn report_scheduled_to_finish\(&self\)",
              "final(self).executor_status.stored@ == old(self).executor_status.stored@.push(ExecutorStatus::ScheduledToFinish)", ["C12"], requires="old(self).tagged()"),
]
UNIT_STATS = Unit("executor_stats", FNS_STATS, spec=SPEC_STATS,
                  trusted=["the fields are opaque tagged objects; the atomic cells are exact"],
                  assumptions=["report_scheduled_to_finish racing the end of the executor (a store over an 'ended' state) is the residue of C12"])
try:
    UNITS.append(UNIT_STATS)
except NameError:
    UNITS = [UNIT, UNIT_STATS] if "UNIT" in globals() else [UNIT_STATS]
