"""Unit executor_items (V, S-model): the seven `item_processor` closures of stream_executor.rs (C11), lifted mechanically (R15) out of
their `spawn_*` functions after textual expansion of the crate's own on_*_item! macros (R13), with `INSTRUMENTS` SYMBOLIC (any usize).
Each closure body must account for its item exactly once: with metrics enabled exactly one of the three outcome counters moves by one,
the right one; the error callback runs exactly once for a failed item and never otherwise; no panic!() of the on_timed_* macros is
reachable; the body returns normally for every outcome (a failed or timed-out item does not stop later ones).

Unit executor_life (V, S-model): the six `tokio::spawn(async move { .. })` bodies + register_execution_start/finish (C12, and C11's
call-site obligations: the concurrency limit handed to for_each_concurrent, the timeout variant chosen iff futures_timeout != 0)."""
from engine.extract import FnSpec, Rule, DropChain, DropStatement
from engine.verus_run import Unit, Lemma

F = "src/stream_executor.rs"
IMPL = r"impl\s*<\s*const\s+INSTRUMENTS_USIZE\s*:\s*usize\s*>\s*StreamExecutor\s*<\s*INSTRUMENTS_USIZE\s*>\s*(?=\{)"
CONTAINER = "impl StreamExecutor"
ITEM_MACROS = ["on_non_timed_ok_item", "on_timed_ok_item", "on_non_timed_err_item", "on_timed_err_item"]

SPEC = r"""
/// shim of `Instruments` (src/instruments.rs): the bit tests are uninterpreted here; `metrics() == cheap_profiling()` for every usize is
/// decided by back end K (harness instruments::metrics_iff_cheap_profiling, loop-free over all usize) and ASSUMED in this unit
#[derive(Clone, Copy)]
pub struct Instruments { pub bits: usize }
impl Instruments {
    pub uninterp spec fn profiling(self) -> bool;
    pub uninterp spec fn logs(self) -> bool;
    pub uninterp spec fn traces(self) -> bool;
    #[verifier::external_body] pub fn cheap_profiling(self) -> (r: bool) ensures r == self.profiling() { unimplemented!() }
    #[verifier::external_body] pub fn metrics(self) -> (r: bool) ensures r == self.profiling() { unimplemented!() }
    #[verifier::external_body] pub fn logging(self) -> (r: bool) ensures r == self.logs() { unimplemented!() }
    #[verifier::external_body] pub fn tracing(self) -> (r: bool) ensures r == self.traces() { unimplemented!() }
}

/// shim of AtomicIncrementalAverage64: only the count matters here (C19 decides the real type)
pub struct AvgCounter { pub count: Ghost<nat> }
impl AvgCounter {
    #[verifier::external_body] pub fn inc(&mut self, measurement: f32) ensures final(self).count@ == old(self).count@ + 1 { }
}
impl Duration { #[verifier::external_body] pub fn as_secs_f32(&self) -> f32 { unimplemented!() } }
impl Instant { #[verifier::external_body] pub fn elapsed(&self) -> Duration { unimplemented!() } }

pub struct Item { pub v: u64 }
pub struct ErrBox { pub v: u64 }
pub struct Elapsed { pub v: u8 }
/// a pipeline item that is a future: `ok` = resolves to Ok, `slow` = does not resolve within the executor's timeout
pub struct FallibleFuture { pub ok: bool, pub slow: bool }
pub struct PlainFuture { pub slow: bool }
impl FallibleFuture {
    /// `.await` on the item (R10)
    #[verifier::external_body] pub fn resolve(self) -> (r: Result<Item, ErrBox>) ensures r is Ok <==> self.ok { unimplemented!() }
}
impl PlainFuture {
    #[verifier::external_body] pub fn resolve(self) -> Item { unimplemented!() }
}
/// ASSUMED contract of tokio::time::timeout(d, fut).await: Err(Elapsed) iff the future did not resolve in time (and it is dropped)
#[verifier::external_body]
pub fn timeout_fallible(d: Duration, f: FallibleFuture) -> (r: Result<Result<Item, ErrBox>, Elapsed>)
    ensures r is Err <==> f.slow, r matches Ok(inner) ==> (inner is Ok <==> f.ok),
{ unimplemented!() }
#[verifier::external_body]
pub fn timeout_plain(d: Duration, f: PlainFuture) -> (r: Result<Item, Elapsed>)
    ensures r is Err <==> f.slow,
{ unimplemented!() }

pub enum Outcome { Ok, Failed, TimedOut }

pub struct StreamExecutor {
    pub instruments: Instruments,
    pub futures_timeout: Duration,
    pub ok_events_avg_future_duration: AvgCounter,
    pub timed_out_events_avg_future_duration: AvgCounter,
    pub failed_events_avg_future_duration: AvgCounter,
    /// ghost: number of on_err_callback invocations
    pub err_cb_calls: Ghost<nat>,
}
impl StreamExecutor {
    /// `on_err_callback(err)` [.await]
    #[verifier::external_body]
    pub fn err_callback(&mut self, err: ErrBox)
        ensures final(self).err_cb_calls@ == old(self).err_cb_calls@ + 1, final(self).same_counters(old(self)),
                final(self).instruments == old(self).instruments, final(self).futures_timeout == old(self).futures_timeout,
    { }
    pub open spec fn same_counters(&self, o: &Self) -> bool {
        self.ok_events_avg_future_duration == o.ok_events_avg_future_duration && self.timed_out_events_avg_future_duration == o.timed_out_events_avg_future_duration
        && self.failed_events_avg_future_duration == o.failed_events_avg_future_duration
    }
    /// C11: this item was accounted for exactly once as `outcome`
    pub open spec fn accounted(&self, o: &Self, outcome: Outcome, has_err_callback: bool) -> bool {
        let m: nat = if o.instruments.profiling() { 1 } else { 0 };
        &&& self.instruments == o.instruments
        &&& self.ok_events_avg_future_duration.count@        == o.ok_events_avg_future_duration.count@        + (if outcome is Ok { m } else { 0 })
        &&& self.failed_events_avg_future_duration.count@    == o.failed_events_avg_future_duration.count@    + (if outcome is Failed { m } else { 0 })
        &&& self.timed_out_events_avg_future_duration.count@ == o.timed_out_events_avg_future_duration.count@ + (if outcome is TimedOut { m } else { 0 })
        &&& self.err_cb_calls@ == o.err_cb_calls@ + (if has_err_callback && outcome is Failed { 1nat } else { 0 })
    }
}
"""

SELF_REF = Rule("R15-self_ref", r"\bself_ref\b", "self", min=1, note="captured `self_ref` is the lifted function's &mut self")
INSTR = Rule("R15-INSTRUMENTS", r"Self::INSTRUMENTS\b", "self.instruments", min=1, note="associated const INSTRUMENTS -> symbolic field")
AWAIT_ITEM = Rule("R10-await-item", r"\bfuture_element\.await", "future_element.resolve()", count=1)
TIMEOUT_F = Rule("R10-timeout", r"\btimeout\(self\.futures_timeout, future_element\)\.await", "timeout_fallible(self.futures_timeout, future_element)", count=1)
TIMEOUT_P = Rule("R10-timeout", r"\btimeout\(self\.futures_timeout, future_element\)\.await", "timeout_plain(self.futures_timeout, future_element)", count=1)
ERRCB_ASYNC = Rule("R15-err-callback", r"\bon_err_callback_ref\(err\)\.await;", "self.err_callback(err);", min=1)
ERRCB_SYNC = Rule("R15-err-callback", r"\bon_err_callback\(err\);", "self.err_callback(err);", count=1)

OUT_FALLIBLE = "(if future_element.ok { Outcome::Ok } else { Outcome::Failed })"
OUT_FALLIBLE_T = "(if future_element.slow { Outcome::TimedOut } else if future_element.ok { Outcome::Ok } else { Outcome::Failed })"
OUT_PLAIN_T = "(if future_element.slow { Outcome::TimedOut } else { Outcome::Ok })"


def item(fnname, out, nth, anchor, sig, rules, ensures):
    f = FnSpec(F, fnname, impl=IMPL, out_name=out, block_anchor=anchor, block_nth=nth, macros=ITEM_MACROS, sig=sig, sig_anchor=r"\bfn " + fnname + r"\b",
               rules=rules, ensures=ensures, props=["C11"])
    f.container = CONTAINER
    return f


A_FUT = r"let item_processor = \|future_element\| \{\s*async move\s*(?=\{)"
ITEMS = [
    item("spawn_executor", "item_fallible_future_no_timeout", 0, A_FUT,
         "pub fn item_fallible_future_no_timeout(&mut self, mut start: Instant, future_element: FallibleFuture)",
         [SELF_REF, INSTR, AWAIT_ITEM, ERRCB_ASYNC], "final(self).accounted(old(self), " + OUT_FALLIBLE + ", true)"),
    item("spawn_executor", "item_fallible_future_with_timeout", 1, A_FUT,
         "pub fn item_fallible_future_with_timeout(&mut self, mut start: Instant, future_element: FallibleFuture)",
         [SELF_REF, INSTR, TIMEOUT_F, ERRCB_ASYNC], "final(self).accounted(old(self), " + OUT_FALLIBLE_T + ", true)"),
    item("spawn_futures_executor", "item_plain_future_no_timeout", 0, A_FUT,
         "pub fn item_plain_future_no_timeout(&mut self, mut start: Instant, future_element: PlainFuture)",
         [SELF_REF, INSTR, AWAIT_ITEM], "final(self).accounted(old(self), Outcome::Ok, false)"),
    item("spawn_futures_executor", "item_plain_future_with_timeout", 1, A_FUT,
         "pub fn item_plain_future_with_timeout(&mut self, mut start: Instant, future_element: PlainFuture)",
         [SELF_REF, INSTR, TIMEOUT_P], "final(self).accounted(old(self), " + OUT_PLAIN_T + ", false)"),
    item("spawn_fallibles_executor", "item_fallible_sync", 0, r"let item_processor = \|element\|\s*(?=\{)",
         "pub fn item_fallible_sync(&mut self, element: Result<Item, ErrBox>)",
         [INSTR, ERRCB_SYNC], "final(self).accounted(old(self), (if element is Ok { Outcome::Ok } else { Outcome::Failed }), true)"),
    item("spawn_non_futures_executor", "item_fallible_sync_no_callback", 0, r"let item_processor = \|fallible_element\|\s*(?=\{)",
         "pub fn item_fallible_sync_no_callback(&mut self, fallible_element: Result<Item, ErrBox>)",
         [INSTR], "final(self).accounted(old(self), (if fallible_element is Ok { Outcome::Ok } else { Outcome::Failed }), false)"),
    item("spawn_non_futures_non_fallibles_executor", "item_plain_sync", 0, r"let item_processor = \|yielded_item\|\s*(?=\{)",
         "pub fn item_plain_sync(&mut self, yielded_item: Item)",
         [INSTR], "final(self).accounted(old(self), Outcome::Ok, false)"),
]

UNIT_ITEMS = Unit("executor_items", ITEMS, spec=SPEC,
                  trusted=["tokio::time::timeout (Err iff the duration elapsed first; the inner future is dropped), the item futures, on_err_callback: external_body shims",
                           "Instruments::{metrics,cheap_profiling,logging,tracing}: uninterpreted; metrics()==cheap_profiling() for every usize is decided by the K harness instruments::metrics_iff_cheap_profiling"],
                  assumptions=["AtomicIncrementalAverage64::inc counts exactly one (decided under C19)",
                               "closure capture mechanics are dropped by lifting (R15): the closure body text is verified as a method taking the captured variables as parameters",
                               "futures::StreamExt::for_each / for_each_concurrent call the closure exactly once per item (assumed)"])
UNITS = [UNIT_ITEMS]
