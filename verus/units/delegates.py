"""Unit delegates (V): the `Uni` / `Multi` front ends' entry points (`send`, `send_with`, `send_with_async`, `reserve_slot`, `try_send_reserved`,
`try_cancel_slot_reserve`, `send_derived`, `pending_items_count`, `buffer_size`) against the contract that carries the channel-level properties
up to the API a user calls: each of them performs EXACTLY ONE call of the channel's operation of the same name, with the very argument it was
given, and returns that call's answer unchanged (C01 C16: an accepted / rejected send is reported as such and the payload / setter goes through
or comes back untouched; C08: the reservation answers; C02 C06: the pending count flush / close rely on; C03: Multi::send / send_derived).
The channel is a shim that logs every call in a ghost trace and answers with arbitrary values; modular: the channel's own contracts are the
business of the channel glue units."""
from engine.extract import FnSpec, Rule
from engine.verus_run import Unit

FU = "src/uni/uni.rs"
FM = "src/multi/multi.rs"
IMPL_U = r"GenericUni\s+for\s+Uni\s*<[^{]*(?=\{)"
IMPL_M = r"impl\s*<[^{]*?>\s*Multi\s*<\s*ItemType\s*,\s*MultiChannelType\s*,\s*INSTRUMENTS\s*,\s*DerivedItemType\s*>\s*(?=\{)"

SPEC = r"""
pub enum RetryResult<I> { Ok { reported_input: (), output: () }, Transient { input: I, error: () }, Fatal { input: I, error: () } }
/// an argument handed through (payload, setter closure, slot reference, derived item): only its identity matters here
#[derive(PartialEq, Eq)]
pub struct Arg { pub id: int }
pub enum Call { Send(Arg), SendWith(Arg), SendWithAsync(Arg), ReserveSlot, TrySendReserved(Arg), TryCancelSlotReserve(Arg), SendDerived(Arg), PendingItemsCount, BufferSize }
/// the wrapped channel: every operation is logged; answers are arbitrary (whatever the channel decides)
pub struct Channel { pub log: Ghost<Seq<Call>>, pub last_retry: Ghost<RetryResult<Arg>>, pub last_bool: Ghost<bool>, pub last_u32: Ghost<u32>, pub last_slot: Ghost<Option<Arg>> }
impl Channel {
    #[verifier::external_body] pub fn send(&mut self, item: Arg) -> (r: RetryResult<Arg>)
        ensures final(self).log@ == old(self).log@.push(Call::Send(item)), final(self).last_retry@ == r { unimplemented!() }
    #[verifier::external_body] pub fn send_with(&mut self, setter: Arg) -> (r: RetryResult<Arg>)
        ensures final(self).log@ == old(self).log@.push(Call::SendWith(setter)), final(self).last_retry@ == r { unimplemented!() }
    #[verifier::external_body] pub fn send_with_async(&mut self, setter: Arg) -> (r: RetryResult<Arg>)
        ensures final(self).log@ == old(self).log@.push(Call::SendWithAsync(setter)), final(self).last_retry@ == r { unimplemented!() }
    #[verifier::external_body] pub fn reserve_slot(&mut self) -> (r: Option<Arg>)
        ensures final(self).log@ == old(self).log@.push(Call::ReserveSlot), final(self).last_slot@ == r { unimplemented!() }
    #[verifier::external_body] pub fn try_send_reserved(&mut self, reserved_slot: Arg) -> (r: bool)
        ensures final(self).log@ == old(self).log@.push(Call::TrySendReserved(reserved_slot)), final(self).last_bool@ == r { unimplemented!() }
    #[verifier::external_body] pub fn try_cancel_slot_reserve(&mut self, reserved_slot: Arg) -> (r: bool)
        ensures final(self).log@ == old(self).log@.push(Call::TryCancelSlotReserve(reserved_slot)), final(self).last_bool@ == r { unimplemented!() }
    #[verifier::external_body] pub fn send_derived(&mut self, arc_item: &Arg) -> (r: bool)
        ensures final(self).log@ == old(self).log@.push(Call::SendDerived(*arc_item)), final(self).last_bool@ == r { unimplemented!() }
    #[verifier::external_body] pub fn pending_items_count(&mut self) -> (r: u32)
        ensures final(self).log@ == old(self).log@.push(Call::PendingItemsCount), final(self).last_u32@ == r { unimplemented!() }
    #[verifier::external_body] pub fn buffer_size(&mut self) -> (r: u32)
        ensures final(self).log@ == old(self).log@.push(Call::BufferSize), final(self).last_u32@ == r { unimplemented!() }
}
pub struct Front { pub channel: Channel }
"""

CONTAINER = "impl Front"


def one_call(call):
    return "final(self).channel.log@ == old(self).channel.log@.push(%s)" % call


def fns_for(prefix, file, impl, table):
    out = []
    for name, sig, anchor, call, ret, props in table:
        f = FnSpec(file, name, impl=impl, out_name=prefix + name, props=props, sig=sig.replace("fn " + name, "fn " + prefix + name), sig_anchor=anchor,
                   ensures=one_call(call) + ", " + ret)
        f.container = CONTAINER
        out.append(f)
    return out


RETRY = "r == final(self).channel.last_retry@"
UNI = [
    ("send", "pub fn send(&mut self, item: Arg) -> (r: RetryResult<Arg>)", r"fn send\(&self, item:\s*Self::ItemType\) -> keen_retry::RetryConsumerResult<\(\),\s*Self::ItemType,\s*\(\)>", "Call::Send(item)", RETRY, ["C01", "C16", "C02"]),
    ("send_with", "pub fn send_with(&mut self, setter: Arg) -> (r: RetryResult<Arg>)", r"fn send_with<F:\s*FnOnce\(&mut Self::ItemType\)>\(&self, setter:\s*F\)", "Call::SendWith(setter)", RETRY, ["C01", "C16"]),
    ("send_with_async", "pub fn send_with_async(&mut self, setter: Arg) -> (r: RetryResult<Arg>)", r"fn send_with_async<F:", "Call::SendWithAsync(setter)", RETRY, ["C01", "C16", "C20"]),
    ("reserve_slot", "pub fn reserve_slot(&mut self) -> (r: Option<Arg>)", r"fn reserve_slot\(&self\) -> Option<&mut Self::ItemType>", "Call::ReserveSlot", "r == final(self).channel.last_slot@", ["C08"]),
    ("try_send_reserved", "pub fn try_send_reserved(&mut self, reserved_slot: Arg) -> (r: bool)", r"fn try_send_reserved\(&self, reserved_slot: &mut Self::ItemType\) -> bool", "Call::TrySendReserved(reserved_slot)", "r == final(self).channel.last_bool@", ["C08", "C01"]),
    ("try_cancel_slot_reserve", "pub fn try_cancel_slot_reserve(&mut self, reserved_slot: Arg) -> (r: bool)", r"fn try_cancel_slot_reserve\(&self, reserved_slot: &mut Self::ItemType\) -> bool", "Call::TryCancelSlotReserve(reserved_slot)", "r == final(self).channel.last_bool@", ["C08"]),
    ("pending_items_count", "pub fn pending_items_count(&mut self) -> (r: u32)", r"fn pending_items_count\(&self\) -> u32", "Call::PendingItemsCount", "r == final(self).channel.last_u32@", ["C02", "C06", "C16"]),
    ("buffer_size", "pub fn buffer_size(&mut self) -> (r: u32)", r"fn buffer_size\(&self\) -> u32", "Call::BufferSize", "r == final(self).channel.last_u32@", ["C02"]),
]
MULTI = [
    ("send", "pub fn send(&mut self, item: Arg) -> (r: RetryResult<Arg>)", r"pub fn send\(&self, item: ItemType\) -> keen_retry::RetryConsumerResult<\(\), ItemType, \(\)>", "Call::Send(item)", RETRY, ["C03", "C16"]),
    ("send_with", "pub fn send_with(&mut self, setter: Arg) -> (r: RetryResult<Arg>)", r"pub fn send_with<F: FnOnce\(&mut ItemType\)>\(&self, setter: F\)", "Call::SendWith(setter)", RETRY, ["C03", "C16"]),
    ("send_derived", "pub fn send_derived(&mut self, arc_item: &Arg) -> (r: bool)", r"pub fn send_derived\(&self, arc_item: &DerivedItemType\) -> bool", "Call::SendDerived(*arc_item)", "r == final(self).channel.last_bool@", ["C03"]),
    ("pending_items_count", "pub fn pending_items_count(&mut self) -> (r: u32)", r"pub fn pending_items_count\(&self\) -> u32", "Call::PendingItemsCount", "r == final(self).channel.last_u32@", ["C06", "C03"]),
    ("buffer_size", "pub fn buffer_size(&mut self) -> (r: u32)", r"pub fn buffer_size\(&self\) -> u32", "Call::BufferSize", "r == final(self).channel.last_u32@", ["C03"]),
]

UNIT = Unit("delegates", fns_for("uni_", FU, IMPL_U, UNI) + fns_for("multi_", FM, IMPL_M, MULTI), spec=SPEC,
            trusted=["Channel::*: the wrapped channel as a logging shim with arbitrary answers (its own contracts: the channel glue units / Kani channel kit)"],
            assumptions=["arguments are represented by their identity (a payload / closure / reference is moved through, never inspected, by these wrappers)",
                         "Uni::send_with_async returns the channel's future unpolled: de-asynced here (R10)"])
