"""Units uni_movable_atomic / uni_movable_full_sync / uni_zero_copy_atomic / uni_zero_copy_full_sync (V, S-model): the glue of the four
non-crossbeam Uni channels for SYMBOLIC `BUFFER_SIZE` / `MAX_STREAMS`, verified MODULARLY: every call into the container
(`self.channel.X(..)` / `self.container.X(..)`) is checked against the CONTRACT of X -- a shim over the channel's abstract state -- and
never against its body. Those container contracts are the ones discharged elsewhere (AtomicMove: unit ring_atomic + Kani atomic_move;
FullSyncMove: unit ring_full_sync + Kani full_sync_move; the zero-copy queues: Kani atomic_zero_copy / full_sync_zero_copy + unit
pool_allocator), so here they are imported, i.e. ASSUMED at the call site and listed as such.

Abstract state of a channel: `q` = the published, not yet consumed events (in delivery order); `rs` = outstanding reservations, oldest first
(slot index, ticket id, content written so far); `out` = pool slots handed to consumers and not yet released (zero-copy kinds); `wakes[i]` /
`eff[i]` = wake-ups issued for stream i / issued WHILE an event was deliverable (a wake-up issued before the event is visible finds nothing,
C04 mechanism); `q_resume` = the queue as it was when the last suspended setter resumed.

Decided per entry point (C01 C02 C16): accept <=> room; accepted => exactly the payload / the setter's value is appended once, nothing else
changes; rejected => the very payload / un-invoked setter is handed back and the channel is unchanged. C04: an event entering an EMPTY queue
wakes stream #0 -- the only stream that exists for every admissible number of created streams -- after it is visible; every wake_stream
index is < MAX_STREAMS. C04 / C20 (resumed send): the wake decision of `send_with_async` is taken from the queue as it is AFTER the setter's
suspension. C08: reserve / send-reserved / cancel keep the reservation book. C20: what is held at the suspension point."""
import re
from engine.extract import FnSpec, Rule
from engine.verus_run import Unit
from engine.common import Undecided
from engine import rustlex as lx

SPEC = r"""
use core::num::NonZeroU32;
pub enum RetryResult<I> { Ok { reported_input: (), output: () }, Transient { input: I, error: () }, Fatal { input: I, error: () } }
/// a setter closure `FnOnce(&mut ItemType)` (or its async counterpart) with the value it will leave in the slot; applying it CONSUMES it
pub struct Setter { pub value: Ghost<u64>, pub id: Ghost<int> }
/// one outstanding reservation: the slot it occupies, its ticket id (ring sequence number / pool slot id), what was written into it so far
pub struct Resv { pub slot: usize, pub id: u32, pub content: u64 }
/// the value handed to a stream (movable kinds: the payload itself; zero-copy kinds: an OgreUnique over the pool slot)
pub struct Delivered { pub value: u64, pub slot: Ghost<int> }

pub struct Chan<const BUFFER_SIZE: usize, const MAX_STREAMS: usize> {
    pub q: Ghost<Seq<u64>>,
    pub rs: Ghost<Seq<Resv>>,
    pub out: Ghost<nat>,
    pub held: Ghost<bool>,
    pub wakes: Ghost<Seq<nat>>,
    pub eff: Ghost<Seq<nat>>,
    pub q_resume: Ghost<Seq<u64>>,
    pub suspensions: Ghost<nat>,
/*EXTRA_ATOMIC_FIELDS*/}
impl<const BUFFER_SIZE: usize, const MAX_STREAMS: usize> Chan<BUFFER_SIZE, MAX_STREAMS> {
    /// capacity in use: KIND_CAPACITY_DOC
    pub open spec fn used(&self) -> int { KIND_USED }
    /// what a suspended `send_with_async` holds that makes OTHER operations wait (C20): KIND_BLOCKING_DOC
    pub open spec fn blocking_held(&self) -> int { KIND_BLOCKING }
    pub open spec fn wf(&self) -> bool {
        &&& 1 <= MAX_STREAMS <= 0x7fff_ffff && 2 <= BUFFER_SIZE <= 0x4000_0000
        &&& self.used() <= BUFFER_SIZE
        &&& self.wakes@.len() == MAX_STREAMS && self.eff@.len() == MAX_STREAMS
        &&& forall|i: int| 0 <= i < self.rs@.len() ==> (#[trigger] self.rs@[i]).slot < BUFFER_SIZE
        &&& forall|i: int, j: int| 0 <= i < j < self.rs@.len() ==> (#[trigger] self.rs@[i]).slot != (#[trigger] self.rs@[j]).slot
        &&& KIND_WF
    }
    pub open spec fn reserved(&self, slot: usize) -> bool { exists|i: int| 0 <= i < self.rs@.len() && (#[trigger] self.rs@[i]).slot == slot }
    pub open spec fn same_streams(&self, o: &Self) -> bool { self.wakes == o.wakes && self.eff == o.eff }
    pub open spec fn same_ghost_rest(&self, o: &Self) -> bool { self.out == o.out && self.held == o.held && self.q_resume == o.q_resume && self.suspensions == o.suspensions }
    pub open spec fn unchanged(&self, o: &Self) -> bool { self.q == o.q && self.rs == o.rs && self.same_streams(o) && self.same_ghost_rest(o) }
    /// wake-ups only ever add up
    pub open spec fn wakes_monotone(&self, o: &Self) -> bool {
        forall|i: int| 0 <= i < MAX_STREAMS ==> (#[trigger] self.wakes@[i]) >= o.wakes@[i] && (#[trigger] self.eff@[i]) >= o.eff@[i]
    }

    /// `self.streams_manager.wake_stream(id)`: a `get_unchecked` on the wakers table => the index bound is an obligation (A-index); `eff` counts
    /// the wake-ups issued while something was deliverable
    #[verifier::external_body]
    pub fn wake_stream(&mut self, stream_id: u32)
        requires (stream_id as int) < MAX_STREAMS, old(self).wakes@.len() == MAX_STREAMS, old(self).eff@.len() == MAX_STREAMS,
        ensures final(self).wakes@ == old(self).wakes@.update(stream_id as int, old(self).wakes@[stream_id as int] + 1),
                final(self).eff@ == (if old(self).q@.len() > 0 { old(self).eff@.update(stream_id as int, old(self).eff@[stream_id as int] + 1) } else { old(self).eff@ }),
                final(self).q == old(self).q, final(self).rs == old(self).rs, final(self).same_ghost_rest(old(self)),
    { }

    /// writing through a reserved slot reference (`setter(slot)` / `*slot = ..`): the slot must be reserved by this caller
    #[verifier::external_body]
    pub fn slot_set(&mut self, slot: usize, setter: Setter)
        requires old(self).reserved(slot),
        ensures final(self).rs@.len() == old(self).rs@.len(), final(self).reserved(slot),
                forall|i: int| 0 <= i < old(self).rs@.len() ==> (#[trigger] final(self).rs@[i]).slot == old(self).rs@[i].slot && final(self).rs@[i].id == old(self).rs@[i].id
                    && final(self).rs@[i].content == (if old(self).rs@[i].slot == slot { setter.value@ } else { old(self).rs@[i].content }),
                final(self).q == old(self).q, final(self).same_streams(old(self)), final(self).same_ghost_rest(old(self)),
    { }

    /// the `.await` of the async setter (R10): the rest of the program runs meanwhile. KIND_SUSPEND_DOC
    #[verifier::external_body]
    pub fn suspend_point(&mut self)
        requires old(self).wf(),
        ensures final(self).wf(), final(self).rs == old(self).rs, final(self).held == old(self).held, final(self).same_streams(old(self)),
                final(self).suspensions@ == old(self).suspensions@ + 1, final(self).q_resume == final(self).q,
                KIND_SUSPEND_ENS,
    { }
    /// the same suspension point with the C20 state assertion: nothing that makes other operations WAIT may be held across it
    #[verifier::external_body]
    pub fn suspend_point_holding_nothing(&mut self)
        requires old(self).wf(), old(self).blocking_held() == 0,
        ensures final(self).wf(), final(self).rs == old(self).rs, final(self).held == old(self).held, final(self).same_streams(old(self)),
                final(self).suspensions@ == old(self).suspensions@ + 1, final(self).q_resume == final(self).q,
                KIND_SUSPEND_ENS,
    { }

    // ---------------------------------------------------------------------------------------------------------------------------------
    // the CONTAINER's contracts (imported; see the unit's `trusted` list for where each one is discharged)
    // ---------------------------------------------------------------------------------------------------------------------------------
KIND_SHIMS
}
"""

# --- container contracts per kind -----------------------------------------------------------------------------------------------------------

FRAME_STREAMS = "final(self).same_streams(old(self)), final(self).same_ghost_rest(old(self))"

MOVABLE_COMMON_SHIMS = r"""
    /// MovePublisher::publish_movable: accept <=> room; on reject the item comes back and nothing changes. Sequential precondition: no reservation of
    /// ANOTHER call is outstanding (publication is in ticket order: this call would wait for it -- documented upstream)
    #[verifier::external_body]
    pub fn ch_publish_movable(&mut self, item: u64) -> (r: (Option<NonZeroU32>, Option<u64>))
        requires old(self).wf(), old(self).rs@.len() == 0, !old(self).held@,
        ensures FRAME, final(self).rs == old(self).rs,
                old(self).used() < BUFFER_SIZE ==> r.0 is Some && r.0.unwrap().get() as int == old(self).q@.len() + 1 && r.1 is None && final(self).q@ == old(self).q@.push(item),
                old(self).used() >= BUFFER_SIZE ==> r.0 is None && r.1 == Some(item) && final(self).q == old(self).q,
    { unimplemented!() }
    /// MovePublisher::publish(setter, || false, report_len): on room the setter is applied to the reserved slot, the slot is published and THEN
    /// report_len(len_after) is called once -- returned here as the second component, the caller's closure body runs right after; on reject the
    /// un-invoked setter comes back
    #[verifier::external_body]
    pub fn ch_publish(&mut self, setter: Setter) -> (r: (Option<Setter>, Option<u32>))
        requires old(self).wf(), old(self).rs@.len() == 0, !old(self).held@,
        ensures FRAME, final(self).rs == old(self).rs,
                old(self).used() < BUFFER_SIZE ==> r.0 is None && r.1 == Some((old(self).q@.len() + 1) as u32) && final(self).q@ == old(self).q@.push(setter.value@),
                old(self).used() >= BUFFER_SIZE ==> r.0 == Some(setter) && r.1 is None && final(self).q == old(self).q,
    { unimplemented!() }
    /// publish(setter, report_full_fn, ..) with a report-full callback that may answer `true`: the container RETRIES (spins) while it does -- a rejected send must
    /// return promptly instead (C16), so any callback other than `|| false` is a failed obligation
    #[verifier::external_body]
    pub fn ch_publish_may_wait(&mut self, setter: Setter) -> (r: (Option<Setter>, Option<u32>)) requires false { unimplemented!() }
    #[verifier::external_body]
    pub fn ch_consume_movable(&mut self) -> (r: Option<u64>)
        requires !old(self).held@,
        ensures FRAME, final(self).rs == old(self).rs,
                old(self).q@.len() > 0 ==> r == Some(old(self).q@[0]) && final(self).q@ == old(self).q@.drop_first(),
                old(self).q@.len() == 0 ==> r is None && final(self).q == old(self).q,
    { unimplemented!() }
    #[verifier::external_body]
    pub fn ch_available_elements_count(&self) -> (r: usize) ensures r == self.q@.len() { unimplemented!() }
""".replace("FRAME", FRAME_STREAMS)

MOVABLE_ATOMIC_SHIMS = MOVABLE_COMMON_SHIMS + r"""
    /// AtomicMove::leak_slot_internal(|| false): reserves the next ticket while there is room (len_before counts published AND reserved entries)
    #[verifier::external_body]
    pub fn ch_leak_slot_internal(&mut self) -> (r: Option<(usize, u32, u32)>)
        requires old(self).wf(),
        ensures FRAME, final(self).q == old(self).q,
                old(self).used() < BUFFER_SIZE ==> (r matches Some((slot, id, len_before)) && len_before as int == old(self).used() && slot < BUFFER_SIZE && !old(self).reserved(slot) && (forall|i: int| 0 <= i < old(self).rs@.len() ==> (#[trigger] old(self).rs@[i]).slot != slot)
                    && final(self).rs@.len() == old(self).rs@.len() + 1 && final(self).rs@ == old(self).rs@.push(final(self).rs@.last()) && final(self).rs@.last().slot == slot && final(self).rs@.last().id == id && final(self).reserved(slot)),
                old(self).used() >= BUFFER_SIZE ==> r is None && final(self).rs == old(self).rs,
    { unimplemented!() }
    /// AtomicMove::publish_leaked_internal(id): publication is in ticket order -- sequentially `id` must be the OLDEST outstanding reservation
    /// (with an older one outstanding this call waits for it: the documented restriction, and the C20 known finding when that one is suspended)
    #[verifier::external_body]
    pub fn ch_publish_leaked_internal(&mut self, slot_id: u32)
        requires old(self).rs@.len() >= 1, old(self).rs@[0].id == slot_id,
        ensures FRAME, final(self).q@ == old(self).q@.push(old(self).rs@[0].content), final(self).rs@ == old(self).rs@.drop_first(),
    { }
    /// slot_index_from_slot_ref: slot references are represented by their index (K executes the real pointer arithmetic)
    pub fn ch_slot_index_from_slot_ref(&self, slot: usize) -> (r: u32) requires slot < BUFFER_SIZE, BUFFER_SIZE <= 0x4000_0000 ensures r as usize == slot { slot as u32 }
    /// try_publish_leaked_internal_index(i): Some(len_after) <=> the OLDEST outstanding reservation sits in slot i (unit ring_atomic: `tail % N == i`)
    #[verifier::external_body]
    pub fn ch_try_publish_leaked_internal_index(&mut self, slot_index: u32) -> (r: Option<NonZeroU32>)
        requires old(self).wf(), (slot_index as int) < BUFFER_SIZE,
        ensures FRAME,
                (old(self).rs@.len() >= 1 && old(self).rs@[0].slot == slot_index as usize) ==> r is Some && r.unwrap().get() as int == old(self).q@.len() + 1
                    && final(self).q@ == old(self).q@.push(old(self).rs@[0].content) && final(self).rs@ == old(self).rs@.drop_first(),
                !(old(self).rs@.len() >= 1 && old(self).rs@[0].slot == slot_index as usize) ==> r is None && final(self).q == old(self).q && final(self).rs == old(self).rs,
    { unimplemented!() }
    /// try_unleak_slot_index_internal(i): true <=> the NEWEST outstanding reservation sits in slot i (unit ring_atomic: `(enqueuer_tail-1) % N == i`)
    #[verifier::external_body]
    pub fn ch_try_unleak_slot_index_internal(&mut self, slot_index: u32) -> (r: bool)
        requires old(self).wf(), (slot_index as int) < BUFFER_SIZE,
        ensures FRAME, final(self).q == old(self).q,
                r <==> (old(self).rs@.len() >= 1 && old(self).rs@.last().slot == slot_index as usize),
                r ==> final(self).rs@ == old(self).rs@.drop_last(), !r ==> final(self).rs == old(self).rs,
    { unimplemented!() }
""".replace("FRAME", FRAME_STREAMS)

MOVABLE_FULL_SYNC_SHIMS = MOVABLE_COMMON_SHIMS + r"""
    /// FullSyncMove::leak_slot_internal(|| false): takes the queue-wide spin lock; Some => the lock STAYS HELD until publish_leaked_internal
    #[verifier::external_body]
    pub fn ch_leak_slot_internal(&mut self) -> (r: Option<(usize, u32, u32)>)
        requires old(self).wf(), !old(self).held@,
        ensures final(self).same_streams(old(self)), final(self).out == old(self).out, final(self).q_resume == old(self).q_resume, final(self).suspensions == old(self).suspensions, final(self).q == old(self).q,
                old(self).used() < BUFFER_SIZE ==> (r matches Some((slot, id, len_before)) && len_before as int == old(self).q@.len() && slot < BUFFER_SIZE
                    && final(self).rs@.len() == 1 && final(self).rs@[0].slot == slot && final(self).rs@[0].id == id && final(self).held@),
                old(self).used() >= BUFFER_SIZE ==> r is None && final(self).rs == old(self).rs && !final(self).held@,
    { unimplemented!() }
    #[verifier::external_body]
    pub fn ch_publish_leaked_internal(&mut self)
        requires old(self).rs@.len() == 1, old(self).held@,
        ensures final(self).same_streams(old(self)), final(self).out == old(self).out, final(self).q_resume == old(self).q_resume, final(self).suspensions == old(self).suspensions,
                final(self).q@ == old(self).q@.push(old(self).rs@[0].content), final(self).rs@ == old(self).rs@.drop_first(), !final(self).held@,
    { }
"""

ZERO_COPY_SHIMS = r"""
    /// zero-copy publish_movable / publish(setter): a pool slot is allocated, filled and its id enqueued; accept <=> the pool has a free slot (slots still
    /// held by consumers count); on reject the item / un-invoked setter comes back and nothing changes
    #[verifier::external_body]
    pub fn ch_publish_movable(&mut self, item: u64) -> (r: (Option<NonZeroU32>, Option<u64>))
        requires old(self).wf(),
        ensures FRAME, final(self).rs == old(self).rs,
                old(self).used() < BUFFER_SIZE ==> r.0 is Some && r.0.unwrap().get() as int == old(self).q@.len() + 1 && r.1 is None && final(self).q@ == old(self).q@.push(item),
                old(self).used() >= BUFFER_SIZE ==> r.0 is None && r.1 == Some(item) && final(self).q == old(self).q,
    { unimplemented!() }
    #[verifier::external_body]
    pub fn ch_publish(&mut self, setter: Setter) -> (r: (Option<NonZeroU32>, Option<Setter>))
        requires old(self).wf(),
        ensures FRAME, final(self).rs == old(self).rs,
                old(self).used() < BUFFER_SIZE ==> r.0 is Some && r.0.unwrap().get() as int == old(self).q@.len() + 1 && r.1 is None && final(self).q@ == old(self).q@.push(setter.value@),
                old(self).used() >= BUFFER_SIZE ==> r.0 is None && r.1 == Some(setter) && final(self).q == old(self).q,
    { unimplemented!() }
    /// leak_slot(): allocates a pool slot (no ring entry yet)
    #[verifier::external_body]
    pub fn ch_leak_slot(&mut self) -> (r: Option<(usize, u32)>)
        requires old(self).wf(),
        ensures FRAME, final(self).q == old(self).q,
                old(self).used() < BUFFER_SIZE ==> (r matches Some((slot, id)) && slot < BUFFER_SIZE && !old(self).reserved(slot) && (forall|i: int| 0 <= i < old(self).rs@.len() ==> (#[trigger] old(self).rs@[i]).slot != slot)
                    && final(self).rs@.len() == old(self).rs@.len() + 1 && final(self).rs@ == old(self).rs@.push(final(self).rs@.last()) && final(self).rs@.last().slot == slot && final(self).rs@.last().id == id && final(self).reserved(slot)),
                old(self).used() >= BUFFER_SIZE ==> r is None && final(self).rs == old(self).rs,
    { unimplemented!() }
    /// publish_leaked_ref(slot): enqueues the id of a slot this caller reserved -- in ANY order; cannot fail (ring capacity == pool capacity)
    #[verifier::external_body]
    pub fn ch_publish_leaked_ref(&mut self, slot: usize) -> (r: Option<NonZeroU32>)
        requires old(self).wf(), old(self).reserved(slot),
        ensures FRAME, r is Some, r.unwrap().get() as int == old(self).q@.len() + 1,
                exists|k: int| 0 <= k < old(self).rs@.len() && (#[trigger] old(self).rs@[k]).slot == slot && final(self).q@ == old(self).q@.push(old(self).rs@[k].content) && final(self).rs@ == old(self).rs@.remove(k),
    { unimplemented!() }
    /// release_leaked_ref(slot): gives a reserved slot back to the pool
    #[verifier::external_body]
    pub fn ch_release_leaked_ref(&mut self, slot: usize)
        requires old(self).wf(), old(self).reserved(slot),
        ensures FRAME, final(self).q == old(self).q,
                exists|k: int| 0 <= k < old(self).rs@.len() && (#[trigger] old(self).rs@[k]).slot == slot && final(self).rs@ == old(self).rs@.remove(k),
    { }
    /// consume_leaking(): dequeues the oldest id; its slot stays allocated until the consumer's OgreUnique is dropped
    #[verifier::external_body]
    pub fn ch_consume_leaking(&mut self) -> (r: Option<(Delivered, u32)>)
        ensures final(self).same_streams(old(self)), final(self).held == old(self).held, final(self).q_resume == old(self).q_resume, final(self).suspensions == old(self).suspensions, final(self).rs == old(self).rs,
                old(self).q@.len() > 0 ==> (r matches Some((d, id)) && d.value == old(self).q@[0]) && final(self).q@ == old(self).q@.drop_first() && final(self).out@ == old(self).out@ + 1,
                old(self).q@.len() == 0 ==> r is None && final(self).q == old(self).q && final(self).out == old(self).out,
    { unimplemented!() }
    #[verifier::external_body]
    pub fn ch_available_elements_count(&self) -> (r: usize) ensures r == self.q@.len() { unimplemented!() }
    /// OgreUnique::from_allocated_ref(slot_ref, allocator): wraps the slot; no copy
    pub fn unique_from_allocated_ref(d: Delivered) -> (r: Delivered) ensures r == d { d }
""".replace("FRAME", FRAME_STREAMS)


def spec_for(kind):
    s = SPEC
    if kind == "movable_atomic":
        sub = {"KIND_USED": "(self.q@.len() + self.rs@.len()) as int", "KIND_CAPACITY_DOC": "published + reserved ring entries",
               "KIND_BLOCKING": "self.rs@.len() as int", "KIND_BLOCKING_DOC": "an unpublished ring reservation (publication is in ticket order: every later send waits for it)",
               "KIND_WF": "self.out@ == 0 && !self.held@",
               "KIND_SUSPEND_DOC": "Movable/Atomic: consumers may take events away; no other producer can publish past this call's reservation",
               "KIND_SUSPEND_ENS": "final(self).out == old(self).out, final(self).q@.len() <= old(self).q@.len()",
               "KIND_SHIMS": MOVABLE_ATOMIC_SHIMS}
    elif kind == "movable_full_sync":
        sub = {"KIND_USED": "self.q@.len() as int", "KIND_CAPACITY_DOC": "published ring entries (a reservation exists only while the lock is held)",
               "KIND_BLOCKING": "if self.held@ { 1int } else { 0int }", "KIND_BLOCKING_DOC": "the queue-wide spin lock (every other operation spins on it)",
               "KIND_WF": "self.out@ == 0 && self.rs@.len() <= 1 && (self.held@ <==> self.rs@.len() == 1)",
               "KIND_SUSPEND_DOC": "Movable/FullSync: the lock is held, so nobody else touches the queue",
               "KIND_SUSPEND_ENS": "final(self).out == old(self).out, final(self).q == old(self).q",
               "KIND_SHIMS": MOVABLE_FULL_SYNC_SHIMS}
    else:
        sub = {"KIND_USED": "(self.q@.len() + self.rs@.len() + self.out@) as int", "KIND_CAPACITY_DOC": "pool slots: enqueued + reserved + still held by consumers",
               "KIND_BLOCKING": "if self.held@ { 1int } else { 0int }", "KIND_BLOCKING_DOC": "nothing: a reserved POOL slot consumes capacity but makes nobody wait",
               "KIND_WF": "!self.held@",
               "KIND_SUSPEND_DOC": "zero-copy: producers and consumers run freely; only this call's pool slot stays reserved",
               "KIND_SUSPEND_ENS": "true",
               "KIND_SHIMS": ZERO_COPY_SHIMS}
    for k in sorted(sub, key=len, reverse=True):
        s = s.replace(k, sub[k])
    return s


# --- rewrite rules ---------------------------------------------------------------------------------------------------------------------------

class MapTail(Rule):
    """R18: tail expression `RECV .map(|p| B)` / `RECV .map(|p| B).unwrap_or(D)` on an Option -> a `match` (closures cannot capture the ghost state)"""

    def __init__(self):
        Rule.__init__(self, "R18-option-map", r"\.\s*map\s*\(", "", count=1, note="Option::map(closure)[.unwrap_or(d)] -> match")

    def apply(self, text, where, log):
        m = lx.mask(text)
        mm = re.search(self.pattern, m)
        if not mm:
            raise Undecided(f"rewrite rule {self.rid} applied 0x in {where}, expected 1x -- the code's shape changed; contract needs review")
        o = mm.end() - 1
        c = lx.match_close(m, o)
        ma = re.match(r"\s*\|\s*(.*?)\s*\|\s*(.*)$", text[o + 1:c], re.S)
        rest = text[c + 1:].strip()
        mu = re.fullmatch(r"\.\s*unwrap_or\s*\((.*)\)\s*;?", rest, re.S) or re.fullmatch(r"\.\s*unwrap_or_else\s*\(\s*\|\|\s*(.*)\)\s*;?", rest, re.S)
        if not ma or not (rest in ("", ";") or mu):
            raise Undecided(f"{where}: .map(..) is not the tail expression with a one-parameter closure -- contract needs review")
        log[self.rid] = log.get(self.rid, 0) + 1
        # the receiver = the tail expression: everything after the last statement separator at nesting depth 0
        k, depth, start = mm.start() - 1, 0, 0
        while k >= 0:
            ch = m[k]
            if ch in ")]}":
                depth += 1
            elif ch in "([{":
                depth -= 1
            elif ch == ";" and depth == 0:
                start = k + 1; break
            k -= 1
        head, recv = text[:start], text[start:mm.start()].strip()
        if mu:
            return head + "\n        match (" + recv + ") { Some(" + ma.group(1) + ") => " + ma.group(2).strip() + ", None => " + mu.group(1).strip() + " }\n"
        return head + "\n        match (" + recv + ") { Some(" + ma.group(1) + ") => Some(" + ma.group(2).strip() + "), None => None }\n"


class PublishWithReport(Rule):
    """R15: `self.C.publish(setter, || false, |len_after| BODY)` -> the container contract's two results, BODY run right after the call when a length is
    reported (the contract of MovePublisher::publish: report_len_after_enqueueing_fn is called once, AFTER the publication; unit ring_* / Kani)"""

    def __init__(self):
        Rule.__init__(self, "R15-publish-report", r"self\.(?:channel|container)\.publish\s*\(", "", count=1, note="publish(setter, || false, |len_after| BODY) -> ch_publish(setter) + BODY after the call")

    def apply(self, text, where, log):
        m = lx.mask(text)
        mm = re.search(self.pattern, m)
        if not mm:
            raise Undecided(f"rewrite rule {self.rid} applied 0x in {where}, expected 1x -- the code's shape changed; contract needs review")
        o = mm.end() - 1
        c = lx.match_close(m, o)
        args = [a.strip() for a in lx.split_args(text[o + 1:c])]
        if len(args) != 3 or args[0] != "setter" or not re.match(r"\|\|", args[1]):
            raise Undecided(f"{where}: publish(..) is not called as (setter, || .., |len_after| ..) -- contract needs review")
        never_retry = bool(re.fullmatch(r"\|\|\s*false", args[1]))
        ma = re.match(r"\|\s*(\w+)\s*\|\s*(\{.*\})$", args[2], re.S)
        if not ma:
            raise Undecided(f"{where}: the length-report argument of publish(..) is not a one-parameter closure with a block body -- contract needs review")
        log[self.rid] = log.get(self.rid, 0) + 1
        callee = "ch_publish" if never_retry else "ch_publish_may_wait"
        repl = "{ let (setter_option__, reported__) = self." + callee + "(setter); match reported__ { Some(" + ma.group(1) + ") => " + ma.group(2) + ", None => {} } setter_option__ }"
        return text[:mm.start()] + repl + text[c + 1:]


R_RETRY = Rule("R3-retry-path", r"\bkeen_retry::RetryResult::", "RetryResult::", min=0, note="keen_retry::RetryResult -> the unit's plain enum with the same variants")
R_WAKE = Rule("R6-wake", r"\bself\.streams_manager\.wake_stream\(", "self.wake_stream(", min=0, note="wake_stream -> shim over the channel's ghost state (index bound + 'issued while an event was deliverable')")
R_CH = Rule("R6-container", r"\bself\.(?:channel|container)\.(\w+)\(", r"self.ch_\1(", min=0, note="container call -> the container's CONTRACT (modular: callee contract, not body)")
R_NOFULL = Rule("R15-nofull", r"\bself\.(channel|container)\.leak_slot_internal\(\|\| false\)", r"self.\1.leak_slot_internal()", min=0, note="report_full_fn = || false (never retry) is part of the imported contract")
R_EXPECT = Rule("R9-expect", r"\.expect\(\"[^\"]*\"\)", ".unwrap()", min=0, note="expect -> unwrap: reachability of the BUG! panic becomes an obligation")
COMMON = [R_RETRY, R_WAKE, R_NOFULL, R_CH, R_EXPECT]


def setter_rules(async_variant, strict):
    sp = "self.suspend_point_holding_nothing();" if strict else "self.suspend_point();"
    return Rule("R10-setter-await", r"(?:let slot = )?setter\(slot\)\.await;", sp + " self.slot_set(slot, setter);", count=1,
                note="`setter(slot).await` -> suspension point (the environment acts) + slot_set (the setter is consumed: invoked exactly once)")


LET_ELSE = Rule("R8-let-else", r"let Some\((\w+)\) = (self\.ch_\w+\([^;{}]*\)) else \{\s*vpanic\(\);?\s*\};", r"let \1 = match \2 { Some(v__) => v__, None => { vpanic() } };", count=1,
                note="let-else with a panicking else -> match (reachability of the panic is the obligation)")

# --- contracts ---------------------------------------------------------------------------------------------------------------------------------

WAKE_EMPTY = "old(self).q@.len() == 0 && (r is Ok) ==> final(self).eff@[0] > old(self).eff@[0]"
MONO = "final(self).wakes_monotone(old(self))"


def channel_fns(kind, file, impl_p, impl_c, chan_field):
    movable = kind.startswith("movable")
    atomic = kind.endswith("atomic")
    container = "impl<const BUFFER_SIZE: usize, const MAX_STREAMS: usize> Chan<BUFFER_SIZE, MAX_STREAMS>"

    def fn(name, impl=impl_p, **kw):
        f = FnSpec(file, name, impl=impl, **kw)
        f.container = container
        return f

    seq_pre = "old(self).wf()" + (", old(self).rs@.len() == 0" if movable else "")
    fns = []
    # send ---------------------------------------------------------------------------------------------------------------------------------
    fns.append(fn("send", props=["C01", "C02", "C04", "C16"],
                  sig="pub fn send(&mut self, item: u64) -> (r: RetryResult<u64>)", sig_anchor=r"fn send\(&self, item: ItemType\) -> keen_retry::RetryConsumerResult<\(\), ItemType, \(\)>",
                  rules=COMMON, requires=seq_pre,
                  ensures="final(self).wf(), final(self).rs == old(self).rs, final(self).same_ghost_rest(old(self)), " + MONO + ","
                          "old(self).used() < BUFFER_SIZE ==> r is Ok && final(self).q@ == old(self).q@.push(item),"
                          "old(self).used() >= BUFFER_SIZE ==> (r matches RetryResult::Transient { input, .. } && input == item) && final(self).unchanged(old(self)),"
                          + WAKE_EMPTY))
    # send_with ----------------------------------------------------------------------------------------------------------------------------
    fns.append(fn("send_with", props=["C01", "C04", "C16"],
                  sig="pub fn send_with(&mut self, setter: Setter) -> (r: RetryResult<Setter>)", sig_anchor=r"fn send_with<F: FnOnce\(&mut ItemType\)>\(&self, setter: F\)",
                  rules=([PublishWithReport()] if movable else []) + COMMON, requires=seq_pre,
                  ensures="final(self).wf(), final(self).rs == old(self).rs, final(self).same_ghost_rest(old(self)), " + MONO + ","
                          "old(self).used() < BUFFER_SIZE ==> r is Ok && final(self).q@ == old(self).q@.push(setter.value@),"
                          "old(self).used() >= BUFFER_SIZE ==> (r matches RetryResult::Transient { input, .. } && input == setter) && final(self).unchanged(old(self)),"
                          + WAKE_EMPTY))
    # send_with_async ----------------------------------------------------------------------------------------------------------------------
    async_ens = ("final(self).wf(), final(self).rs == old(self).rs, " + MONO + ","
                 # rejected before anything happened: the un-invoked setter comes back, no suspension, nothing changed
                 "old(self).used() >= BUFFER_SIZE ==> (r matches RetryResult::Transient { input, .. } && input == setter) && final(self).unchanged(old(self)),"
                 # accepted: exactly one suspension; the event is appended to the queue AS IT IS AFTER THE SUSPENSION
                 "old(self).used() < BUFFER_SIZE ==> r is Ok && final(self).suspensions@ == old(self).suspensions@ + 1 && final(self).q@ == final(self).q_resume@.push(setter.value@),"
                 # C04 / C20: the resumed send completing into a drained queue wakes stream #0 (the one stream that exists whatever number was created)
                 "(r is Ok) && final(self).q_resume@.len() == 0 ==> final(self).eff@[0] > old(self).eff@[0]")
    for strict in (False, True):
        rules = COMMON + [setter_rules(True, strict)] + ([] if movable else [LET_ELSE])
        fns.append(fn("send_with_async", out_name="send_with_async_holds_nothing" if strict else "send_with_async",
                      props=["C20"] if strict else ["C01", "C04", "C16", "C20"], kind="property",
                      sig="pub fn %s(&mut self, setter: Setter) -> (r: RetryResult<Setter>)" % ("send_with_async_holds_nothing" if strict else "send_with_async"),
                      sig_anchor=r"async fn send_with_async<F:", rules=rules, requires=seq_pre,
                      ensures=("final(self).wf()" if strict else async_ens)))
    # reserved slots -----------------------------------------------------------------------------------------------------------------------
    if kind != "movable_full_sync":
        fns.append(fn("reserve_slot", props=["C08", "C16"],
                      sig="pub fn reserve_slot(&mut self) -> (r: Option<usize>)", sig_anchor=r"fn reserve_slot\(&self\) -> Option<&mut ItemType>",
                      rules=COMMON + [MapTail()], requires="old(self).wf()",
                      ensures="final(self).wf(), final(self).q == old(self).q, final(self).same_streams(old(self)), final(self).same_ghost_rest(old(self)),"
                              "old(self).used() < BUFFER_SIZE ==> (r matches Some(slot) && !old(self).reserved(slot) && final(self).reserved(slot) && final(self).rs@.len() == old(self).rs@.len() + 1 && final(self).rs@ == old(self).rs@.push(final(self).rs@.last())),"
                              "old(self).used() >= BUFFER_SIZE ==> r is None && final(self).rs == old(self).rs"))
        if movable:
            tsr_ens = ("r ==> old(self).rs@[0].slot == reserved_slot && final(self).q@ == old(self).q@.push(old(self).rs@[0].content) && final(self).rs@ == old(self).rs@.drop_first(),"
                       "!r ==> final(self).q == old(self).q && final(self).rs == old(self).rs,"
                       "old(self).rs@[0].slot == reserved_slot ==> r,")
            tcr_ens = ("r ==> old(self).rs@.last().slot == reserved_slot && final(self).rs@ == old(self).rs@.drop_last(), !r ==> final(self).rs == old(self).rs,"
                       "old(self).rs@.last().slot == reserved_slot ==> r,")
        else:
            tsr_ens = ("r, exists|k: int| 0 <= k < old(self).rs@.len() && (#[trigger] old(self).rs@[k]).slot == reserved_slot && final(self).q@ == old(self).q@.push(old(self).rs@[k].content) && final(self).rs@ == old(self).rs@.remove(k),")
            tcr_ens = ("r, exists|k: int| 0 <= k < old(self).rs@.len() && (#[trigger] old(self).rs@[k]).slot == reserved_slot && final(self).rs@ == old(self).rs@.remove(k),")
        fns.append(fn("try_send_reserved", props=["C08", "C04", "C01"],
                      sig="pub fn try_send_reserved(&mut self, reserved_slot: usize) -> (r: bool)", sig_anchor=r"fn try_send_reserved\(&self, reserved_slot: &mut ItemType\) -> bool",
                      rules=COMMON + [MapTail()], requires="old(self).wf(), old(self).reserved(reserved_slot)",
                      ensures="final(self).wf(), final(self).same_ghost_rest(old(self)), " + MONO + "," + tsr_ens +
                              "r && old(self).q@.len() == 0 ==> final(self).eff@[0] > old(self).eff@[0]"))
        fns.append(fn("try_cancel_slot_reserve", props=["C08", "C16"],
                      sig="pub fn try_cancel_slot_reserve(&mut self, reserved_slot: usize) -> (r: bool)", sig_anchor=r"fn try_cancel_slot_reserve\(&self, reserved_slot: &mut ItemType\) -> bool",
                      rules=COMMON, requires="old(self).wf(), old(self).reserved(reserved_slot)",
                      ensures="final(self).wf(), final(self).q == old(self).q, final(self).same_streams(old(self)), final(self).same_ghost_rest(old(self))," + tcr_ens.rstrip(",")))
    # consume / pending ---------------------------------------------------------------------------------------------------------------------
    if movable:
        fns.append(fn("consume", impl=impl_c, props=["C01", "C02"],
                      sig="pub fn consume(&mut self, _stream_id: u32) -> (r: Option<u64>)", sig_anchor=r"fn consume\(&self, _stream_id: u32\) -> Option<ItemType>",
                      rules=COMMON, requires="old(self).wf(), !old(self).held@",
                      ensures="final(self).rs == old(self).rs, final(self).same_streams(old(self)), final(self).same_ghost_rest(old(self)),"
                              "old(self).q@.len() > 0 ==> r == Some(old(self).q@[0]) && final(self).q@ == old(self).q@.drop_first(),"
                              "old(self).q@.len() == 0 ==> r is None && final(self).q == old(self).q"))
    else:
        fns.append(fn("consume", impl=impl_c, props=["C01", "C02"],
                      sig="pub fn consume(&mut self, _stream_id: u32) -> (r: Option<Delivered>)", sig_anchor=r"fn consume\(&self, _stream_id: u32\) -> Option<OgreUnique<ItemType, OgreAllocatorType>>",
                      rules=[Rule("R7-ogre-unique", r"OgreUnique::<ItemType, OgreAllocatorType>::from_allocated_ref\((\w+), &self\.channel\.allocator\)", r"Self::unique_from_allocated_ref(\1)", count=1,
                                  note="OgreUnique::from_allocated_ref -> identity on the delivered slot (Kani ogre_unique decides the handle)")] + COMMON + [MapTail()],
                      requires="old(self).wf()",
                      ensures="final(self).rs == old(self).rs, final(self).same_streams(old(self)),"
                              "old(self).q@.len() > 0 ==> (r matches Some(d) && d.value == old(self).q@[0]) && final(self).q@ == old(self).q@.drop_first() && final(self).out@ == old(self).out@ + 1,"
                              "old(self).q@.len() == 0 ==> r is None && final(self).q == old(self).q && final(self).out == old(self).out"))
    # pending_items_count: what flush / close poll (C06) and what C02 / C16 call "pending": the number of published, not yet consumed events
    impl_common = impl_p.replace("ChannelProducer", "ChannelCommon")
    fns.append(fn("pending_items_count", impl=impl_common, props=["C02", "C06", "C16", "C15"],
                  sig="pub fn pending_items_count(&self) -> (r: u32)", sig_anchor=r"fn pending_items_count\(&self\) -> u32",
                  rules=COMMON, requires="self.wf()", ensures="r as int == self.q@.len()"))
    fns.append(fn("buffer_size", impl=impl_common, props=["C02"],
                  sig="pub fn buffer_size(&self) -> (r: u32)", sig_anchor=r"fn buffer_size\(&self\) -> u32",
                  requires="self.wf()", ensures="r as int == BUFFER_SIZE"))
    return fns


KNOWN_FIELDS = {"streams_manager", "channel", "container", "_phantom", "_phanrom", "tx", "rx"}


def spec_with_real_atomics(spec, file, struct):
    """the channel struct's ATOMIC fields the contract does not know (none on the unchanged tree) become plain atomic cells with an unconstrained value in the
    verified struct (A-model reading: whatever other threads made of them), so an entry point whose answer depends on one fails its postcondition instead
    of failing to type-check"""
    def build(repo):
        import os
        from engine.common import read
        path = os.path.join(repo, file)
        if not os.path.exists(path):
            raise Undecided(f"{file} not found")
        fields = lx.struct_fields(read(path), struct)
        if fields is None:
            raise Undecided(f"{file}: struct {struct} not found")
        extra = ""
        for name, ty in fields:
            mt = re.fullmatch(r"(?:std::sync::atomic::)?(AtomicU32|AtomicU64|AtomicUsize|AtomicBool)", ty)
            if mt and name not in KNOWN_FIELDS:
                extra += f"    pub {name}: {mt.group(1)},\n"
        return spec.replace("/*EXTRA_ATOMIC_FIELDS*/", extra)
    return build


def mk_unit(kind, file, struct, chan_field, container_trusted):
    impl_p = r"ChannelProducer\s*<[^{]*?>\s*for\s+%s\s*<[^{]*(?=\{)" % struct
    impl_c = r"ChannelConsumer\s*<[^{]*?>\s*for\s+%s\s*<[^{]*(?=\{)" % struct
    return Unit("uni_" + kind, channel_fns(kind, file, impl_p, impl_c, chan_field), spec=spec_with_real_atomics(spec_for(kind), file, struct),
                trusted=container_trusted + ["wake_stream / slot_set / suspend_point: shims over the channel's ghost state (streams manager: units streams_manager / streams_bookkeeping + Kani streams_manager)"],
                assumptions=["S-model between suspension points; at the async setter's .await the environment acts as the kind allows (see suspend_point)",
                             "the container contracts are imported, not re-proved here (modular verification: callers see the callee's contract only)",
                             "payloads are modelled as u64 values, slot references as slot indices"])


UNITS = [
    mk_unit("movable_atomic", "src/uni/channels/movable/atomic.rs", "Atomic", "channel",
            ["ch_* (AtomicMove<ItemType, BUFFER_SIZE>): publish_movable / publish / leak_slot_internal / publish_leaked_internal / try_publish_leaked_internal_index / "
             "try_unleak_slot_index_internal / consume_movable / available_elements_count -- discharged by unit ring_atomic (counters, symbolic size) and the Kani atomic_move harnesses (values, real unsafe code)"]),
    mk_unit("movable_full_sync", "src/uni/channels/movable/full_sync.rs", "FullSync", "container",
            ["ch_* (FullSyncMove<ItemType, BUFFER_SIZE>): publish_movable / publish / leak_slot_internal / publish_leaked_internal / consume_movable -- discharged by unit ring_full_sync and the Kani full_sync_move harnesses"]),
    mk_unit("zero_copy_atomic", "src/uni/channels/zero_copy/atomic.rs", "Atomic", "channel",
            ["ch_* (AtomicZeroCopy): publish_movable / publish / leak_slot / publish_leaked_ref / release_leaked_ref / consume_leaking -- discharged by the Kani atomic_zero_copy harnesses + units pool_allocator, ring_atomic"]),
    mk_unit("zero_copy_full_sync", "src/uni/channels/zero_copy/full_sync.rs", "FullSync", "channel",
            ["ch_* (FullSyncZeroCopy): publish_movable / publish / leak_slot / publish_leaked_ref / release_leaked_ref / consume_leaking -- discharged by the Kani full_sync_zero_copy harnesses + units pool_allocator, ring_full_sync"]),
]
