"""Units zero_copy_atomic / zero_copy_full_sync (V, S-model): the zero-copy queues `AtomicZeroCopy` / `FullSyncZeroCopy` for a SYMBOLIC
BUFFER_SIZE, verified MODULARLY against the contracts of their two parts -- the pool allocator (`BoundedOgreAllocator`: proved by unit
pool_allocator + the Kani pool harnesses) and the ring of slot ids (`MoveContainer<u32>`: units ring_atomic / ring_full_sync + Kani).

Abstract state: the allocator's `free` / `out` (ids handed out), the ring's sequence `q` of ids, `content` (ghost: what was written into a
slot). COUPLING INVARIANT `wf`: the ids in the ring are distinct and all handed out. Consequences proved here for every size and every state:
  * an id this caller owns (handed out, not enqueued) can ALWAYS be enqueued -- the ring cannot be full (lemma_room: |q| < |out| <= N), so the
    `BUG!` panics of the zero-copy channels are unreachable and a rejected publish never loses a pool slot (C16);
  * publish / publish_movable accept <=> the pool has a free slot; on success exactly the written value is the new last event; on reject the
    very item / un-invoked setter comes back and NOTHING changed (C01 C02 C16);
  * consume_leaking yields the oldest id and its slot, still allocated; consume() reads the slot BEFORE releasing it (mechanism, C18: the
    non-blocking queue's dequeue is built on it); release makes the id allocatable again exactly once (C05 C13).
These units close the chain Uni channel glue -> zero-copy queue -> ring / pool, each link checked against the next link's contract only."""
import re
from engine.extract import FnSpec, Rule
from engine.verus_run import Unit, Lemma
from engine.common import Undecided
from engine import rustlex as lx

SPEC = r"""
use core::num::NonZeroU32;
/// a setter closure `FnOnce(&mut SlotType)`; applying it CONSUMES it (invoked once) and leaves `value` in the slot
pub struct Setter { pub value: Ghost<u64> }

/// the pool allocator seen through its CONTRACT (imported: unit pool_allocator proves exactly these clauses for OgreArrayPoolAllocator)
pub struct Alloc<const BUFFER_SIZE: usize> { pub free: Ghost<Seq<u32>>, pub out: Ghost<Set<u32>>, pub dropped: Ghost<Seq<u32>> }
impl<const BUFFER_SIZE: usize> Alloc<BUFFER_SIZE> {
    pub open spec fn wf(&self) -> bool {
        &&& self.out@.finite() && self.free@.no_duplicates()
        &&& forall|i: int| 0 <= i < self.free@.len() ==> (#[trigger] self.free@[i] as int) < BUFFER_SIZE && !self.out@.contains(self.free@[i])
        &&& forall|id: u32| self.out@.contains(id) ==> (id as int) < BUFFER_SIZE
        &&& self.free@.len() + self.out@.len() == BUFFER_SIZE
    }
    #[verifier::external_body]
    pub fn alloc_ref(&mut self) -> (r: Option<(usize, u32)>)
        requires old(self).wf(),
        ensures final(self).wf(), final(self).dropped == old(self).dropped,
                old(self).free@.len() > 0 ==> (r matches Some((slot, id)) && id == old(self).free@[0] && slot == id as usize && !old(self).out@.contains(id)
                    && final(self).out@ == old(self).out@.insert(id) && final(self).free@ == old(self).free@.drop_first()),
                old(self).free@.len() == 0 ==> r is None && final(self).free == old(self).free && final(self).out == old(self).out,
    { unimplemented!() }
    #[verifier::external_body]
    pub fn dealloc_id(&mut self, slot_id: u32)
        requires old(self).wf(), old(self).out@.contains(slot_id),
        ensures final(self).wf(), final(self).free@ == old(self).free@.push(slot_id), final(self).out@ == old(self).out@.remove(slot_id), final(self).dropped@ == old(self).dropped@.push(slot_id),
    { }
    #[verifier::external_body]
    pub fn dealloc_ref(&mut self, slot: usize)
        requires old(self).wf(), slot < BUFFER_SIZE, old(self).out@.contains(slot as u32),
        ensures final(self).wf(), final(self).free@ == old(self).free@.push(slot as u32), final(self).out@ == old(self).out@.remove(slot as u32), final(self).dropped@ == old(self).dropped@.push(slot as u32),
    { }
    #[verifier::external_body]
    pub fn id_from_ref(&self, slot: usize) -> (r: u32) requires slot < BUFFER_SIZE ensures r as usize == slot { unimplemented!() }
    #[verifier::external_body]
    pub fn ref_from_id(&self, slot_id: u32) -> (r: usize) ensures (slot_id as int) < BUFFER_SIZE ==> r == slot_id as usize, r < BUFFER_SIZE { unimplemented!() }
}
/// the ring of slot ids seen through its CONTRACT (bounded FIFO; imported: ring_atomic / ring_full_sync + Kani ring harnesses)
pub struct Ring<const BUFFER_SIZE: usize> { pub q: Ghost<Seq<u32>> }
impl<const BUFFER_SIZE: usize> Ring<BUFFER_SIZE> {
    #[verifier::external_body]
    pub fn publish_movable(&mut self, item: u32) -> (r: (Option<NonZeroU32>, Option<u32>))
        ensures old(self).q@.len() < BUFFER_SIZE ==> r.0 is Some && r.0.unwrap().get() as int == old(self).q@.len() + 1 && r.1 is None && final(self).q@ == old(self).q@.push(item),
                old(self).q@.len() >= BUFFER_SIZE ==> r.0 is None && r.1 == Some(item) && final(self).q == old(self).q,
    { unimplemented!() }
    #[verifier::external_body]
    pub fn consume_movable(&mut self) -> (r: Option<u32>)
        ensures old(self).q@.len() > 0 ==> r == Some(old(self).q@[0]) && final(self).q@ == old(self).q@.drop_first(),
                old(self).q@.len() == 0 ==> r is None && final(self).q == old(self).q,
    { unimplemented!() }
    #[verifier::external_body]
    pub fn available_elements_count(&self) -> (r: usize) ensures r == self.q@.len() { unimplemented!() }
}

pub struct ZeroCopy<const BUFFER_SIZE: usize> {
    pub allocator: Alloc<BUFFER_SIZE>,
    pub queue: Ring<BUFFER_SIZE>,
    /// ghost (R7): what was written into each pool slot
    pub content: Ghost<Map<u32, u64>>,
    /// ghost: what the length-report / empty-report callbacks of consume() were told
    pub reports: Ghost<Seq<int>>,
}
impl<const BUFFER_SIZE: usize> ZeroCopy<BUFFER_SIZE> {
    pub open spec fn q(&self) -> Seq<u32> { self.queue.q@ }
    pub open spec fn out(&self) -> Set<u32> { self.allocator.out@ }
    /// coupling invariant: the enqueued ids are distinct and all of them are handed out by the allocator
    pub open spec fn wf(&self) -> bool {
        &&& 2 <= BUFFER_SIZE <= 0x4000_0000 && self.allocator.wf()
        &&& self.q().no_duplicates()
        &&& forall|i: int| 0 <= i < self.q().len() ==> self.out().contains(#[trigger] self.q()[i])
    }
    /// the events a consumer will be handed, in order
    pub open spec fn events(&self) -> Seq<u64> { Seq::new(self.q().len(), |i: int| self.content@[self.q()[i]]) }
    /// this caller owns the id: handed out and not (yet) enqueued
    pub open spec fn owns(&self, id: u32) -> bool { self.out().contains(id) && !self.q().contains(id) }
    pub open spec fn same_ghost(&self, o: &Self) -> bool { self.content == o.content && self.reports == o.reports }

    /// `ptr::write(slot_ref, item)` / `setter(slot_ref)` (R7): the slot must be owned by this caller
    #[verifier::external_body]
    pub fn slot_write(&mut self, slot: usize, value: u64)
        requires slot < BUFFER_SIZE, old(self).owns(slot as u32),
        ensures final(self).content@ == old(self).content@.insert(slot as u32, value), final(self).allocator == old(self).allocator, final(self).queue == old(self).queue, final(self).reports == old(self).reports,
    { }
    #[verifier::external_body]
    pub fn slot_set(&mut self, slot: usize, setter: Setter)
        requires slot < BUFFER_SIZE, old(self).owns(slot as u32),
        ensures final(self).content@ == old(self).content@.insert(slot as u32, setter.value@), final(self).allocator == old(self).allocator, final(self).queue == old(self).queue, final(self).reports == old(self).reports,
    { }
    /// `getter_fn(slot_ref)` (R7): reading a slot requires that it is STILL ALLOCATED (a released slot may already belong to somebody else)
    #[verifier::external_body]
    pub fn slot_get(&self, slot: usize) -> (r: u64)
        requires slot < BUFFER_SIZE, self.out().contains(slot as u32),
        ensures r == self.content@[slot as u32],
    { unimplemented!() }
    #[verifier::external_body]
    pub fn report(&mut self, v: i32)
        ensures final(self).reports@ == old(self).reports@.push(v as int), final(self).allocator == old(self).allocator, final(self).queue == old(self).queue, final(self).content == old(self).content,
    { }
    #[verifier::external_body]
    pub fn report_empty(&mut self)
        ensures final(self).reports@ == old(self).reports@.push(-1int), final(self).allocator == old(self).allocator, final(self).queue == old(self).queue, final(self).content == old(self).content,
    { }
}

/// distinct elements of a finite set: no more of them than the set has
pub proof fn lemma_distinct_within(q: Seq<u32>, s: Set<u32>)
    requires q.no_duplicates(), s.finite(), forall|i: int| 0 <= i < q.len() ==> s.contains(#[trigger] q[i]),
    ensures q.len() <= s.len(),
    decreases q.len(),
{
    if q.len() > 0 {
        let x = q.last();
        let q2 = q.drop_last();
        let s2 = s.remove(x);
        assert forall|i: int| 0 <= i < q2.len() implies s2.contains(#[trigger] q2[i]) by {
            assert(q2[i] == q[i]);
            assert(q[i] != q[q.len() - 1]);
        }
        assert(q2.no_duplicates());
        lemma_distinct_within(q2, s2);
        assert(s.contains(x));
    }
}
/// ROOM LEMMA: an id that is handed out but not enqueued can always be enqueued (|q| < |out| <= BUFFER_SIZE)
pub proof fn lemma_room<const BUFFER_SIZE: usize>(z: &ZeroCopy<BUFFER_SIZE>, id: u32)
    requires z.wf(), z.owns(id),
    ensures z.q().len() < BUFFER_SIZE,
{
    let s2 = z.out().remove(id);
    assert forall|i: int| 0 <= i < z.q().len() implies s2.contains(#[trigger] z.q()[i]) by {
        assert(z.out().contains(z.q()[i]));
        assert(z.q().contains(z.q()[i]));
    }
    lemma_distinct_within(z.q(), s2);
}
"""


class MapTail(Rule):
    """R18: tail expression `RECV .map(|p| B)` on an Option -> a `match` (closures cannot capture the ghost state)"""

    def __init__(self):
        Rule.__init__(self, "R18-option-map", r"\.\s*map\s*\(", "", count=1, note="Option::map(closure) -> match")

    def apply(self, text, where, log):
        m = lx.mask(text)
        mm = re.search(self.pattern, m)
        if not mm:
            raise Undecided(f"rewrite rule {self.rid} applied 0x in {where}, expected 1x -- the code's shape changed; contract needs review")
        o = mm.end() - 1
        c = lx.match_close(m, o)
        ma = re.match(r"\s*\|\s*(.*?)\s*\|\s*(.*)$", text[o + 1:c], re.S)
        if not ma or text[c + 1:].strip() not in ("", ";"):
            raise Undecided(f"{where}: .map(..) is not the tail expression with a one-parameter closure -- contract needs review")
        log[self.rid] = log.get(self.rid, 0) + 1
        return "\n        match (" + text[:mm.start()].strip() + ") { Some(" + ma.group(1) + ") => Some(" + ma.group(2).strip() + "), None => None }\n"


def units_for(kind, file, struct):
    IMPL_PUB = r"MetaPublisher\s*<\s*'a\s*,\s*SlotType\s*>\s*for\s+%s\s*<[^{]*(?=\{)" % struct
    IMPL_SUB = r"MetaSubscriber\s*<\s*'a\s*,\s*SlotType\s*>\s*for\s+%s\s*<[^{]*(?=\{)" % struct
    container = "impl<const BUFFER_SIZE: usize> ZeroCopy<BUFFER_SIZE>"

    def fn(name, impl=IMPL_PUB, **kw):
        f = FnSpec(file, name, impl=impl, **kw)
        f.container = container
        return f

    FRAME_Q = "final(self).queue == old(self).queue, final(self).same_ghost(old(self))"
    PUB_OK = ("old(self).allocator.free@.len() > 0 ==> r.0 is Some && r.1 is None && r.0.unwrap().get() as int == old(self).q().len() + 1,"
              "old(self).allocator.free@.len() > 0 ==> final(self).q() == old(self).q().push(old(self).allocator.free@[0]),"
              "old(self).allocator.free@.len() > 0 ==> final(self).events() =~= old(self).events().push(%s),"
              "old(self).allocator.free@.len() > 0 ==> final(self).out() == old(self).out().insert(old(self).allocator.free@[0]) && final(self).allocator.free@ == old(self).allocator.free@.drop_first(),")
    PUB_REJ = "old(self).allocator.free@.len() == 0 ==> r.0 is None && r.1 == Some(%s) && final(self).allocator == old(self).allocator && final(self).queue == old(self).queue && final(self).content == old(self).content,"
    HINT_EVENTS = ("proof { assert(self.owns(slot_id)); assert forall|i: int| 0 <= i < self.q().len() implies #[trigger] self.q()[i] != slot_id by { assert(self.q().contains(self.q()[i])); } }")
    fns = [
        fn("leak_slot", props=["C01", "C08", "C16", "C13"],
           sig="pub fn leak_slot(&mut self) -> (r: Option<(usize, u32)>)", sig_anchor=r"fn leak_slot\(&self\) -> Option<\(\s*&mut SlotType,\s*u32\)>",
           requires="old(self).wf()",
           ensures="final(self).wf(), " + FRAME_Q + ","
                   "old(self).allocator.free@.len() > 0 ==> (r matches Some((slot, id)) && id == old(self).allocator.free@[0] && slot == id as usize && slot < BUFFER_SIZE && !old(self).out().contains(id) && final(self).owns(id)"
                   "   && final(self).out() == old(self).out().insert(id) && final(self).allocator.free@ == old(self).allocator.free@.drop_first()),"
                   "old(self).allocator.free@.len() == 0 ==> r is None && final(self).allocator == old(self).allocator",
           tail="\n"),
        fn("publish_leaked_id", props=["C01", "C02", "C08", "C16"],
           sig="pub fn publish_leaked_id(&mut self, slot_id: u32) -> (r: Option<NonZeroU32>)", sig_anchor=r"fn publish_leaked_id\(&'a self, slot_id: u32\) -> Option<NonZeroU32>",
           pre_body="\n        proof { lemma_room(self, slot_id); }\n",
           requires="old(self).wf(), old(self).owns(slot_id)",
           # cannot fail: the ring has room for every id that is handed out
           ensures="final(self).wf(), final(self).allocator == old(self).allocator, final(self).same_ghost(old(self)),"
                   "r is Some, r.unwrap().get() as int == old(self).q().len() + 1, final(self).q() == old(self).q().push(slot_id)"),
        fn("publish_leaked_ref", props=["C01", "C08", "C16"],
           sig="pub fn publish_leaked_ref(&mut self, slot: usize) -> (r: Option<NonZeroU32>)", sig_anchor=r"fn publish_leaked_ref\(&'a self, slot: &'a SlotType\) -> Option<NonZeroU32>",
           rules=[Rule("R5-two-phase", r"self\.publish_leaked_id\(self\.allocator\.id_from_ref\(slot\)\)", "{ let id__ = self.allocator.id_from_ref(slot); self.publish_leaked_id(id__) }", count=1,
                       note="nested &self calls -> sequenced (S-model &mut self)")],
           requires="old(self).wf(), slot < BUFFER_SIZE, old(self).owns(slot as u32)",
           ensures="final(self).wf(), final(self).allocator == old(self).allocator, final(self).same_ghost(old(self)),"
                   "r is Some, r.unwrap().get() as int == old(self).q().len() + 1, final(self).q() == old(self).q().push(slot as u32)"),
        fn("publish_movable", props=["C01", "C02", "C16", "C18"],
           sig="pub fn publish_movable(&mut self, item: u64) -> (r: (Option<NonZeroU32>, Option<u64>))", sig_anchor=r"fn publish_movable\(&self, item: SlotType\) -> \(Option<NonZeroU32>, Option<SlotType>\)",
           rules=[Rule("R7-write", r"unsafe \{ std::ptr::write\(slot_ref, item\); \}", "self.slot_write(slot_ref, item); " + HINT_EVENTS, count=1, note="ptr::write -> slot_write (the slot must be owned by this caller)")],
           requires="old(self).wf()",
           ensures="final(self).wf(), final(self).reports == old(self).reports," + PUB_OK % "item" + PUB_REJ % "item"),
        fn("publish", props=["C01", "C16"],
           sig="pub fn publish(&mut self, setter: Setter) -> (r: (Option<NonZeroU32>, Option<Setter>))", sig_anchor=r"fn publish<F: FnOnce\(&mut SlotType\)>\(&self, setter: F\) -> \(Option<NonZeroU32>, Option<F>\)",
           rules=[Rule("R7-setter", r"setter\(slot_ref\);", "self.slot_set(slot_ref, setter); " + HINT_EVENTS, count=1, note="setter call -> slot_set (consumed: invoked exactly once; the slot must be owned by this caller)")],
           requires="old(self).wf()",
           ensures="final(self).wf(), final(self).reports == old(self).reports," + PUB_OK % "setter.value@" + PUB_REJ % "setter"),
        fn("unleak_slot_id", props=["C08", "C16", "C13"],
           sig="pub fn unleak_slot_id(&mut self, slot_id: u32)", sig_anchor=r"fn unleak_slot_id\(&'a self, slot_id: u32\)",
           requires="old(self).wf(), old(self).owns(slot_id)",
           ensures="final(self).wf(), " + FRAME_Q + ", final(self).out() == old(self).out().remove(slot_id), final(self).allocator.free@ == old(self).allocator.free@.push(slot_id)",
           tail="\n        proof { assert forall|i: int| 0 <= i < self.q().len() implies #[trigger] self.q()[i] != slot_id by { assert(old(self).q().contains(self.q()[i])); } }\n"),
        fn("unleak_slot_ref", props=["C08", "C16"],
           sig="pub fn unleak_slot_ref(&mut self, slot: usize)", sig_anchor=r"fn unleak_slot_ref\(&'a self, slot: &'a mut SlotType\)",
           requires="old(self).wf(), slot < BUFFER_SIZE, old(self).owns(slot as u32)",
           ensures="final(self).wf(), " + FRAME_Q + ", final(self).out() == old(self).out().remove(slot as u32)",
           tail="\n        proof { assert forall|i: int| 0 <= i < self.q().len() implies #[trigger] self.q()[i] != slot as u32 by { assert(old(self).q().contains(self.q()[i])); } }\n"),
        fn("available_elements_count", props=["C02", "C16"],
           sig="pub fn available_elements_count(&self) -> (r: usize)", sig_anchor=r"fn available_elements_count\(&self\) -> usize",
           ensures="r == self.q().len()"),
        fn("consume_leaking", impl=IMPL_SUB, props=["C01", "C02", "C18"],
           sig="pub fn consume_leaking(&mut self) -> (r: Option<(usize, u32)>)", sig_anchor=r"fn consume_leaking\(&'a self\) -> Option<\(\s*&'a SlotType,\s*u32\)>",
           rules=[MapTail(), Rule("R6-reborrow", r"\(&\*self\.allocator\.ref_from_id\(slot_id\), slot_id\)", "(self.allocator.ref_from_id(slot_id), slot_id)", count=1, note="`&*` re-borrow of the slot reference dropped (slot references are indices)")],
           requires="old(self).wf()",
           ensures="final(self).wf(), final(self).allocator == old(self).allocator, final(self).same_ghost(old(self)),"
                   "old(self).q().len() > 0 ==> (r matches Some((slot, id)) && id == old(self).q()[0] && slot == id as usize && final(self).owns(id)) && final(self).q() == old(self).q().drop_first()"
                   "   && final(self).events() =~= old(self).events().drop_first(),"
                   "old(self).q().len() == 0 ==> r is None && final(self).queue == old(self).queue",
           tail="\n"),
        fn("release_leaked_id", impl=IMPL_SUB, props=["C01", "C05", "C13", "C18"],
           sig="pub fn release_leaked_id(&mut self, slot_id: u32)", sig_anchor=r"fn release_leaked_id\(&'a self, slot_id: u32\)",
           requires="old(self).wf(), old(self).owns(slot_id)",
           ensures="final(self).wf(), " + FRAME_Q + ", final(self).out() == old(self).out().remove(slot_id), final(self).allocator.free@ == old(self).allocator.free@.push(slot_id),"
                   "final(self).allocator.dropped@ == old(self).allocator.dropped@.push(slot_id)",
           tail="\n        proof { assert forall|i: int| 0 <= i < self.q().len() implies #[trigger] self.q()[i] != slot_id by { assert(old(self).q().contains(self.q()[i])); } }\n"),
        fn("release_leaked_ref", impl=IMPL_SUB, props=["C01", "C05", "C08"],
           sig="pub fn release_leaked_ref(&mut self, slot: usize)", sig_anchor=r"fn release_leaked_ref\(&'a self, slot: &'a SlotType\)",
           rules=[Rule("R6-unsafecell-cast", r"let mutable_slot = unsafe \{ &mut \*\(\*\(slot as \*const SlotType as \*const std::cell::UnsafeCell<SlotType>\)\)\.get\(\) \};", "let mutable_slot = slot;", count=1,
                       note="& -> &mut cast through UnsafeCell dropped (K executes it)")],
           requires="old(self).wf(), slot < BUFFER_SIZE, old(self).owns(slot as u32)",
           ensures="final(self).wf(), " + FRAME_Q + ", final(self).out() == old(self).out().remove(slot as u32)",
           tail="\n        proof { assert forall|i: int| 0 <= i < self.q().len() implies #[trigger] self.q()[i] != slot as u32 by { assert(old(self).q().contains(self.q()[i])); } }\n"),
        # MetaSubscriber::consume: what the non-blocking queues' dequeue is built on. The getter READS THE SLOT BEFORE IT IS RELEASED (mechanism:
        # after the release another thread may own and overwrite the slot), the slot is released exactly once, the oldest event is returned
        fn("consume", impl=IMPL_SUB, props=["C18", "C01", "C05", "C13"],
           sig="pub fn consume(&mut self) -> (r: Option<u64>)", sig_anchor=r"fn consume<GetterReturnType: 'a,",
           rules=[Rule("R15-getter", r"getter_fn\(slot_ref\)", "self.slot_get(slot_ref)", count=1, note="getter_fn(slot_ref) -> slot_get (reads the slot; requires it to be still allocated)"),
                  Rule("R15-report-len", r"report_len_after_dequeueing_fn\(([^()]*)\);", r"self.report(\1);", count=1, note="length-report callback -> ghost log"),
                  Rule("R15-report-empty", r"report_empty_fn\(\);", "self.report_empty();", count=1, note="empty-report callback -> ghost log")],
           pre_body="\n        proof { lemma_distinct_within(self.q(), self.out()); }\n",
           requires="old(self).wf()",
           ensures="final(self).wf(), final(self).content == old(self).content,"
                   "old(self).q().len() > 0 ==> r == Some(old(self).events()[0]),"
                   "old(self).q().len() > 0 ==> final(self).q() == old(self).q().drop_first() && final(self).out() == old(self).out().remove(old(self).q()[0]),"
                   "old(self).q().len() > 0 ==> final(self).allocator.free@ == old(self).allocator.free@.push(old(self).q()[0]),"
                   "old(self).q().len() > 0 ==> final(self).reports@ == old(self).reports@.push(old(self).q().len() - 1),"
                   "old(self).q().len() == 0 ==> r is None && final(self).queue == old(self).queue && final(self).allocator == old(self).allocator"),
    ]
    return Unit("zero_copy_" + kind, fns, spec=SPEC,
                lemmas=[Lemma("lemma_distinct_within", ["C16", "C01"], clauses=["distinct elements of a finite set are at most as many as the set has (induction)"]),
                        Lemma("lemma_room", ["C16", "C01", "C08"], clauses=["coupling invariant => an id that is handed out and not enqueued can always be enqueued: |q| < BUFFER_SIZE"])],
                trusted=["Alloc::alloc_ref / dealloc_id / dealloc_ref / id_from_ref / ref_from_id: the BoundedOgreAllocator contract -- discharged for OgreArrayPoolAllocator by unit pool_allocator (symbolic size) and the Kani ogre_array_pool_allocator harnesses",
                         "Ring::publish_movable / consume_movable / available_elements_count: the MoveContainer<u32> contract -- discharged by unit ring_%s and the Kani %s_move harnesses" % (("atomic", "atomic") if kind == "atomic" else ("full_sync", "full_sync"))],
                assumptions=["slot references are represented by their index; payloads by u64 values (K executes the real pointer code with a drop-counting payload)",
                             "S-model: one thread between calls; interleavings on the atomic kind are NOT decided (full-sync kind: all schedules modulo LK, DESIGN §3.4)"])


UNITS = [
    units_for("atomic", "src/ogre_std/ogre_queues/atomic/atomic_zero_copy.rs", "AtomicZeroCopy"),
    units_for("full_sync", "src/ogre_std/ogre_queues/full_sync/full_sync_zero_copy.rs", "FullSyncZeroCopy"),
]
