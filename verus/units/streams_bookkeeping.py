"""Unit streams_bookkeeping (V, S-model): the non-async stream-id bookkeeping of StreamsManagerBase for a SYMBOLIC MAX_STREAMS
(DESIGN §3.3 Inv_SM; C10 C03 C06 C07): `sync_vacant_and_used_streams` (three nested loops with inductive invariants: the live list is
EXACTLY the ascending complement of the vacant ids, padded with the sentinel), `create_stream_id`, `report_stream_dropped`.
The vacant-id FIFO (a FullSyncMove<u32, MAX_STREAMS>) is abstracted to its ghost sequence through three shims whose contracts are the
ones back end K / unit ring_full_sync decide on the real ring; Vec::sort_unstable and slice::Iter::next are assumed std contracts."""
from engine.extract import FnSpec, Rule, InlineCellAlias
from engine.verus_run import Unit

F = "src/streams_manager.rs"
IMPL = r"impl\s*<\s*const\s+MAX_STREAMS\s*:\s*usize\s*>\s*StreamsManagerBase\s*<\s*MAX_STREAMS\s*>\s*(?=\{)"
CONTAINER = "impl<const MAX_STREAMS: usize> StreamsManagerBase<MAX_STREAMS>"

SPEC = r"""
pub open spec fn sorted_le(s: Seq<u32>) -> bool { forall|a: int, b: int| 0 <= a < b < s.len() ==> s[a] <= s[b] }
pub open spec fn sorted_strict(s: Seq<u32>) -> bool { forall|a: int, b: int| 0 <= a < b < s.len() ==> s[a] < s[b] }

/// ASSUMED std contract: `<[u32]>::sort_unstable` leaves a sorted permutation (stated through the consequences the proof uses)
#[verifier::external_body]
pub fn sort_unstable_u32(v: &mut Vec<u32>)
    ensures sorted_le(final(v)@), final(v)@.len() == old(v)@.len(), forall|x: u32| final(v)@.contains(x) == old(v)@.contains(x),
            old(v)@.no_duplicates() ==> final(v)@.no_duplicates(),
{ v.sort_unstable() }

/// ASSUMED std contract of `slice::Iter::next` (R16): the iterator is an index cursor over the slice
pub fn iter_next<'a>(v: &'a Vec<u32>, cursor: &mut usize) -> (r: Option<&'a u32>)
    requires *old(cursor) <= v@.len(),
    ensures *old(cursor) < v@.len() ==> r == Some(&v@[*old(cursor) as int]) && *final(cursor) == *old(cursor) + 1,
            *old(cursor) >= v@.len() ==> r is None && *final(cursor) == *old(cursor),
{ if *cursor < v.len() { let r = &v[*cursor]; *cursor = *cursor + 1; Some(r) } else { None } }

pub struct StreamsManagerBase<const MAX_STREAMS: usize> {
    pub used_streams: [u32; MAX_STREAMS],
    pub keep_streams_running: [bool; MAX_STREAMS],
    pub waker_set: [bool; MAX_STREAMS],
    pub used_streams_count: AtomicU32, pub created_streams_count: AtomicU32, pub finished_streams_count: AtomicU32,
    /// abstract view of `vacant_streams` (FIFO of free ids)
    pub vacant: Ghost<Seq<u32>>,
    /// ghost: THIS thread holds streams_lock / wakers_lock
    pub streams_held: Ghost<bool>, pub wakers_held: Ghost<bool>,
}

impl<const MAX_STREAMS: usize> StreamsManagerBase<MAX_STREAMS> {
    pub open spec fn vacant_wf(&self) -> bool {
        &&& MAX_STREAMS <= 0x7fff_ffff
        &&& self.vacant@.no_duplicates()
        &&& forall|j: int| 0 <= j < self.vacant@.len() ==> (#[trigger] self.vacant@[j] as int) < MAX_STREAMS
    }
    /// number of live streams
    pub open spec fn cnt(&self) -> int { MAX_STREAMS - self.vacant@.len() }
    /// Inv_SM, the live list: used_streams[0..cnt) is EXACTLY the set of non-vacant ids, strictly ascending; the rest is the sentinel
    pub open spec fn synced(&self) -> bool {
        &&& 0 <= self.cnt()
        &&& forall|k: int| 0 <= k < self.cnt() ==> (#[trigger] self.used_streams@[k] as int) < MAX_STREAMS && !self.vacant@.contains(self.used_streams@[k])
        &&& forall|a: int, b: int| 0 <= a < b < self.cnt() ==> self.used_streams@[a] < self.used_streams@[b]
        &&& forall|k: int| self.cnt() <= k < MAX_STREAMS ==> self.used_streams@[k] == u32::MAX
        &&& forall|x: u32| (x as int) < MAX_STREAMS && !self.vacant@.contains(x) ==> exists|k: int| 0 <= k < self.cnt() && self.used_streams@[k] == x
    }
    pub open spec fn inv(&self) -> bool {
        self.vacant_wf() && self.synced() && self.used_streams_count@ as int == self.cnt() && !self.streams_held@ && !self.wakers_held@
    }
    pub open spec fn same_but_lists(&self, o: &Self) -> bool {
        self.keep_streams_running == o.keep_streams_running && self.waker_set == o.waker_set && self.used_streams_count == o.used_streams_count
        && self.created_streams_count == o.created_streams_count && self.finished_streams_count == o.finished_streams_count && self.wakers_held == o.wakers_held
    }

    /// `ogre_sync::lock(&self.streams_lock)` / unlock: ghost `held` flag (mutual exclusion itself is ASSUMED: LK3)
    #[verifier::external_body]
    pub fn lock_streams(&mut self) requires !old(self).streams_held@ ensures final(self).streams_held@, final(self).used_streams == old(self).used_streams, final(self).vacant == old(self).vacant, final(self).same_but_lists(old(self)) { }
    #[verifier::external_body]
    pub fn unlock_streams(&mut self) requires old(self).streams_held@ ensures !final(self).streams_held@, final(self).used_streams == old(self).used_streams, final(self).vacant == old(self).vacant, final(self).same_but_lists(old(self)) { }
    #[verifier::external_body]
    pub fn lock_wakers(&mut self) requires !old(self).wakers_held@ ensures final(self).wakers_held@, final(self).used_streams == old(self).used_streams, final(self).vacant == old(self).vacant, final(self).streams_held == old(self).streams_held,
        final(self).keep_streams_running == old(self).keep_streams_running, final(self).waker_set == old(self).waker_set, final(self).used_streams_count == old(self).used_streams_count, final(self).created_streams_count == old(self).created_streams_count, final(self).finished_streams_count == old(self).finished_streams_count { }
    #[verifier::external_body]
    pub fn unlock_wakers(&mut self) requires old(self).wakers_held@ ensures !final(self).wakers_held@, final(self).used_streams == old(self).used_streams, final(self).vacant == old(self).vacant, final(self).streams_held == old(self).streams_held,
        final(self).keep_streams_running == old(self).keep_streams_running, final(self).waker_set == old(self).waker_set, final(self).used_streams_count == old(self).used_streams_count, final(self).created_streams_count == old(self).created_streams_count, final(self).finished_streams_count == old(self).finished_streams_count { }

    /// `unsafe { self.vacant_streams.peek_remaining().concat() }`: the FIFO's content in order (K: peek_remaining's two slices concatenate to the sequence)
    #[verifier::external_body]
    pub fn vacant_concat(&self) -> (v: Vec<u32>) ensures v@ == self.vacant@ { unimplemented!() }
    /// `self.vacant_streams.consume_movable()`: FIFO pop (contract decided by K / ring_full_sync on the real FullSyncMove)
    #[verifier::external_body]
    pub fn vacant_consume(&mut self) -> (r: Option<u32>)
        ensures old(self).vacant@.len() > 0 ==> r == Some(old(self).vacant@[0]) && final(self).vacant@ == old(self).vacant@.drop_first(),
                old(self).vacant@.len() == 0 ==> r is None && final(self).vacant@ == old(self).vacant@,
                final(self).used_streams == old(self).used_streams, final(self).same_but_lists(old(self)), final(self).streams_held == old(self).streams_held,
    { unimplemented!() }
    /// `self.vacant_streams.publish_movable(id)`: FIFO push; its result is IGNORED by the caller, so "not full" is a precondition here
    #[verifier::external_body]
    pub fn vacant_publish(&mut self, id: u32)
        requires old(self).vacant@.len() < MAX_STREAMS,
        ensures final(self).vacant@ == old(self).vacant@.push(id),
                final(self).used_streams == old(self).used_streams, final(self).same_but_lists(old(self)), final(self).streams_held == old(self).streams_held,
    { }
}
"""

ALIAS = InlineCellAlias()
LOCK_S = Rule("LK-acquire", r"ogre_sync::lock\(&self\.streams_lock\);", "self.lock_streams();", count=1, note="streams_lock acquisition -> lock_streams()")
UNLOCK_S = Rule("LK-release", r"ogre_sync::unlock\(&self\.streams_lock\);", "self.unlock_streams();", count=1, note="streams_lock release -> unlock_streams()")
LOCK_W = Rule("LK-acquire-w", r"ogre_sync::lock\(&self\.wakers_lock\);", "self.lock_wakers();", count=1)
UNLOCK_W = Rule("LK-release-w", r"ogre_sync::unlock\(&self\.wakers_lock\);", "self.unlock_wakers();", count=1)
FOR_LABEL = Rule("R12-for-label", r"\bfor\s+(\w+)\s+in\s+(?!it_)", r"for \1 in it_\1: ", min=0, note="ghost iterator label for loop invariants")

SYNC_FRAME = "self.same_but_lists(old(self)), self.vacant == old(self).vacant, self.streams_held@"
VAC = ("sorted_strict(vacant@), vacant@.len() == self.vacant@.len(), forall|j: int| 0 <= j < vacant@.len() ==> (#[trigger] vacant@[j] as int) < MAX_STREAMS, "
       "forall|x: u32| vacant@.contains(x) == self.vacant@.contains(x), MAX_STREAMS <= 0x7fff_ffff")

WITNESS = lambda bound, newval: ("proof { let l = last_used_stream_id as int; assert(self.used_streams@[l] == " + newval + ");"
                                 " assert forall|x: u32| x < " + bound + " && !vacant@.contains(x) implies exists|k: int| 0 <= k <= l && self.used_streams@[k] == x by {"
                                 " if x == " + newval + " { assert(self.used_streams@[l] == x); } else { let k0 = choose|k: int| 0 <= k <= l - 1 && prev_us@[k] == x; assert(self.used_streams@[k0] == x); } } }")


def fn(name, **kw):
    f = FnSpec(F, name, impl=IMPL, **kw)
    f.container = CONTAINER
    return f


NEW_RULES = [
    Rule("R6-vacant-init", r"vacant_streams:\s*\{.*?vacant_streams\s*\}\s*,", "vacant: Ghost(Seq::new(MAX_STREAMS as nat, |i: int| i as u32)),", count=1,
         note="constructor block of the vacant-id FIFO (publishes 0..MAX_STREAMS in order: decided by K on FullSyncMove) -> its ghost sequence"),
    Rule("R6-cell-pin", r"UnsafeCell::new\(Box::pin\((\[[^\]]*\])\)\)", r"\1", count=2, note="UnsafeCell<Pin<Box<[T; N]>>> -> [T; N]"),
    Rule("R6-wakers-init", r"wakers:\s*UnsafeCell::new\(Box::pin\(\(0\.\.MAX_STREAMS\)\.map\(\|_\| Option::<Waker>::None\)\.collect::<Vec<_>>\(\)\.try_into\(\)\.unwrap\(\)\)\),",
         "waker_set: [false; MAX_STREAMS],", count=1, note="array of None wakers -> 'no waker registered' flags"),
    Rule("R6-locks", r"(wakers_lock|streams_lock):\s*AtomicBool::new\(false\),", lambda m: ("wakers_held" if m.group(1) == "wakers_lock" else "streams_held") + ": Ghost(false),", count=2, note="lock words -> ghost held flags (initially free)"),
    Rule("R9-name", r"streams_manager_name:\s*streams_manager_name\.into\(\),", "", count=1, note="log-only name dropped"),
    Rule("R-bind-result", r"^\s*Self \{", "let r = Self {", count=1, note="the struct literal is bound to `r` so that ghost proof hints can follow it"),
]

FNS = [
    # C06 / C10: a fresh manager has no live stream, no keep-running flag set (is_channel_open() is false until a stream exists and false again
    # after a close), every id vacant in ascending order, the live list all-sentinel, the running count 0
    fn("new", props=["C06", "C10", "C07"],
       sig="pub fn new() -> (r: Self)", sig_anchor=r"pub fn new<IntoString: Into<String>>\(streams_manager_name: IntoString\) -> Self",
       rules=NEW_RULES,
       requires="MAX_STREAMS <= 0x7fff_ffff",
       ensures="r.inv(), r.vacant@.len() == MAX_STREAMS, forall|i: int| 0 <= i < MAX_STREAMS ==> r.vacant@[i] == i as u32,"
               "forall|i: int| 0 <= i < MAX_STREAMS ==> !r.keep_streams_running@[i] && !r.waker_set@[i] && r.used_streams@[i] == u32::MAX,"
               "r.used_streams_count@ == 0",
       tail="; proof { assert forall|x: u32| (x as int) < MAX_STREAMS implies r.vacant@.contains(x) by { assert(r.vacant@[x as int] == x); }"
            " assert(r.vacant@.no_duplicates()); } r"),
    fn("sync_vacant_and_used_streams", props=["C10", "C03", "C06", "C07"],
       sig="pub fn sync_vacant_and_used_streams(&mut self)", sig_anchor=r"fn sync_vacant_and_used_streams\(&self\)",
       rules=[ALIAS, LOCK_S, UNLOCK_S,
              Rule("R6-peek-concat", r"unsafe \{ self\.vacant_streams\.peek_remaining\(\)\.concat\(\) \}", "self.vacant_concat()", count=1, note="FIFO content -> shim (ghost sequence)"),
              Rule("R14-sort", r"\bvacant\s*\.\s*sort_unstable\(\s*\)\s*;", "sort_unstable_u32(&mut vacant);", min=0, note="sort_unstable -> assumed std contract"),
              Rule("R16-iter", r"let mut vacant_iter = vacant\.iter\(\);", "let mut vacant_iter: usize = 0;", count=1, note="slice iterator -> index cursor"),
              Rule("R16-next", r"\bvacant_iter\.next\(\)", "iter_next(&vacant, &mut vacant_iter)", count=1, note="Iterator::next -> assumed std contract over the cursor"),
              Rule("R-literal-type", r"let\s+mut\s+last_used_stream_id\s*=\s*-\s*1\s*;", "let mut last_used_stream_id: i32 = -1;", count=1, note="integer literal type as rustc infers it (i32 fallback)"),
              Rule("R6-get_unchecked_mut", r"unsafe \{ \*self\.used_streams\.get_unchecked_mut\(([^;{}]*?)\)\s*=\s*([^;{}]+?)\s*\};", r"self.used_streams[\1] = \2;", count=3,
                   note="get_unchecked_mut(i) = v -> [i] = v: the bound becomes an obligation"),
              Rule("LK1-assert-held", r"(?m)^(\s*)(?=self\.used_streams\[)", r"\1assert(self.streams_held@); ", count=3, note="every write to the live list is preceded by assert(streams_lock held)")],
       requires="old(self).vacant_wf(), !old(self).streams_held@",
       ensures="final(self).synced(), final(self).vacant == old(self).vacant, final(self).same_but_lists(old(self)), !final(self).streams_held@",
       hints=[(r"sort_unstable_u32\(&mut vacant\);", "proof { assert forall|j: int| 0 <= j < vacant@.len() implies (#[trigger] vacant@[j] as int) < MAX_STREAMS by {"
                                                   " let x = vacant@[j]; assert(vacant@.contains(x)); assert(self.vacant@.contains(x)); let m = choose|m: int| 0 <= m < self.vacant@.len() && self.vacant@[m] == x; assert((self.vacant@[m] as int) < MAX_STREAMS); } }"),
              (r"for i in it_i:", "proof { if vacant_iter < vacant@.len() { assert(vacant@[vacant_iter as int] >= i); assert((vacant@[vacant_iter as int] as int) < MAX_STREAMS); } assert(vacant_iter == vacant@.len()); }", "before"),
              (r"for used_stream_id in[^{]*\{", "let ghost prev_us = self.used_streams; proof { assert(used_stream_id == it_used_stream_id.iter.start); assert(!vacant@.contains(used_stream_id)); }"),
              (r"self\.used_streams\[last_used_stream_id as usize\] = used_stream_id;", WITNESS("it_used_stream_id.iter.start + 1", "used_stream_id")),
              (r"i = \*next_vacant_stream_id \+ 1;", "proof { assert(vacant@[vacant_iter - 1] == *next_vacant_stream_id); assert(vacant@.contains(*next_vacant_stream_id)); }"),
              (r"None\s*=>\s*\{", "let ghost prev_us = self.used_streams; proof { assert(!vacant@.contains(i)); }"),
              (r"self\.used_streams\[last_used_stream_id as usize\] = i;", WITNESS("i + 1", "i")),
              (r"for i in[^{]*\{", "let ghost prev_us = self.used_streams;"),
              (r"self\.used_streams\[i\] = u32::MAX;", "proof { assert forall|x: u32| (x as int) < MAX_STREAMS && !self.vacant@.contains(x) implies exists|k: int| 0 <= k < self.cnt() && self.used_streams@[k] == x by {"
                                                      " let k0 = choose|k: int| 0 <= k < self.cnt() && prev_us@[k] == x; assert(self.used_streams@[k0] == x); } }"),
              ],
       loops={0: "invariant " + SYNC_FRAME + ", " + VAC + ","
                 " 0 <= vacant_iter <= vacant@.len(), i <= MAX_STREAMS,"
                 " forall|j: int| 0 <= j < vacant_iter ==> vacant@[j] < i, forall|j: int| vacant_iter <= j < vacant@.len() ==> vacant@[j] >= i,"
                 " last_used_stream_id + 1 == i - vacant_iter, -1 <= last_used_stream_id,"
                 " forall|k: int| 0 <= k <= last_used_stream_id ==> (#[trigger] self.used_streams@[k]) < i && !vacant@.contains(self.used_streams@[k]),"
                 " forall|a: int, b: int| 0 <= a < b <= last_used_stream_id ==> self.used_streams@[a] < self.used_streams@[b],"
                 " forall|x: u32| x < i && !vacant@.contains(x) ==> exists|k: int| 0 <= k <= last_used_stream_id && self.used_streams@[k] == x,\n"
                 "decreases MAX_STREAMS - i,",
              1: "invariant " + SYNC_FRAME + ", " + VAC + ","
                 " 1 <= vacant_iter <= vacant@.len(), *next_vacant_stream_id == vacant@[vacant_iter - 1], (*next_vacant_stream_id as int) < MAX_STREAMS,"
                 " it_used_stream_id.iter.end == *next_vacant_stream_id, i <= it_used_stream_id.iter.start, it_used_stream_id.iter.start <= it_used_stream_id.iter.end,"
                 " forall|j: int| 0 <= j < vacant_iter - 1 ==> vacant@[j] < i,"
                 " last_used_stream_id + 1 == it_used_stream_id.iter.start - (vacant_iter - 1), -1 <= last_used_stream_id,"
                 " forall|k: int| 0 <= k <= last_used_stream_id ==> (#[trigger] self.used_streams@[k]) < it_used_stream_id.iter.start && !vacant@.contains(self.used_streams@[k]),"
                 " forall|a: int, b: int| 0 <= a < b <= last_used_stream_id ==> self.used_streams@[a] < self.used_streams@[b],"
                 " forall|x: u32| x < it_used_stream_id.iter.start && !vacant@.contains(x) ==> exists|k: int| 0 <= k <= last_used_stream_id && self.used_streams@[k] == x,\n"
                 "ensures " + SYNC_FRAME + ","
                 " last_used_stream_id + 1 == *next_vacant_stream_id - (vacant_iter - 1), -1 <= last_used_stream_id,"
                 " forall|k: int| 0 <= k <= last_used_stream_id ==> (#[trigger] self.used_streams@[k]) < *next_vacant_stream_id && !vacant@.contains(self.used_streams@[k]),"
                 " forall|a: int, b: int| 0 <= a < b <= last_used_stream_id ==> self.used_streams@[a] < self.used_streams@[b],"
                 " forall|x: u32| x < *next_vacant_stream_id && !vacant@.contains(x) ==> exists|k: int| 0 <= k <= last_used_stream_id && self.used_streams@[k] == x,",
              2: "invariant " + SYNC_FRAME + ", self.vacant_wf(), it_i.iter.end == MAX_STREAMS, it_i.iter.start <= it_i.iter.end,"
                 " last_used_stream_id + 1 == self.cnt(), 0 <= self.cnt() <= it_i.iter.start,"
                 " forall|k: int| 0 <= k < self.cnt() ==> (#[trigger] self.used_streams@[k] as int) < MAX_STREAMS && !self.vacant@.contains(self.used_streams@[k]),"
                 " forall|a: int, b: int| 0 <= a < b < self.cnt() ==> self.used_streams@[a] < self.used_streams@[b],"
                 " forall|x: u32| (x as int) < MAX_STREAMS && !self.vacant@.contains(x) ==> exists|k: int| 0 <= k < self.cnt() && self.used_streams@[k] == x,"
                 " forall|k: int| self.cnt() <= k < it_i.iter.start ==> self.used_streams@[k] == u32::MAX,\n"
                 "ensures " + SYNC_FRAME + ", self.synced(),"}),
    # C10: an id is handed out only while one is vacant, it is the FIFO head, its keep-running flag is set, the live list is re-synced,
    # the running-streams counter equals the number of live streams again
    fn("create_stream_id", props=["C10", "C06"],
       sig="pub fn create_stream_id(&mut self) -> (r: u32)", sig_anchor=r"pub fn create_stream_id\(&self\) -> u32",
       rules=[ALIAS, Rule("R6-vacant-consume", r"self\.vacant_streams\.consume_movable\(\)", "self.vacant_consume()", count=1, note="FIFO pop -> shim")],
       requires="old(self).inv(), old(self).vacant@.len() > 0",
       ensures="final(self).inv(), r == old(self).vacant@[0], final(self).vacant@ == old(self).vacant@.drop_first(),"
               "forall|j: int| 0 <= j < MAX_STREAMS ==> final(self).keep_streams_running@[j] == (if j == r { true } else { old(self).keep_streams_running@[j] }),"
               "final(self).waker_set == old(self).waker_set, final(self).cnt() == old(self).cnt() + 1",
       hints=[(r"self\.used_streams_count\.fetch_add\(1, Relaxed\);", "proof { assert(old(self).vacant@.drop_first().no_duplicates()); assert(old(self).vacant@[0] == old(self).vacant@[0]); }")]),
    # C10 / C07: a dropped stream's id goes back to the FIFO (reusable), its waker is forgotten, counters and the live list follow
    fn("report_stream_dropped", props=["C10", "C07", "C06"],
       sig="pub fn report_stream_dropped(&mut self, stream_id: u32)", sig_anchor=r"pub fn report_stream_dropped\(&self, stream_id: u32\)",
       rules=[Rule("R6-wakers-alias", r"let wakers = unsafe \{ &mut \* self\.wakers\.get\(\) \};", "", count=1, note="UnsafeCell alias dropped"),
              Rule("R7-waker-none", r"\bwakers\[stream_id as usize\] = None;", "assert(self.wakers_held@); self.waker_set[stream_id as usize] = false;", count=1, note="Option<Waker> slot abstracted to 'is a waker registered' (+ LK1: under wakers_lock)"),
              LOCK_W, UNLOCK_W,
              Rule("R6-vacant-publish", r"self\.vacant_streams\.publish_movable\(stream_id\);", "self.vacant_publish(stream_id);", count=1, note="FIFO push -> shim (its ignored result becomes the precondition 'not full')")],
       requires="old(self).inv(), (stream_id as int) < MAX_STREAMS, !old(self).vacant@.contains(stream_id)",
       ensures="final(self).inv(), final(self).vacant@ == old(self).vacant@.push(stream_id), !final(self).waker_set@[stream_id as int],"
               "forall|j: int| 0 <= j < MAX_STREAMS && j != stream_id ==> final(self).waker_set@[j] == old(self).waker_set@[j],"
               "final(self).keep_streams_running == old(self).keep_streams_running, final(self).cnt() == old(self).cnt() - 1",
       hints=[(r"self\.finished_streams_count\.fetch_add\(1, Relaxed\);",
               "proof { let k0 = choose|k: int| 0 <= k < old(self).cnt() && old(self).used_streams@[k] == stream_id; assert(old(self).vacant@.len() < MAX_STREAMS); }")]),
]

UNIT = Unit("streams_bookkeeping", FNS, spec=SPEC, global_rules=[FOR_LABEL],
            trusted=["vacant_concat / vacant_consume / vacant_publish: shims for the vacant-id FIFO (a FullSyncMove<u32, MAX_STREAMS>) with the FIFO contracts decided by back end K and unit ring_full_sync",
                     "sort_unstable_u32, iter_next: assumed std contracts (sorted permutation; slice iterator = index cursor)",
                     "lock_streams / unlock_streams / lock_wakers / unlock_wakers: ghost lock flags (mutual exclusion ASSUMED: LK3)"],
            assumptions=["S-model: one thread at a time inside the bookkeeping functions (streams_lock serialises writers; senders READING the live list concurrently is C17, not decided)"])
