"""Unit ogre_arc_a (V, A-model): the reference-counting protocol of `OgreArc` under an ADVERSARIAL environment (other owners clone and drop their handles
at will, so every value this thread reads from `references_count` is arbitrary). C14 / C05: a handle is accounted for BEFORE it exists (clone: one
`fetch_add(1)`; bulk: `fetch_add(count)`; `raw_copy` touches nothing), `drop` gives up exactly one reference by ONE `fetch_sub(1)` and decides from THE
VALUE THAT VERY OPERATION RETURNED whether it was the last owner -- then, and only then, the payload's slot goes back to the allocator (once) and the
bookkeeping block is freed (once). Re-reading the counter, or any other write to it (`store`, `swap`, a compare-exchange, `fetch_sub` by another
delta), is a failed obligation of the protocol-typed counter: sequentially invisible, but a double free / leak under one collision.
What stays assumed: the hardware's read-modify-write is atomic (so exactly one of several simultaneous `fetch_sub` observes 1); Rust's ownership
(no handle is used after it was dropped; `clone` needs a live handle). The real pointer code (Box::leak / from_raw, NonNull) is executed by back end K."""
from engine.extract import FnSpec, Rule
from engine.verus_run import Unit

F = "src/ogre_std/ogre_alloc/ogre_arc.rs"
SPEC = r"""
/// PROTOCOL-TYPED `references_count` (A-model): this thread may add references it is about to hand out, or give up ONE; what it reads is arbitrary
pub struct RefCounter { pub added: Ghost<nat>, pub given_up: Ghost<nat>, pub last_given_up_saw: Ghost<u32>, pub loads: Ghost<nat> }
impl RefCounter {
    #[verifier::external_body]
    pub fn fetch_add(&mut self, d: u32, o: Ordering) -> (prev: u32)
        ensures final(self).added@ == old(self).added@ + d, final(self).given_up == old(self).given_up, final(self).last_given_up_saw == old(self).last_given_up_saw, final(self).loads == old(self).loads,
    { unimplemented!() }
    #[verifier::external_body]
    pub fn fetch_sub(&mut self, d: u32, o: Ordering) -> (prev: u32)
        requires d == 1,
        ensures final(self).given_up@ == old(self).given_up@ + 1, final(self).last_given_up_saw@ == prev, final(self).added == old(self).added, final(self).loads == old(self).loads,
    { unimplemented!() }
    /// a plain read: a snapshot that may be stale the moment it is taken
    #[verifier::external_body]
    pub fn load(&mut self, o: Ordering) -> (r: u32)
        ensures final(self).loads@ == old(self).loads@ + 1, final(self).added == old(self).added, final(self).given_up == old(self).given_up, final(self).last_given_up_saw == old(self).last_given_up_saw,
    { unimplemented!() }
    #[verifier::external_body] pub fn store(&mut self, v: u32, o: Ordering) requires false { }
    #[verifier::external_body] pub fn swap(&mut self, v: u32, o: Ordering) -> u32 requires false { unimplemented!() }
    #[verifier::external_body] pub fn compare_exchange(&mut self, c: u32, n: u32, o1: Ordering, o2: Ordering) -> Result<u32, u32> requires false { unimplemented!() }
    #[verifier::external_body] pub fn compare_exchange_weak(&mut self, c: u32, n: u32, o1: Ordering, o2: Ordering) -> Result<u32, u32> requires false { unimplemented!() }
    #[verifier::external_body] pub fn fetch_max(&mut self, v: u32, o: Ordering) -> u32 requires false { unimplemented!() }
    #[verifier::external_body] pub fn fetch_min(&mut self, v: u32, o: Ordering) -> u32 requires false { unimplemented!() }
}
/// the pool allocator (contract: unit pool_allocator): what this thread asked it to release
pub struct Allocator { pub released: Ghost<Seq<u32>> }
impl Allocator {
    #[verifier::external_body]
    pub fn dealloc_id(&mut self, slot_id: u32) ensures final(self).released@ == old(self).released@.push(slot_id) { }
}
/// the heap block behind the handles (`InnerOgreArc`)
pub struct Inner { pub allocator: Allocator, pub data_id: u32, pub references_count: RefCounter, pub block_freed: Ghost<nat> }
impl Inner {
    /// `drop(Box::from_raw(inner))`: frees the bookkeeping block
    #[verifier::external_body]
    pub fn free_block(&mut self)
        ensures final(self).block_freed@ == old(self).block_freed@ + 1, final(self).allocator == old(self).allocator, final(self).references_count == old(self).references_count, final(self).data_id == old(self).data_id,
    { }
    pub open spec fn counter_untouched(&self, o: &Self) -> bool { self.references_count == o.references_count }
    pub open spec fn nothing_released(&self, o: &Self) -> bool { self.allocator == o.allocator && self.block_freed == o.block_freed && self.data_id == o.data_id }
}
/// `NonNull<InnerOgreArc>`: which block a handle points to
#[derive(Clone, Copy, PartialEq, Eq)]
pub struct BlockPtr { pub addr: int }
pub struct OgreArc { pub inner: BlockPtr }
pub fn acquire_fence() { }
"""
CONTAINER = "impl OgreArc"
IMPL_INH = r"impl\s*<\s*DataType\s*:\s*Debug\s*\+\s*Send\s*\+\s*Sync\s*,\s*OgreAllocatorType\s*:\s*BoundedOgreAllocator<DataType>\s*\+\s*Send\s*\+\s*Sync\s*>\s*OgreArc\s*<\s*DataType\s*,\s*OgreAllocatorType\s*>\s*(?=\{)"
IMPL_CLONE = r"Clone\s+for\s+OgreArc\s*<\s*DataType\s*,\s*OgreAllocatorType\s*>\s*(?=\{)"
IMPL_DROP = r"Drop\s+for\s+OgreArc\s*<\s*DataType\s*,\s*OgreAllocatorType\s*>\s*(?=\{)"

ALIAS = Rule("R6-inner-alias", r"let inner = unsafe \{ self\.inner\.as_(?:ref|mut)\(\) \};", "", count=1, note="NonNull::as_ref / as_mut -> the block is an explicit parameter (K executes the real pointer)")
SELF_LIT = Rule("R3-self-literal", r"\bSelf \{", "OgreArc {", min=0)
UNSAFE = Rule("R6-unsafe", r"\bunsafe \{ (self\.inner\.as_ref\(\)) \}", r"\1", min=0)


def fn(name, impl, **kw):
    f = FnSpec(F, name, impl=impl, **kw)
    f.container = CONTAINER
    return f


NO_RELEASE = "final(inner).nothing_released(old(inner))"
FNS = [
    fn("clone", IMPL_CLONE, props=["C14", "C05", "C03"],
       sig="pub fn clone(&self, inner: &mut Inner) -> (r: OgreArc)", sig_anchor=r"fn clone\(&self\) -> Self",
       rules=[ALIAS, SELF_LIT],
       ensures="r.inner == self.inner, final(inner).references_count.added@ == old(inner).references_count.added@ + 1, final(inner).references_count.given_up == old(inner).references_count.given_up," + NO_RELEASE),
    fn("increment_references", IMPL_INH, props=["C14", "C05", "C03"],
       sig="pub fn increment_references(&self, inner: &mut Inner, count: u32) -> (r: &Self)", sig_anchor=r"pub unsafe fn increment_references\(&self, count: u32\) -> &Self",
       rules=[ALIAS],
       ensures="final(inner).references_count.added@ == old(inner).references_count.added@ + count, final(inner).references_count.given_up == old(inner).references_count.given_up," + NO_RELEASE),
    fn("raw_copy", IMPL_INH, props=["C14", "C05"],
       sig="pub fn raw_copy(&self, inner: &mut Inner) -> (r: OgreArc)", sig_anchor=r"pub unsafe fn raw_copy\(&self\) -> Self",
       rules=[SELF_LIT],
       ensures="r.inner == self.inner, final(inner).counter_untouched(old(inner))," + NO_RELEASE),
    fn("references_count", IMPL_INH, props=["C14"], kind="helper",
       sig="pub fn references_count(&self, inner: &mut Inner) -> (r: u32)", sig_anchor=r"pub fn references_count\(&self\) -> u32",
       rules=[ALIAS],
       ensures="final(inner).references_count.added == old(inner).references_count.added, final(inner).references_count.given_up == old(inner).references_count.given_up," + NO_RELEASE),
    fn("drop", IMPL_DROP, props=["C14", "C05", "C03"],
       sig="pub fn drop(&mut self, inner: &mut Inner)", sig_anchor=r"fn drop\(&mut self\)",
       rules=[ALIAS,
              Rule("R4-fence", r"atomic::fence\(Acquire\);", "acquire_fence();", min=0, note="memory fence: no effect in the sequentially consistent model"),
              Rule("R7-free-block", r"let boxed = unsafe \{ Box::from_raw\(inner\) \};\s*drop\(boxed\);", "inner.free_block();", count=1, note="Box::from_raw + drop -> free_block (K executes the real deallocation)")],
       # exactly one reference given up, by one fetch_sub(1); last owner <=> THAT operation saw 1; then (and only then) one release of this handle's slot and one free of the block;
       # no decision from a re-read of the counter
       ensures="final(inner).references_count.given_up@ == old(inner).references_count.given_up@ + 1, final(inner).references_count.added == old(inner).references_count.added,"
               "final(inner).references_count.loads == old(inner).references_count.loads,"
               "final(inner).references_count.last_given_up_saw@ == 1 ==> final(inner).allocator.released@ == old(inner).allocator.released@.push(old(inner).data_id) && final(inner).block_freed@ == old(inner).block_freed@ + 1,"
               "final(inner).references_count.last_given_up_saw@ != 1 ==> final(inner).allocator == old(inner).allocator && final(inner).block_freed == old(inner).block_freed"),
]
UNIT = Unit("ogre_arc_a", FNS, spec=SPEC, model="A",
            trusted=["RefCounter: A-model shim of references_count whose contracts are the PROTOCOL of the counter (DESIGN §3.5 A-step); Allocator::dealloc_id: the pool's contract (unit pool_allocator); free_block: Box::from_raw + drop"],
            assumptions=["atomic read-modify-write: exactly one of several simultaneous fetch_sub(1) observes 1 (hardware, ASSUMED)",
                         "ownership: a handle is not used after its drop; clone / raw_copy need a live handle (Rust's rules / the unsafe contract of raw_copy)",
                         "from_allocated_with_clones (counter preloaded with COUNT) and OgreUnique (ManuallyDrop: nothing a verifier without implicit drops can see) are decided by back end K only"])
