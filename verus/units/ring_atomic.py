"""Unit ring_atomic (V, S-model): the counter / index arithmetic of AtomicMove for a SYMBOLIC power-of-two BUFFER_SIZE (2 <= N <= 2^31)
and EVERY value of the four free-running u32 counters, including the 2^32 wrap (C02 C08 C15 C16). The buffer is abstracted away:
functions that hand out `&mut buffer[i]` return the index i instead, and `i < BUFFER_SIZE` becomes an obligation (the get_unchecked
bound). Values, moves and drops are decided by back end K on the real code at N in {2,4,8}."""
from engine.extract import FnSpec, Rule
from engine.verus_run import Unit, Lemma

F = "src/ogre_std/ogre_queues/atomic/atomic_move.rs"
IMPL = r"impl\s*<\s*'a\s*,\s*SlotType\s*:\s*'a\s*\+\s*Debug\s*\+\s*Default\s*,\s*const\s+BUFFER_SIZE\s*:\s*usize\s*>\s*AtomicMove\s*<\s*SlotType\s*,\s*BUFFER_SIZE\s*>\s*(?=\{)"
IMPL_PUB = r"MovePublisher\s*<\s*SlotType\s*>\s*for\s+AtomicMove\s*<\s*SlotType\s*,\s*BUFFER_SIZE\s*>\s*(?=\{)"
CONTAINER = "impl<const BUFFER_SIZE: usize> AtomicMove<BUFFER_SIZE>"

SPEC = r"""
use core::num::NonZeroU32;
pub assume_specification [u32::overflowing_sub](a: u32, b: u32) -> (r: (u32, bool))
    ensures r.0 == a.wrapping_sub(b);
pub assume_specification [u32::overflowing_add](a: u32, b: u32) -> (r: (u32, bool))
    ensures r.0 == a.wrapping_add(b);
pub assume_specification [u32::abs_diff](a: u32, b: u32) -> (r: u32) ensures r == (if a >= b { a - b } else { b - a });

/// PROTOCOL-TYPED counters (DESIGN §3.5 A-step): S-model values, but each counter only offers the transitions the lock-free protocol allows a
/// thread to make; any other write (`store`, `swap`, `fetch_sub`, a compare-exchange by another delta) is a failed obligation -- such an edit
/// is sequentially invisible yet breaks the protocol under concurrency (e.g. a blind `fetch_sub` instead of the receding compare-exchange)
pub struct TicketCounter { pub v: u32 }      // enqueuer_tail, dequeuer_head: take a ticket (fetch_add 1) or recede it (CAS t+1 -> t)
impl TicketCounter {
    pub open spec fn view(&self) -> u32 { self.v }
    pub fn load(&self, o: Ordering) -> (r: u32) ensures r == self@ { self.v }
    pub fn fetch_add(&mut self, d: u32, o: Ordering) -> (r: u32) requires d == 1 ensures r == old(self)@, final(self)@ == old(self)@.wrapping_add(1) { let r = self.v; self.v = self.v.wrapping_add(d); r }
    pub fn compare_exchange_weak(&mut self, cur: u32, new: u32, o1: Ordering, o2: Ordering) -> (r: Result<u32, u32>)
        requires cur == new.wrapping_add(1),
        ensures old(self)@ == cur ==> r == Ok::<u32, u32>(cur) && final(self)@ == new, old(self)@ != cur ==> r == Err::<u32, u32>(old(self)@) && final(self)@ == old(self)@,
    { if self.v == cur { self.v = new; Ok(cur) } else { Err(self.v) } }
    pub fn compare_exchange(&mut self, cur: u32, new: u32, o1: Ordering, o2: Ordering) -> (r: Result<u32, u32>)
        requires cur == new.wrapping_add(1),
        ensures old(self)@ == cur ==> r == Ok::<u32, u32>(cur) && final(self)@ == new, old(self)@ != cur ==> r == Err::<u32, u32>(old(self)@) && final(self)@ == old(self)@,
    { if self.v == cur { self.v = new; Ok(cur) } else { Err(self.v) } }
    #[verifier::external_body] pub fn fetch_sub(&mut self, d: u32, o: Ordering) -> u32 requires false { unimplemented!() }
    #[verifier::external_body] pub fn store(&mut self, v: u32, o: Ordering) requires false { }
    #[verifier::external_body] pub fn swap(&mut self, v: u32, o: Ordering) -> u32 requires false { unimplemented!() }
    #[verifier::external_body] pub fn fetch_max(&mut self, v: u32, o: Ordering) -> u32 requires false { unimplemented!() }
    #[verifier::external_body] pub fn fetch_min(&mut self, v: u32, o: Ordering) -> u32 requires false { unimplemented!() }
    #[verifier::external_body] pub fn fetch_or(&mut self, v: u32, o: Ordering) -> u32 requires false { unimplemented!() }
    #[verifier::external_body] pub fn fetch_and(&mut self, v: u32, o: Ordering) -> u32 requires false { unimplemented!() }
    #[verifier::external_body] pub fn fetch_xor(&mut self, v: u32, o: Ordering) -> u32 requires false { unimplemented!() }
}
pub struct CommitCounter { pub v: u32 }      // tail, head: advance in ticket order only (CAS t -> t+1)
impl CommitCounter {
    pub open spec fn view(&self) -> u32 { self.v }
    pub fn load(&self, o: Ordering) -> (r: u32) ensures r == self@ { self.v }
    pub fn compare_exchange_weak(&mut self, cur: u32, new: u32, o1: Ordering, o2: Ordering) -> (r: Result<u32, u32>)
        requires new == cur.wrapping_add(1),
        ensures old(self)@ == cur ==> r == Ok::<u32, u32>(cur) && final(self)@ == new, old(self)@ != cur ==> r == Err::<u32, u32>(old(self)@) && final(self)@ == old(self)@,
    { if self.v == cur { self.v = new; Ok(cur) } else { Err(self.v) } }
    pub fn compare_exchange(&mut self, cur: u32, new: u32, o1: Ordering, o2: Ordering) -> (r: Result<u32, u32>)
        requires new == cur.wrapping_add(1),
        ensures old(self)@ == cur ==> r == Ok::<u32, u32>(cur) && final(self)@ == new, old(self)@ != cur ==> r == Err::<u32, u32>(old(self)@) && final(self)@ == old(self)@,
    { if self.v == cur { self.v = new; Ok(cur) } else { Err(self.v) } }
    #[verifier::external_body] pub fn fetch_add(&mut self, d: u32, o: Ordering) -> u32 requires false { unimplemented!() }
    #[verifier::external_body] pub fn fetch_sub(&mut self, d: u32, o: Ordering) -> u32 requires false { unimplemented!() }
    #[verifier::external_body] pub fn store(&mut self, v: u32, o: Ordering) requires false { }
    #[verifier::external_body] pub fn swap(&mut self, v: u32, o: Ordering) -> u32 requires false { unimplemented!() }
    #[verifier::external_body] pub fn fetch_max(&mut self, v: u32, o: Ordering) -> u32 requires false { unimplemented!() }
    #[verifier::external_body] pub fn fetch_min(&mut self, v: u32, o: Ordering) -> u32 requires false { unimplemented!() }
    #[verifier::external_body] pub fn fetch_or(&mut self, v: u32, o: Ordering) -> u32 requires false { unimplemented!() }
    #[verifier::external_body] pub fn fetch_and(&mut self, v: u32, o: Ordering) -> u32 requires false { unimplemented!() }
    #[verifier::external_body] pub fn fetch_xor(&mut self, v: u32, o: Ordering) -> u32 requires false { unimplemented!() }
}
pub struct AtomicMove<const BUFFER_SIZE: usize> { pub head: CommitCounter, pub tail: CommitCounter, pub dequeuer_head: TicketCounter, pub enqueuer_tail: TicketCounter,
    /// ghost (R7): ids of reserved slots whose payload has been written (ptr::write / setter) and not yet published
    pub written: Ghost<Set<u32>>,
    /// ghost (R7): ids of leaked-to-consumer slots whose payload has been moved out (ptr::read) and not yet released
    pub moved_out: Ghost<Set<u32>> }

impl<const BUFFER_SIZE: usize> AtomicMove<BUFFER_SIZE> {
    /// published, unconsumed elements
    pub open spec fn len(&self) -> int { self.tail@.wrapping_sub(self.head@) as int }
    /// reserved, unpublished slots
    pub open spec fn resv(&self) -> int { self.enqueuer_tail@.wrapping_sub(self.tail@) as int }
    /// consumed-in-progress (leaked to a consumer, not yet released)
    pub open spec fn taken(&self) -> int { self.dequeuer_head@.wrapping_sub(self.head@) as int }
    /// representation invariant (DESIGN §3.1); the capacity is any value in 2..=2^30 here (the power-of-two requirement matters only for index = id % N across the wrap: lemmas below); at 2^31 `len as i32` in consume_leaking_internal turns negative for a full queue -- an observation recorded in DESIGN, outside any realistic configuration
    pub open spec fn inv(&self) -> bool {
        &&& 2 <= BUFFER_SIZE <= 0x4000_0000
        &&& self.len() <= BUFFER_SIZE
        // transient OVERSHOOT is part of the state space: producers that found the ring full (resp. consumers that found it empty) have
        // incremented enqueuer_tail (dequeuer_head) optimistically and not receded yet -- up to 4096 of them at once (ASSUMED bound)
        &&& self.len() + self.resv() <= BUFFER_SIZE + 0x1000
        &&& self.taken() <= self.len() + 0x1000
    }
    pub open spec fn same_but_enqueuer_tail(&self, o: &Self) -> bool { self.head == o.head && self.tail == o.tail && self.dequeuer_head == o.dequeuer_head && self.written == o.written && self.moved_out == o.moved_out }
    pub open spec fn same_but_dequeuer_head(&self, o: &Self) -> bool { self.head == o.head && self.tail == o.tail && self.enqueuer_tail == o.enqueuer_tail && self.written == o.written && self.moved_out == o.moved_out }

    /// `mutable_buffer.get_unchecked_mut(i)`: the slot is represented by its index; the unchecked bound is the obligation
    pub fn slot_at(i: usize) -> (r: usize) requires i < BUFFER_SIZE ensures r == i { i }
    /// `unsafe { ptr::write(slot_ref, item) }` / `setter_fn(slot_ref)` on the slot reserved under `slot_id` (R7)
    #[verifier::external_body]
    pub fn slot_write(&mut self, slot: usize, slot_id: u32)
        requires slot < BUFFER_SIZE,
        ensures final(self).written@ == old(self).written@.insert(slot_id), final(self).head == old(self).head, final(self).tail == old(self).tail,
                final(self).dequeuer_head == old(self).dequeuer_head, final(self).enqueuer_tail == old(self).enqueuer_tail, final(self).moved_out == old(self).moved_out,
    { }
    /// `unsafe { ptr::read(slot_ref) }` of the slot leaked to this consumer under `slot_id` (R7)
    #[verifier::external_body]
    pub fn slot_read(&mut self, slot: usize, slot_id: u32)
        requires slot < BUFFER_SIZE,
        ensures final(self).moved_out@ == old(self).moved_out@.insert(slot_id), final(self).head == old(self).head, final(self).tail == old(self).tail,
                final(self).dequeuer_head == old(self).dequeuer_head, final(self).enqueuer_tail == old(self).enqueuer_tail, final(self).written == old(self).written,
    { }
}
pub fn relaxed_wait() { }
pub fn u32_max(a: u32, b: u32) -> (r: u32) ensures r == (if a >= b { a } else { b }) { if a >= b { a } else { b } }

/// BUFFER_SIZE is a power of two <=> it divides 2^32 (what `BUFFER_SIZE_MUST_BE_A_POWER_OF_2` enforces at compile time)
pub open spec fn divides_2_32(n: int) -> bool { n > 0 && 0x1_0000_0000int % n == 0 }

/// the LAP LEMMA (all N dividing 2^32, all u32 x, all indices i < N): re-basing the index i onto x's lap neither overflows nor changes
/// lap or index -- this is what makes `slot_index + (counter / N) * N` the unique id with that index in the counter's lap
pub proof fn lemma_lap(x: int, n: int, i: int)
    requires 0 <= x < 0x1_0000_0000, 2 <= n <= 0x4000_0000, divides_2_32(n), 0 <= i < n,
    ensures (x / n) * n + i < 0x1_0000_0000,
            ((x / n) * n + i) / n == x / n,
            ((x / n) * n + i) % n == i,
            (x / n) * n <= x, x / n >= 0,
            i / n == 0, i % n == i,
            x == (x / n) * n + x % n, 0 <= x % n < n,
{
    let q = 0x1_0000_0000int / n;
    assert(q * n == 0x1_0000_0000int) by(nonlinear_arith) requires n > 0, 0x1_0000_0000int % n == 0, q == 0x1_0000_0000int / n;
    let d = x / n;
    assert(d * n <= x && x < d * n + n && d >= 0) by(nonlinear_arith) requires n > 0, x >= 0, d == x / n;
    assert(d < q) by(nonlinear_arith) requires d * n <= x, x < q * n, n > 0;
    assert(d * n + n <= q * n) by(nonlinear_arith) requires d < q, n > 0;
    assert((d * n + i) / n == d && (d * n + i) % n == i) by(nonlinear_arith) requires 0 <= i < n, n > 0, d >= 0;
    assert(i / n == 0 && i % n == i) by(nonlinear_arith) requires 0 <= i < n;
    assert(x == (x / n) * n + x % n && 0 <= x % n < n) by(nonlinear_arith) requires n > 0, x >= 0;
}
"""

MUTBUF = Rule("R6-buffer-alias", r"let mutable_buffer = unsafe \{ &mut \* \(self\.buffer\.get\(\) as \*mut Box<\[SlotType; BUFFER_SIZE\]>\) \};", "", count=1, note="UnsafeCell cast of the buffer dropped (K executes it)")
NO_RETRY = "forall|r: bool| report_full_fn.ensures((), r) ==> !r, report_full_fn.requires(())"


def fn(name, impl=IMPL, **kw):
    f = FnSpec(F, name, impl=impl, **kw)
    f.container = CONTAINER
    return f


FNS = [
    fn("try_unleak_slot_internal", props=["C16", "C08", "C15"], kind="helper",
       sig="pub fn try_unleak_slot_internal(&mut self, slot_id: u32) -> (r: bool)", sig_anchor=r"fn try_unleak_slot_internal\(&'a self, slot_id: u32\) -> bool",
       ensures="r <==> old(self).enqueuer_tail@ == slot_id.wrapping_add(1), r ==> final(self).enqueuer_tail@ == slot_id, !r ==> final(self).enqueuer_tail == old(self).enqueuer_tail, final(self).same_but_enqueuer_tail(old(self))"),
    fn("leak_slot_internal", props=["C02", "C08", "C15", "C16", "C01", "C13", "C03", "C05", "C18"], attrs="#[verifier::exec_allows_no_decreases_clause]",
       sig="pub fn leak_slot_internal<ReportFullFn: Fn() -> bool>(&mut self, report_full_fn: ReportFullFn) -> (r: Option<(usize, u32, u32)>)",
       sig_anchor=r"pub fn leak_slot_internal\(&self, report_full_fn: impl Fn\(\) -> bool\) -> Option<\(&mut SlotType, u32, u32\)>",
       rules=[MUTBUF,
              Rule("R8-break-value", r"break unsafe \{ Some\( \(mutable_buffer\.get_unchecked_mut\(([^()]*)\), slot_id, len_before\) \) \}", r"return Some( (Self::slot_at(\1), slot_id, len_before) );", count=1,
                   note="`break v` of the tail loop -> `return v`; the slot reference is represented by its index (bound obligation)")],
       requires="old(self).inv(), " + NO_RETRY,
       ensures="final(self).inv(), final(self).same_but_enqueuer_tail(old(self)),"
               "old(self).len() + old(self).resv() < BUFFER_SIZE ==> (r matches Some((idx, id, len_before)) && id == old(self).enqueuer_tail@ && idx == id as usize % BUFFER_SIZE"
               "   && len_before as int == old(self).len() + old(self).resv() && final(self).enqueuer_tail@ == old(self).enqueuer_tail@.wrapping_add(1)),"
               "old(self).len() + old(self).resv() >= BUFFER_SIZE ==> r is None && final(self).enqueuer_tail == old(self).enqueuer_tail",
       loops={0: "invariant old(self).inv(), self.same_but_enqueuer_tail(old(self)), self.enqueuer_tail@ == old(self).enqueuer_tail@.wrapping_add(1), slot_id == old(self).enqueuer_tail@, " + NO_RETRY + ","}),
    fn("try_publish_leaked_internal", props=["C08", "C02", "C15", "C03", "C05", "C18"], kind="helper",
       sig="pub fn try_publish_leaked_internal(&mut self, slot_id: u32) -> (r: bool)", sig_anchor=r"pub fn try_publish_leaked_internal\(&'a self, slot_id: u32\) -> bool",
       ensures="r <==> old(self).tail@ == slot_id, r ==> final(self).tail@ == slot_id.wrapping_add(1), !r ==> final(self).tail == old(self).tail,"
               "final(self).head == old(self).head && final(self).dequeuer_head == old(self).dequeuer_head && final(self).enqueuer_tail == old(self).enqueuer_tail && final(self).written == old(self).written && final(self).moved_out == old(self).moved_out"),
    fn("publish_leaked_internal", props=["C08", "C02", "C15", "C20", "C13", "C03", "C05", "C18"],
       sig="pub fn publish_leaked_internal(&mut self, slot_id: u32)", sig_anchor=r"pub fn publish_leaked_internal\(&'a self, slot_id: u32\)",
       requires="old(self).tail@ == slot_id, old(self).written@.contains(slot_id)",
       ensures="final(self).tail@ == slot_id.wrapping_add(1), final(self).head == old(self).head && final(self).dequeuer_head == old(self).dequeuer_head && final(self).enqueuer_tail == old(self).enqueuer_tail && final(self).written == old(self).written && final(self).moved_out == old(self).moved_out",
       loops={0: "invariant_except_break self.tail@ == slot_id, self.head == old(self).head && self.dequeuer_head == old(self).dequeuer_head && self.enqueuer_tail == old(self).enqueuer_tail && self.written == old(self).written && self.moved_out == old(self).moved_out,\n"
                 "ensures self.tail@ == slot_id.wrapping_add(1), self.head == old(self).head && self.dequeuer_head == old(self).dequeuer_head && self.enqueuer_tail == old(self).enqueuer_tail && self.written == old(self).written && self.moved_out == old(self).moved_out,\n"
                 "decreases 0int,"}),
    fn("available_elements_count", impl=IMPL_PUB, props=["C02", "C15", "C16", "C13", "C03", "C05", "C18"],
       sig="pub fn available_elements_count(&self) -> (r: usize)", sig_anchor=r"fn available_elements_count\(&self\) -> usize",
       ensures="r as int == self.len()"),
    fn("release_leaked_internal", props=["C01", "C02", "C15", "C13", "C08", "C03", "C05", "C18"], attrs="#[verifier::exec_allows_no_decreases_clause]",
       sig="pub fn release_leaked_internal(&mut self, slot_id: u32)", sig_anchor=r"pub fn release_leaked_internal\(&self, slot_id: u32\)",
       rules=[Rule("R8-break", r"Ok\(_\) => break,", "Ok(_) => return,", min=0, note="`break` of the tail loop -> `return`")], loops_optional=True,
       requires="old(self).head@ == slot_id",
       ensures="final(self).head@ == slot_id.wrapping_add(1), final(self).tail == old(self).tail && final(self).dequeuer_head == old(self).dequeuer_head && final(self).enqueuer_tail == old(self).enqueuer_tail && final(self).written == old(self).written && final(self).moved_out == old(self).moved_out",
       loops={0: "invariant self.head@ == slot_id, self.tail == old(self).tail && self.dequeuer_head == old(self).dequeuer_head && self.enqueuer_tail == old(self).enqueuer_tail && self.written == old(self).written && self.moved_out == old(self).moved_out,"}),
    fn("consume_leaking_internal", props=["C01", "C02", "C15", "C13", "C08", "C03", "C05", "C18"], attrs="#[verifier::exec_allows_no_decreases_clause]",
       sig="pub fn consume_leaking_internal<ReportEmptyFn: Fn() -> bool>(&mut self, report_empty_fn: ReportEmptyFn) -> (r: Option<(usize, u32, i32)>)",
       sig_anchor=r"fn consume_leaking_internal\(&self, report_empty_fn: impl Fn\(\) -> bool\) -> Option<\(&'a mut SlotType, u32, i32\)>",
       rules=[MUTBUF,
              Rule("R6-slot-index", r"let (\w+) = unsafe \{ mutable_buffer\.get_unchecked_mut\(([^()]*)\) \};", r"let \1 = Self::slot_at(\2);", count=1, note="slot reference -> index (bound obligation)"),
              Rule("R8-break-value", r"break Some\( \(([^()]*)\) \)", r"return Some( (\1) );", count=1)],
       hints=[(r"let tail = self\.\w+\.load\(Relaxed\);", "proof { let d: u32 = tail.wrapping_sub(slot_id); assert(d >= 0x8000_0000u32 ==> (d as i32) < 0i32) by(bit_vector); assert(d < 0x8000_0000u32 ==> (d as i32) >= 0i32 && (d as i32) as u32 == d) by(bit_vector); }")],
       requires="old(self).inv(), forall|r: bool| report_empty_fn.ensures((), r) ==> !r, report_empty_fn.requires(())",
       ensures="final(self).same_but_dequeuer_head(old(self)),"
               "old(self).len() - old(self).taken() > 0 ==> (r matches Some((idx, id, len_before)) && id == old(self).dequeuer_head@ && idx == id as usize % BUFFER_SIZE"
               "   && len_before as int == old(self).len() - old(self).taken() && final(self).dequeuer_head@ == old(self).dequeuer_head@.wrapping_add(1)),"
               "old(self).len() - old(self).taken() <= 0 ==> r is None && final(self).dequeuer_head == old(self).dequeuer_head",
       loops={0: "invariant old(self).inv(), self.same_but_dequeuer_head(old(self)), self.dequeuer_head@ == old(self).dequeuer_head@.wrapping_add(1), slot_id == old(self).dequeuer_head@,"
                 " forall|r: bool| report_empty_fn.ensures((), r) ==> !r, report_empty_fn.requires(()),"}),
]

IMPL_SUB = r"MoveSubscriber\s*<\s*SlotType\s*>\s*for\s+AtomicMove\s*<\s*SlotType\s*,\s*BUFFER_SIZE\s*>\s*(?=\{)"
CLOSURE_FALSE = Rule("R15-closure-false", r"\|\| false", "|| -> (b: bool) ensures !b { false }", count=1, note="`|| false` with its (trivial) specification")
FNS += [
    # C01 mechanism: the payload is written BEFORE the slot is published (a consumer must never see an unwritten slot); whole-view counters
    fn("publish_movable", impl=IMPL_PUB, props=["C01", "C02", "C16", "C15", "C13", "C03", "C05", "C18"], kind="mechanism",
       sig="pub fn publish_movable(&mut self, item: u64) -> (r: (Option<NonZeroU32>, Option<u64>))",
       sig_anchor=r"fn publish_movable\(&self, item: SlotType\) -> \(Option<NonZeroU32>, Option<SlotType>\)",
       rules=[CLOSURE_FALSE,
              Rule("R7-write", r"unsafe \{ ptr::write\(slot_ref, item\); \}", "self.slot_write(slot_ref, slot_id);", count=1, note="ptr::write -> slot_write (ghost: this reservation's payload is written)")],
       requires="old(self).inv(), old(self).resv() == 0, old(self).written@ =~= Set::empty()",
       ensures="old(self).len() < BUFFER_SIZE ==> r.0 is Some && r.1 is None && r.0.unwrap().get() as int == old(self).len() + 1 && final(self).len() == old(self).len() + 1 && final(self).resv() == 0"
               "   && final(self).written@.contains(old(self).enqueuer_tail@),"
               "old(self).len() >= BUFFER_SIZE ==> r.0 is None && r.1 == Some(item) && final(self).tail == old(self).tail && final(self).enqueuer_tail == old(self).enqueuer_tail && final(self).written == old(self).written,"
               "final(self).head == old(self).head && final(self).dequeuer_head == old(self).dequeuer_head"),
]
POW2 = "divides_2_32(BUFFER_SIZE as int), (slot_index as int) < BUFFER_SIZE"
FRAME_ENQ = "final(self).same_but_enqueuer_tail(old(self))"
FNS += [
    # C08: cancelling a reservation by INDEX: only the newest reservation (id = enqueuer_tail - 1) can be cancelled, it always is
    # (sequentially), for every counter value incl. enqueuer_tail == 0 (wrapped) and every lap
    fn("try_unleak_slot_index_internal", props=["C08", "C15", "C16"],
       sig="pub fn try_unleak_slot_index_internal(&mut self, slot_index: u32) -> (r: bool)", sig_anchor=r"pub fn try_unleak_slot_index_internal\(&'a self, slot_index: u32\) -> bool",
       rules=[Rule("R8-break-value", r"\bbreak (true|false)\b", r"return \1", min=2, note="`break v` of the tail loop -> `return v` (any number of exits)")],
       hints=[(r"let mut slot_id = slot_index;", "proof { lemma_lap(self.enqueuer_tail@.wrapping_sub(1) as int, BUFFER_SIZE as int, slot_index as int); }"),
              (r"> slot_id / BUFFER_SIZE as u32 \{", "proof { lemma_lap(self.enqueuer_tail@.wrapping_sub(1) as int, BUFFER_SIZE as int, slot_index as int); }"),
              (r"else \{(?=\s*return false)", "proof { lemma_lap(slot_id as int, BUFFER_SIZE as int, slot_index as int); lemma_lap(self.enqueuer_tail@.wrapping_sub(1) as int, BUFFER_SIZE as int, slot_index as int); assert(self.enqueuer_tail@.wrapping_sub(1).wrapping_add(1) == self.enqueuer_tail@); }")],
       requires="old(self).inv(), " + POW2,
       ensures=FRAME_ENQ + ","
               "r ==> final(self).enqueuer_tail@ == old(self).enqueuer_tail@.wrapping_sub(1) && (old(self).enqueuer_tail@.wrapping_sub(1) as int) % (BUFFER_SIZE as int) == slot_index,"
               "!r ==> final(self).enqueuer_tail == old(self).enqueuer_tail,"
               "(old(self).enqueuer_tail@.wrapping_sub(1) as int) % (BUFFER_SIZE as int) == slot_index ==> r",
       loops={0: "invariant old(self).inv(), " + POW2 + ", self.same_but_enqueuer_tail(old(self)), self.enqueuer_tail == old(self).enqueuer_tail,"
                 " (slot_id as int) % (BUFFER_SIZE as int) == slot_index,"
                 " slot_id == slot_index || (slot_id as int) / (BUFFER_SIZE as int) == (old(self).enqueuer_tail@.wrapping_sub(1) as int) / (BUFFER_SIZE as int),\n"
                 "decreases (old(self).enqueuer_tail@.wrapping_sub(1) as int) / (BUFFER_SIZE as int) - (slot_id as int) / (BUFFER_SIZE as int),"}),
    # C08: publishing a reservation by INDEX: only the oldest reservation (id = tail) can be published, it always is (sequentially)
    fn("try_publish_leaked_internal_index", props=["C08", "C15", "C02", "C03", "C05", "C18"],
       sig="pub fn try_publish_leaked_internal_index(&mut self, slot_index: u32) -> (r: Option<NonZeroU32>)",
       sig_anchor=r"pub fn try_publish_leaked_internal_index\(&'a self, slot_index: u32\) -> Option<NonZeroU32>",
       rules=[Rule("R8-break-value", r"\bbreak (NonZeroU32::new\(.*\)),$", r"return \1,", count=1, note="`break v` of the tail loop -> `return v`", flags=__import__("re").M),
              Rule("R8-break-none", r"\bbreak None\b", "return None", count=1),
              Rule("R14-u32-max", r"\bu32::max\(", "u32_max(", count=1, note="u32::max -> shim with the same meaning")],
       hints=[(r"let mut slot_id = slot_index;", "proof { lemma_lap(self.tail@ as int, BUFFER_SIZE as int, slot_index as int); }"),
              (r"> slot_id / BUFFER_SIZE as u32 \{", "proof { lemma_lap(self.tail@ as int, BUFFER_SIZE as int, slot_index as int); lemma_lap(self.head@ as int, BUFFER_SIZE as int, slot_index as int); }"),
              (r"else \{(?=\s*relaxed_wait\(\);)", "proof { lemma_lap(slot_id as int, BUFFER_SIZE as int, slot_index as int); lemma_lap(self.tail@ as int, BUFFER_SIZE as int, slot_index as int); }")],
       requires="old(self).inv(), " + POW2,
       ensures="final(self).head == old(self).head && final(self).dequeuer_head == old(self).dequeuer_head && final(self).enqueuer_tail == old(self).enqueuer_tail,"
               "r is Some ==> final(self).tail@ == old(self).tail@.wrapping_add(1) && (old(self).tail@ as int) % (BUFFER_SIZE as int) == slot_index,"
               "r is None ==> final(self).tail == old(self).tail,"
               "(old(self).tail@ as int) % (BUFFER_SIZE as int) == slot_index ==> r is Some",
       loops={0: "invariant old(self).inv(), " + POW2 + ", self.head == old(self).head && self.dequeuer_head == old(self).dequeuer_head && self.enqueuer_tail == old(self).enqueuer_tail, self.tail == old(self).tail,"
                 " (slot_id as int) % (BUFFER_SIZE as int) == slot_index,"
                 " slot_id == slot_index || (slot_id as int) / (BUFFER_SIZE as int) == (old(self).tail@ as int) / (BUFFER_SIZE as int),\n"
                 "decreases (old(self).tail@ as int) / (BUFFER_SIZE as int) - (slot_id as int) / (BUFFER_SIZE as int),"}),
]

UNIT = Unit("ring_atomic", FNS, spec=SPEC, lemmas=[Lemma("lemma_lap", ["C08", "C15"], clauses=["for N | 2^32, x: u32, i < N: (x/N)*N + i does not overflow, has lap x/N and index i"])],
            trusted=["u32::overflowing_sub / overflowing_add: assume_specification (wrapping result)"],
            assumptions=["the buffer (values, ptr::write/read, ManuallyDrop) is abstracted to indices in this unit; back end K decides it on the real code",
                         "S-model: one thread; the interleavings of the lock-free protocol are NOT decided"])


# ------------------------------------------------------------------------------------------------------------------------------------
# ring_atomic_a : A-model (adversarial environment) twin of the two COMMIT loops of AtomicMove -- `publish_leaked_internal` (tail) and
# `release_leaked_internal` (head). In the S-model the compare-exchange succeeds at once (the precondition says it is this ticket's turn), so
# whatever the code does on the FAILURE path is invisible there. Here every compare-exchange answers arbitrarily (other producers / consumers
# commit their own tickets at will) and the obligation is thread-local: the function returns only through ONE successful compare-exchange
# `ticket -> ticket+1` of its own and writes the commit counter in no other way (not on the failure path either) -- that is what keeps
# commits in ticket order, i.e. what makes "everything below tail is written" / "everything below head is free" true under concurrency.
# ------------------------------------------------------------------------------------------------------------------------------------
SPEC_A = r"""
pub assume_specification [u32::overflowing_add](a: u32, b: u32) -> (r: (u32, bool)) ensures r.0 == a.wrapping_add(b);
/// A-model commit counter (tail / head): this thread's successful transitions are logged; reads and failed compare-exchanges return anything
pub struct CommitCounterA { pub commits: Ghost<Seq<(u32, u32)>> }
impl CommitCounterA {
    #[verifier::external_body] pub fn load(&self, o: Ordering) -> u32 { unimplemented!() }
    #[verifier::external_body]
    pub fn compare_exchange_weak(&mut self, cur: u32, new: u32, o1: Ordering, o2: Ordering) -> (r: Result<u32, u32>)
        requires new == cur.wrapping_add(1),
        ensures r is Ok ==> final(self).commits@ == old(self).commits@.push((cur, new)), r is Err ==> final(self).commits == old(self).commits,
    { unimplemented!() }
    #[verifier::external_body]
    pub fn compare_exchange(&mut self, cur: u32, new: u32, o1: Ordering, o2: Ordering) -> (r: Result<u32, u32>)
        requires new == cur.wrapping_add(1),
        ensures r is Ok ==> final(self).commits@ == old(self).commits@.push((cur, new)), r is Err ==> final(self).commits == old(self).commits,
    { unimplemented!() }
    #[verifier::external_body] pub fn fetch_add(&mut self, d: u32, o: Ordering) -> u32 requires false { unimplemented!() }
    #[verifier::external_body] pub fn fetch_sub(&mut self, d: u32, o: Ordering) -> u32 requires false { unimplemented!() }
    #[verifier::external_body] pub fn fetch_max(&mut self, d: u32, o: Ordering) -> u32 requires false { unimplemented!() }
    #[verifier::external_body] pub fn fetch_min(&mut self, d: u32, o: Ordering) -> u32 requires false { unimplemented!() }
    #[verifier::external_body] pub fn store(&mut self, v: u32, o: Ordering) requires false { }
    #[verifier::external_body] pub fn swap(&mut self, v: u32, o: Ordering) -> u32 requires false { unimplemented!() }
}
pub struct AtomicMoveA { pub head: CommitCounterA, pub tail: CommitCounterA }
pub fn relaxed_wait() { }
"""
CONTAINER_A = "impl AtomicMoveA"


def fn_a(name, **kw):
    f = FnSpec(F, name, impl=IMPL, **kw)
    f.container = CONTAINER_A
    return f


FNS_A = [
    fn_a("try_publish_leaked_internal", props=["C01", "C02", "C08", "C13", "C03", "C05", "C18"], kind="mechanism", model="A",
         sig="pub fn try_publish_leaked_internal(&mut self, slot_id: u32) -> (r: bool)", sig_anchor=r"pub fn try_publish_leaked_internal\(&'a self, slot_id: u32\) -> bool",
         ensures="r ==> final(self).tail.commits@ == old(self).tail.commits@.push((slot_id, slot_id.wrapping_add(1))), !r ==> final(self).tail == old(self).tail, final(self).head == old(self).head"),
    fn_a("publish_leaked_internal", props=["C01", "C02", "C08", "C13", "C03", "C05", "C18"], kind="mechanism", model="A", attrs="#[verifier::exec_allows_no_decreases_clause]",
         sig="pub fn publish_leaked_internal(&mut self, slot_id: u32)", sig_anchor=r"pub fn publish_leaked_internal\(&'a self, slot_id: u32\)",
         rules=[Rule("R8-break", r"\bbreak\b(?=\s*[,;}])", "return", min=0, note="`break` of the tail loop -> `return`")],
         ensures="final(self).tail.commits@ == old(self).tail.commits@.push((slot_id, slot_id.wrapping_add(1))), final(self).head == old(self).head",
         loops={0: "invariant_except_break self.tail.commits == old(self).tail.commits, self.head == old(self).head,\n"
                   "ensures self.tail.commits@ == old(self).tail.commits@.push((slot_id, slot_id.wrapping_add(1))), self.head == old(self).head,"}, loops_optional=True),
    fn_a("release_leaked_internal", props=["C01", "C02", "C08", "C13", "C03", "C05", "C18"], kind="mechanism", model="A", attrs="#[verifier::exec_allows_no_decreases_clause]",
         sig="pub fn release_leaked_internal(&mut self, slot_id: u32)", sig_anchor=r"pub fn release_leaked_internal\(&self, slot_id: u32\)",
         rules=[Rule("R8-break", r"\bbreak\b(?=\s*[,;}])", "return", min=0, note="`break` of the tail loop -> `return`")],
         ensures="final(self).head.commits@ == old(self).head.commits@.push((slot_id, slot_id.wrapping_add(1))), final(self).tail == old(self).tail",
         loops={0: "invariant self.head.commits == old(self).head.commits, self.tail == old(self).tail,"}, loops_optional=True),
]
UNIT_A = Unit("ring_atomic_a", FNS_A, spec=SPEC_A, model="A",
              trusted=["CommitCounterA: A-model shim of tail / head whose contracts are the PROTOCOL of the two commit counters (DESIGN §3.5 A-step)"],
              assumptions=["the meta-theorem 'commits in ticket order by every thread => the ring invariant under concurrency' is NOT mechanised",
                           "termination of the commit spin loops (waiting for earlier tickets) is not proved"])
UNITS = [UNIT, UNIT_A]
