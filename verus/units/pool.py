"""Unit pool_allocator (V, S-model): `OgreArrayPoolAllocator` for a SYMBOLIC pool size, verified MODULARLY against the contract of its free
list (`MoveContainer<u32>`: a bounded FIFO of slot ids -- that contract is what units ring_atomic / ring_full_sync and the Kani ring
harnesses discharge for the two containers the crate instantiates it with; here it is an imported, i.e. assumed-at-the-call-site, contract).

Abstract state: `free` = the free list's sequence, `out` = the set of ids handed out and not yet given back (ghost). Representation invariant
`wf`: ids on the free list are distinct, < POOL_SIZE and not in `out`; |free| + |out| == POOL_SIZE. Decided for every pool size, every
permutation of the free list, every set of outstanding ids (C13; C05 / C14: the destructor runs exactly once per deallocation and BEFORE
the id is allocatable again; C16: a failed allocation changes nothing). Pointer arithmetic (`offset_from`, the UnsafeCell casts) is
abstracted: slot references are represented by their index, the unchecked-index bound is an obligation. Back end K executes the real thing."""
import re
from engine.extract import FnSpec, Rule
from engine.verus_run import Unit, Lemma
from engine.common import Undecided
from engine import rustlex as lx

F = "src/ogre_std/ogre_alloc/ogre_array_pool_allocator.rs"
IMPL = r"BoundedOgreAllocator\s*<\s*DataType\s*>\s*for\s+OgreArrayPoolAllocator\s*<\s*DataType\s*,\s*ContainerType\s*,\s*POOL_SIZE\s*>\s*(?=\{)"
CONTAINER = "impl<const POOL_SIZE: usize> OgreArrayPoolAllocator<POOL_SIZE>"

SPEC = r"""
use core::num::NonZeroU32;
/// the free list: ANY `MoveContainer<u32>` of capacity POOL_SIZE, seen through its contract (bounded FIFO) -- imported from ring_atomic /
/// ring_full_sync / the Kani ring harnesses
pub struct FreeList<const POOL_SIZE: usize> { pub q: Ghost<Seq<u32>> }
impl<const POOL_SIZE: usize> FreeList<POOL_SIZE> {
    #[verifier::external_body]
    pub fn new() -> (r: Self) ensures r.q@ == Seq::<u32>::empty() { unimplemented!() }
    #[verifier::external_body]
    pub fn consume_movable(&mut self) -> (r: Option<u32>)
        ensures old(self).q@.len() > 0 ==> r == Some(old(self).q@[0]) && final(self).q@ == old(self).q@.drop_first(),
                old(self).q@.len() == 0 ==> r is None && final(self).q == old(self).q,
    { unimplemented!() }
    #[verifier::external_body]
    pub fn publish_movable(&mut self, item: u32) -> (r: (Option<NonZeroU32>, Option<u32>))
        ensures old(self).q@.len() < POOL_SIZE ==> r.0 is Some && r.1 is None && final(self).q@ == old(self).q@.push(item),
                old(self).q@.len() >= POOL_SIZE ==> r.0 is None && r.1 == Some(item) && final(self).q == old(self).q,
    { unimplemented!() }
    #[verifier::external_body]
    pub fn available_elements_count(&self) -> (r: usize) ensures r == self.q@.len() { unimplemented!() }
}
/// a setter closure `FnOnce(&mut DataType)`; applying it CONSUMES it (invoked once) and leaves `value` in the slot
pub struct Setter { pub value: Ghost<int> }

pub struct OgreArrayPoolAllocator<const POOL_SIZE: usize> {
    pub free_list: FreeList<POOL_SIZE>,
    /// ghost: ids handed out by alloc and not yet deallocated
    pub out: Ghost<Set<u32>>,
    /// ghost (R7): the ids whose slot ran `drop_in_place`, in order
    pub dropped: Ghost<Seq<u32>>,
    /// ghost (R7): slot contents written through a setter
    pub content: Ghost<Map<u32, int>>,
    /// does DataType need drop (a compile-time constant of the instantiation; symbolic here)
    pub data_needs_drop: bool,
}
impl<const POOL_SIZE: usize> OgreArrayPoolAllocator<POOL_SIZE> {
    pub open spec fn free(&self) -> Seq<u32> { self.free_list.q@ }
    pub open spec fn wf(&self) -> bool {
        &&& 1 <= POOL_SIZE <= 0x7fff_ffff
        &&& self.out@.finite()
        &&& self.free().no_duplicates()
        &&& forall|i: int| 0 <= i < self.free().len() ==> (#[trigger] self.free()[i] as int) < POOL_SIZE && !self.out@.contains(self.free()[i])
        &&& forall|id: u32| self.out@.contains(id) ==> (id as int) < POOL_SIZE
        &&& self.free().len() + self.out@.len() == POOL_SIZE
    }
    pub open spec fn same_ghost_but_out(&self, o: &Self) -> bool { self.dropped == o.dropped && self.content == o.content && self.data_needs_drop == o.data_needs_drop }

    /// `mutable_pool.get_unchecked_mut(i)`: the slot is represented by its index; the unchecked bound is the obligation
    pub fn slot_at(i: usize) -> (r: usize) requires i < POOL_SIZE ensures r == i { i }
    /// `std::mem::needs_drop::<DataType>()`
    pub fn needs_drop(&self) -> (r: bool) ensures r == self.data_needs_drop { self.data_needs_drop }
    /// `ptr::drop_in_place(slot)` (R7). MECHANISM obligations in the precondition: the value being destroyed belongs to an id that is still
    /// handed out and NOT yet allocatable again (otherwise a concurrent alloc could be writing the slot while its old value is destroyed)
    #[verifier::external_body]
    pub fn slot_drop(&mut self, slot: usize)
        requires slot < POOL_SIZE, old(self).out@.contains(slot as u32), !old(self).free().contains(slot as u32),
        ensures final(self).dropped@ == old(self).dropped@.push(slot as u32), final(self).free_list == old(self).free_list, final(self).out == old(self).out,
                final(self).content == old(self).content, final(self).data_needs_drop == old(self).data_needs_drop,
    { }
    /// `setter(slot_ref)` (R7): the setter is consumed; the slot it writes must be handed out to this caller
    #[verifier::external_body]
    pub fn slot_set(&mut self, slot: usize, setter: Setter)
        requires slot < POOL_SIZE, old(self).out@.contains(slot as u32),
        ensures final(self).content@ == old(self).content@.insert(slot as u32, setter.value@), final(self).free_list == old(self).free_list, final(self).out == old(self).out,
                final(self).dropped == old(self).dropped, final(self).data_needs_drop == old(self).data_needs_drop,
    { }
    /// `(slot as *const DataType).offset_from(pool.get_unchecked(0)) as u32` (R7): index of a slot reference (K executes the real pointer arithmetic)
    pub fn index_of_ref(slot: usize) -> (r: u32) requires slot < POOL_SIZE, POOL_SIZE <= 0x7fff_ffff ensures r as usize == slot { slot as u32 }

    // ghost bookkeeping of `out` (these are the only places the ghost set changes; they are proof-only)
    pub proof fn ghost_out_insert(tracked &mut self, id: u32) ensures final(self).out@ == old(self).out@.insert(id), final(self).free_list == old(self).free_list, final(self).same_ghost_but_out(old(self)) { admit_unreachable(); }
}
"""

# `admit_unreachable` must not exist: the ghost set is updated by plain ghost assignment spliced by rules below; drop the helper from the spec text
SPEC = re.sub(r"\n    // ghost bookkeeping.*?\n    pub proof fn ghost_out_insert.*?\n", "\n", SPEC, flags=re.S)

POOL_ALIAS = Rule("R6-pool-alias", r"let (?:mutable_pool|pool) = (?:unsafe \{ )?&(?:mut )?\s?\*\s?\(self\.pool\.get\(\) as \*(?:mut|const) Box<\[DataType; POOL_SIZE\]>\)(?: \})?;", "", count=1,
                  note="UnsafeCell cast of the pool dropped (K executes it)")


class OptionMapToMatch(Rule):
    """R18: `RECV .map(|p| B)` on an Option (the whole function body) -> `match RECV { Some(p) => Some(B), None => None }`"""

    def __init__(self):
        Rule.__init__(self, "R18-option-map", r"\.\s*map\s*\(", "", count=1, note="Option::map(closure) -> match (closures cannot capture the ghost state)")

    def apply(self, text, where, log):
        m = lx.mask(text)
        mm = re.search(self.pattern, m)
        if not mm:
            raise Undecided(f"rewrite rule {self.rid} applied 0x in {where}, expected 1x -- the code's shape changed; contract needs review")
        o = mm.end() - 1
        c = lx.match_close(m, o)
        a = text[o + 1:c]
        ma = re.match(r"\s*\|\s*(.*?)\s*\|\s*(.*)$", a, re.S)
        if not ma or text[c + 1:].strip() not in ("", ";"):
            raise Undecided(f"{where}: .map(..) is not the tail expression with a one-parameter closure")
        log[self.rid] = log.get(self.rid, 0) + 1
        return "\n        match (" + text[:mm.start()].strip() + ") { Some(" + ma.group(1) + ") => Some(" + ma.group(2).strip() + "), None => None }\n"


def fn(name, **kw):
    f = FnSpec(F, name, impl=IMPL, **kw)
    f.container = CONTAINER
    return f


ALLOC_ENS = ("final(self).same_ghost_but_out(old(self)),"
             "old(self).free().len() > 0 ==> (r matches Some((slot, id)) && id == old(self).free()[0] && slot == id as usize && !old(self).out@.contains(id)"
             "   && final(self).out@ == old(self).out@.insert(id) && final(self).free() == old(self).free().drop_first() && final(self).wf()),"
             "old(self).free().len() == 0 ==> r is None && final(self).free_list == old(self).free_list && final(self).out == old(self).out,"
             # capacity, as the property states it: allocation fails exactly when POOL_SIZE ids are outstanding
             "(r is None) <==> old(self).out@.len() == POOL_SIZE")

FNS = [
    fn("alloc_ref", props=["C13", "C05", "C16", "C01", "C02"],
       sig="pub fn alloc_ref(&mut self) -> (r: Option<(usize, u32)>)", sig_anchor=r"fn alloc_ref\(&self\) -> Option<\(&mut DataType, u32\)>",
       rules=[POOL_ALIAS,
              Rule("R6-slot-index", r"let slot_ref = unsafe \{ mutable_pool\.get_unchecked_mut\(([^()]*)\) \};", r"let slot_ref = Self::slot_at(\1);", count=1, note="slot reference -> index (bound obligation)"),
              Rule("G-out-insert", r"return Some\(\(slot_ref, slot_id\)\);",
                   "proof { assert(old(self).free()[0] == slot_id); assert(forall|i: int| 0 <= i < self.free().len() ==> self.free()[i] == old(self).free()[i + 1]); }\n            self.out = Ghost(self.out@.insert(slot_id));\n"
                   "            return Some((slot_ref, slot_id));", count=1, note="ghost: the id is recorded as handed out (proof-only statement)")],
       requires="old(self).wf()", ensures=ALLOC_ENS),
    fn("alloc_with", props=["C13", "C16"],
       sig="pub fn alloc_with(&mut self, setter: Setter) -> (r: Option<(usize, u32)>)", sig_anchor=r"fn alloc_with\(&self, setter: impl FnOnce\(&mut DataType\)\)",
       rules=[OptionMapToMatch(),
              Rule("R7-setter", r"setter\(slot_ref\);", "self.slot_set(slot_ref, setter);", count=1, note="setter call -> slot_set (consumed: invoked exactly once; the slot must be handed out)")],
       requires="old(self).wf()",
       ensures="old(self).free().len() > 0 ==> (r matches Some((slot, id)) && id == old(self).free()[0] && slot == id as usize && final(self).out@ == old(self).out@.insert(id)"
               "   && final(self).free() == old(self).free().drop_first() && final(self).wf() && final(self).content@ == old(self).content@.insert(id, setter.value@)),"
               "old(self).free().len() == 0 ==> r is None && final(self).free_list == old(self).free_list && final(self).out == old(self).out && final(self).content == old(self).content"),
    fn("id_from_ref", props=["C13"], kind="helper",
       sig="pub fn id_from_ref(&self, slot: usize) -> (r: u32)", sig_anchor=r"fn id_from_ref\(&self, slot: &DataType\) -> u32",
       rules=[Rule("R7-offset_from", r"unsafe \{\s*let pool = &\*\(self\.pool\.get\(\) as \*const Box<\[DataType; POOL_SIZE\]>\);\s*\(slot as \*const DataType\)\.offset_from\(pool\.get_unchecked\(0\)\) as u32\s*\}",
                   "Self::index_of_ref(slot)", count=1, note="pointer difference to slot 0 -> index of the slot (K executes the real offset_from)")],
       requires="slot < POOL_SIZE, POOL_SIZE <= 0x7fff_ffff", ensures="r as usize == slot"),
    fn("ref_from_id", props=["C13"], kind="helper",
       sig="pub fn ref_from_id(&self, slot_id: u32) -> (r: usize)", sig_anchor=r"fn ref_from_id\(&self, slot_id: u32\) -> &mut DataType",
       rules=[POOL_ALIAS, Rule("R6-slot-index", r"unsafe \{ mutable_pool\.get_unchecked_mut\(([^()]*)\) \}", r"Self::slot_at(\1)", count=1)],
       pre_body="\n        proof { let x = slot_id as int; let n = POOL_SIZE as int; if x < n { assert(x % n == x) by(nonlinear_arith) requires 0 <= x, x < n; } }\n",
       requires="1 <= POOL_SIZE", ensures="(slot_id as int) < POOL_SIZE ==> r == slot_id as usize, r < POOL_SIZE"),
    fn("dealloc_id", props=["C13", "C05", "C14", "C01"],
       sig="pub fn dealloc_id(&mut self, slot_id: u32)", sig_anchor=r"fn dealloc_id\(&self, slot_id: u32\)",
       rules=[Rule("R14-needs_drop", r"std::mem::needs_drop::<DataType>\(\)", "self.needs_drop()", count=1),
              Rule("R6-pool-alias", r"let pool = &mut \*\(self\.pool\.get\(\) as \*mut Box<\[DataType; POOL_SIZE\]>\);", "", count=1, note="UnsafeCell cast of the pool dropped (K executes it)"),
              Rule("R6-slot-index", r"let slot = pool\.get_unchecked_mut\(([^()]*)\);", r"let slot = Self::slot_at(\1);", count=1),
              Rule("R7-drop", r"ptr::drop_in_place\(slot\);", "self.slot_drop(slot);", count=1, note="drop_in_place -> slot_drop (ghost log; the id must still be handed out and not on the free list)"),
              Rule("R6-unsafe-block", r"\bunsafe \{", "{", count=1)],
       requires="old(self).wf(), old(self).out@.contains(slot_id)",
       # whole-view postcondition: the id is back at the END of the free list, out lost exactly this id, the destructor ran exactly once iff needed
       ensures="final(self).wf(), final(self).free() == old(self).free().push(slot_id), final(self).out@ == old(self).out@.remove(slot_id),"
               "final(self).dropped@ == (if old(self).data_needs_drop { old(self).dropped@.push(slot_id) } else { old(self).dropped@ }), final(self).content == old(self).content",
       tail="\n        self.out = Ghost(self.out@.remove(slot_id));\n        proof { assert(forall|i: int| 0 <= i < old(self).free().len() ==> self.free()[i] == old(self).free()[i]); }\n"),
    fn("dealloc_ref", props=["C13", "C05"],
       sig="pub fn dealloc_ref(&mut self, slot: usize)", sig_anchor=r"fn dealloc_ref\(&self, slot: &DataType\)",
       requires="old(self).wf(), slot < POOL_SIZE, old(self).out@.contains(slot as u32)",
       ensures="final(self).wf(), final(self).free() == old(self).free().push(slot as u32), final(self).out@ == old(self).out@.remove(slot as u32)"),
    # `new()`: the free-list initialisation block of the struct literal
    fn("new", out_name="new_free_list", props=["C13", "C16"], block_anchor=r"free_list:\s*(?=\{)",
       sig="pub fn new_free_list() -> (free_list: FreeList<POOL_SIZE>)", sig_anchor=r"fn new\(\) -> Self",
       rules=[Rule("R3-container-new", r"ContainerType::new\(\)", "FreeList::<POOL_SIZE>::new()", count=1),
              Rule("R5-mut", r"let free_list =", "let mut free_list =", count=1, note="&self with interior mutability -> &mut (S-model)")],
       requires="1 <= POOL_SIZE <= 0x7fff_ffff",
       ensures="free_list.q@.len() == POOL_SIZE, forall|i: int| 0 <= i < POOL_SIZE ==> free_list.q@[i] == i as u32",
       loops={0: "invariant 1 <= POOL_SIZE <= 0x7fff_ffff, free_list.q@.len() == slot_id, forall|i: int| 0 <= i < slot_id ==> free_list.q@[i] == i as u32,"}),
]

UNIT = Unit("pool_allocator", FNS, spec=SPEC,
            trusted=["FreeList::consume_movable / publish_movable / available_elements_count: the MoveContainer<u32> contract (bounded FIFO) -- discharged for AtomicMove by unit ring_atomic + Kani atomic_move harnesses, for FullSyncMove by unit ring_full_sync + Kani full_sync_move harnesses"],
            assumptions=["slot references are represented by their index (the UnsafeCell casts and offset_from are executed by back end K on the real code)",
                         "S-model: one thread; with the FullSync free list the contract transfers to all schedules modulo LK (DESIGN §3.4), with the atomic free list interleavings are NOT decided"])
