"""Unit limit_sites (V): call-site obligations for C11's 'at no instant are more item futures in progress than the configured concurrency
limit' and 'a future item that takes longer than the configured timeout is cancelled': the value a user hands to Uni / Multi as
`concurrency_limit` (and `futures_timeout`) must reach `StreamExecutor::spawn_*executor(limit, ..)` / `with_futures_timeout(.., timeout)`
UNCHANGED through every wrapper layer (Uni::spawn_*executors, Multi::spawn_*executor, Multi::spawn_*executor_from_stream). The executor's
own use of the limit (`for_each_concurrent(limit as usize)`, `1 => for_each`) is decided in unit executor_life.

Generated from /repo on every run: for each wrapper the statements that (re)bind `concurrency_limit` / `futures_timeout` inside the
function and the argument expression handed on are spliced VERBATIM into a Verus function whose postcondition is 'result == parameter'
(`in_streams.len()` -> the symbolic `n_streams >= 1`, `UniChannelType::MAX_STREAMS` -> symbolic `max_streams >= 1`)."""
import os, re
from engine.verus_run import Unit, Lemma
from engine import rustlex as lx
from engine.common import Undecided, read

# (file, wrapper fn, nth definition of that name in the file, regex of the call that takes the value on (ending at its '('), what)
SITES = []
for n in ("spawn_executors", "spawn_fallibles_executors", "spawn_futures_executors", "spawn_non_futures_non_fallibles_executors"):
    SITES.append(("src/uni/uni.rs", n, 0, r"\.\s*spawn_\w*executor\s*(?:::\s*<[^>]*>)?\s*\(", "limit"))
for n in ("spawn_executors", "spawn_futures_executors"):
    SITES.append(("src/uni/uni.rs", n, 0, r"\bwith_futures_timeout\s*\(", "timeout"))
for n in ("spawn_executor", "spawn_futures_executor", "spawn_fallibles_executor", "spawn_non_futures_non_fallible_executor"):
    SITES.append(("src/multi/multi.rs", n, 0, r"\.\s*" + n + r"_from_stream\s*\(", "limit"))
    SITES.append(("src/multi/multi.rs", n + "_from_stream", 0, r"\.\s*spawn_\w*executor\s*(?:::\s*<[^>]*>)?\s*\(", "limit"))
for n in ("spawn_executor", "spawn_futures_executor"):
    SITES.append(("src/multi/multi.rs", n, 0, r"\.\s*" + n + r"_from_stream\s*\(", "timeout"))
    SITES.append(("src/multi/multi.rs", n + "_from_stream", 0, r"\bwith_futures_timeout\s*\(", "timeout"))

SPEC = r"""
/// opaque name argument of StreamExecutor::with_futures_timeout(name, timeout)
pub struct Name { pub v: u8 }
"""


def _fn_body(text, msk, file, name):
    hits = []
    k = 0
    while True:
        h = lx.find_fn(text, name, None, msk, k)
        if not h:
            break
        hits.append(h); k += 1
    # trait declarations have no body and are skipped by find_fn; take the first definition WITH a body
    if not hits:
        raise Undecided(f"{file}: fn {name} not found")
    return hits[0]


def generate(repo, log):
    out, lemmas = "", []
    for file, fname, nth, call_re, what in SITES:
        path = os.path.join(repo, file)
        if not os.path.exists(path):
            raise Undecided(f"{file} not found")
        text = read(path)
        msk = lx.mask(text)
        s0, bo, bc = _fn_body(text, msk, file, fname)
        body, bm = text[bo + 1:bc], msk[bo + 1:bc]
        var = "concurrency_limit" if what == "limit" else "futures_timeout"
        if not re.search(r"\b" + var + r"\s*:", msk[s0:bo]):
            raise Undecided(f"{file}::{fname}: no parameter `{var}` -- contract needs review")
        calls = list(re.finditer(call_re, bm))
        if not calls:
            raise Undecided(f"{file}::{fname}: call /{call_re}/ not found -- contract needs review")
        # every call site of the wrapper must hand the value on unchanged (the oldies variants are covered by unit multi_oldies)
        exprs = []
        for mc in calls:
            o = mc.end() - 1
            c = lx.match_close(bm, o)
            args = [a.strip() for a in lx.split_args(lx.strip_comments(body[o + 1:c]))]
            if what == "limit":
                exprs.append((args[0], mc.start()))
            else:
                # the timeout is the argument literally named futures_timeout, or the 2nd of with_futures_timeout / *_from_stream
                exprs.append((args[1], mc.start()))
        # rebinding statements of the variable before the (first) call
        rebinds = []
        for mr in re.finditer(r"\blet\s+(?:mut\s+)?" + var + r"\s*(?::\s*[\w:<>]+\s*)?=\s*([^;]+);", bm):
            if mr.start() < exprs[-1][1]:
                rebinds.append(lx.strip_comments(body[mr.start():mr.end()]).strip())
        for mr in re.finditer(r"(?<![\w.])" + var + r"\s*([-+*/%]?=)(?!=)\s*([^;]+);", bm):
            if mr.start() < exprs[-1][1] and not re.search(r"\blet\s+(?:mut\s+)?$", bm[:mr.start()]):
                rebinds.append(lx.strip_comments(body[mr.start():mr.end()]).strip())

        def adapt(e):
            e = re.sub(r"\bin_streams\s*\.\s*len\s*\(\s*\)", "n_streams", e)
            e = re.sub(r"\b(?:UniChannelType|Self)::MAX_STREAMS\b", "max_streams", e)
            return e
        ty = "u32" if what == "limit" else "Duration"
        # the limit: 0 means 'unlimited' to for_each_concurrent, so a configured limit >= 1 must arrive as a value in 1..=limit (the statement bounds
        # the futures in flight from above; a wrapper that lowers the limit does not break it); the timeout must arrive as configured
        post = "concurrency_limit >= 1 ==> 1 <= r <= concurrency_limit" if what == "limit" else "r == futures_timeout"
        tag = re.sub(r"\W+", "_", file.split("/")[-1][:-3]) + "_" + fname + "_" + what
        for k, (e, _pos) in enumerate(exprs):
            out += (f"/// {file}::{fname}: the {var} handed on at call #{k} of /{call_re.replace(chr(92), '')[:40]}/\n"
                    f"pub fn site_{tag}_{k}(concurrency_limit: u32, futures_timeout: Duration, n_streams: usize, max_streams: usize) -> (r: {ty})\n"
                    f"    requires n_streams >= 1, max_streams >= 1,\n    ensures {post},\n{{\n"
                    + ("    let mut " + var + " = " + var + ";\n" if any(not x.startswith("let") for x in rebinds) else "")
                    + "".join("    " + adapt(x) + "\n" for x in rebinds) + f"    {adapt(e)}\n}}\n")
            lemmas.append(Lemma(f"site_{tag}_{k}", ["C11"], kind="property", clauses=[f"{fname}: {post} (argument: `{e}`)"]))
            log["R15-call-site"] = log.get("R15-call-site", 0) + 1
    return out, lemmas


UNIT = Unit("limit_sites", [], spec=SPEC, generated=generate, lemmas=[], props=["C11"],
            trusted=[],
            assumptions=["call-site obligations are generated from the argument expressions and the rebinding statements of the wrapper functions; other data flow (a value smuggled through a struct field or a closure capture) is not tracked"])
