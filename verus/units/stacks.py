"""Units stack_atomic / stack_parking_lot (V): push / pop of the two stand-alone stacks for a SYMBOLIC capacity, with the lock treated
as a resource invariant (DESIGN §3.4): acquiring the lock hands the critical section an ARBITRARY well-formed stack state (whatever the
other threads left), every access to head / buffer is asserted to happen while the lock is held (LK1), the critical section must
implement the LIFO operation on the state it found (LK2) and must restore the invariant before releasing. With LK3 (the flag / the
parking_lot mutex excludes -- ASSUMED) every execution is the sequential history ordered by lock acquisition: linearizable LIFO (C18)."""
from engine.extract import FnSpec, Rule
from engine.verus_run import Unit, Lemma


def spec(metric_ty, metric_wf):
    return r"""
pub struct Stack<SlotType, const BUFFER_SIZE: usize, const METRICS: bool, const DEBUG: bool> {
    pub head: u32,
    pub buffer: [SlotType; BUFFER_SIZE],
    pub push_count: METRIC, pub pop_count: METRIC, pub push_collisions: METRIC, pub pop_collisions: METRIC,
    pub push_full_count: METRIC, pub pop_empty_count: METRIC,
    /// ghost: does THIS thread hold the lock
    pub held: Ghost<bool>,
    /// ghost: the abstract stack (bottom..top) found when the lock was acquired / left when it was released
    pub at_acquire: Ghost<Seq<SlotType>>,
    pub at_release: Ghost<Seq<SlotType>>,
    pub acquisitions: Ghost<nat>,
}

impl<SlotType: Copy, const BUFFER_SIZE: usize, const METRICS: bool, const DEBUG: bool> Stack<SlotType, BUFFER_SIZE, METRICS, DEBUG> {
    pub open spec fn view(&self) -> Seq<SlotType> { self.buffer@.subrange(0, self.head as int) }
    /// resource invariant protected by the lock
    pub open spec fn wf(&self) -> bool { 0 < BUFFER_SIZE <= 0x7fff_ffff && self.head as int <= BUFFER_SIZE }
    /// ASSUMED at acquisition only (not part of the invariant): the metric counters are below their type's maximum
    pub open spec fn metrics_ok(&self) -> bool { true METRIC_WF }

    /// lock acquisition (flag.swap(true) answering "was free" / RawMutex::lock): ASSUMED to exclude; the protected state is whatever
    /// the previous holder left -- any state satisfying the resource invariant
    #[verifier::external_body]
    pub fn acquire(&mut self)
        requires !old(self).held@,
        ensures final(self).held@, final(self).wf(), final(self).metrics_ok(), final(self).at_acquire@ == final(self)@, final(self).acquisitions@ == old(self).acquisitions@ + 1,
    { }
    /// spin flag: swap(true) answers arbitrarily whether somebody else holds it (A-model read); `false` means we acquired
    #[verifier::external_body]
    pub fn try_acquire(&mut self) -> (in_use: bool)
        requires !old(self).held@,
        ensures in_use ==> !final(self).held@ && final(self).acquisitions == old(self).acquisitions && final(self).at_acquire == old(self).at_acquire && final(self).at_release == old(self).at_release,
                !in_use ==> final(self).held@ && final(self).wf() && final(self).metrics_ok() && final(self).at_acquire@ == final(self)@ && final(self).acquisitions@ == old(self).acquisitions@ + 1,
    { unimplemented!() }
    /// lock release: the resource invariant must hold again; the abstract state left behind is recorded
    #[verifier::external_body]
    pub fn release(&mut self)
        requires old(self).held@, old(self).wf(),
        ensures !final(self).held@, final(self).at_release@ == old(self)@, final(self).at_acquire == old(self).at_acquire, final(self).acquisitions == old(self).acquisitions,
    { }
    #[verifier::external_body]
    pub fn spin_hint(&self) { }
}
""".replace("METRIC_WF", metric_wf).replace("METRIC", metric_ty)


CONTAINER = "impl<SlotType: Copy, const BUFFER_SIZE: usize, const METRICS: bool, const DEBUG: bool> Stack<SlotType, BUFFER_SIZE, METRICS, DEBUG>"
IMPL = r"impl\s*<\s*SlotType\s*:\s*Copy\s*\+\s*Debug\s*,[^>]*>\s*OgreStack\s*<\s*SlotType\s*>\s*for\s+Stack\s*<[^>]*>\s*(?=\{)"

MUTSELF = Rule("R6-mutable_self", r"let mutable_self = unsafe \{ &mut \*\(\*\(self as \*const Self as \*const std::cell::UnsafeCell<Self>\)\)\.get\(\) \};", "", count=1,
               note="the &self -> &mut Self cast through UnsafeCell is dropped (back end K executes it for the atomic stack); mutable_self.x == self.x")
MUTSELF_USE = Rule("R6-mutable_self-use", r"\bmutable_self\.", "self.", min=1)
LK1 = Rule("LK1-assert-held", r"(?m)^(\s*)(?=[^\n]*\bself\.(?:head|buffer)\b)", r"\1assert(self.held@); ", min=2,
           note="every statement touching head / buffer is preceded by assert(lock held) -- the lock-discipline obligation LK1")
SPIN = Rule("R11-spin", r"std::hint::spin_loop\(\);", "self.spin_hint();", count=1)

PUSH_ENS = ("!final(self).held@,"
            "final(self).acquisitions@ == old(self).acquisitions@ + 1,"
            "r ==> final(self).at_release@ =~= final(self).at_acquire@.push(element),"
            "!r ==> final(self).at_acquire@.len() == BUFFER_SIZE && final(self).at_release@ == final(self).at_acquire@,"
            "r <==> final(self).at_acquire@.len() < BUFFER_SIZE")
POP_ENS = ("!final(self).held@,"
           "final(self).acquisitions@ == old(self).acquisitions@ + 1,"
           "r is Some ==> final(self).at_acquire@.len() > 0 && r == Some(final(self).at_acquire@.last()) && final(self).at_release@ =~= final(self).at_acquire@.drop_last(),"
           "r is None ==> final(self).at_acquire@.len() == 0 && final(self).at_release@ == final(self).at_acquire@")


def fn(file, name, **kw):
    f = FnSpec(file, name, impl=IMPL, **kw)
    f.container = CONTAINER
    return f


FA = "src/ogre_std/ogre_stacks/non_blocking_atomic_stack.rs"
ATOMIC_RULES = [MUTSELF, MUTSELF_USE,
                Rule("LK-acquire", r"self\.flag\.swap\(true, Ordering::Acquire\)", "self.try_acquire()", count=1, note="spin-flag acquisition -> try_acquire()"),
                Rule("LK-release", r"self\.flag\.store\(false, Ordering::(?:Relaxed|Release)\);", "self.release();", min=1, note="spin-flag release -> release()"),
                SPIN, LK1]
LOOP_INV = "invariant !self.held@, self.acquisitions == old(self).acquisitions,"
ATOMIC = Unit("stack_atomic", [
    fn(FA, "push", props=["C18"], attrs="#[verifier::exec_allows_no_decreases_clause]",
       sig="pub fn push(&mut self, element: SlotType) -> (r: bool)", sig_anchor=r"fn push\(&self, element: SlotType\) -> bool",
       rules=ATOMIC_RULES, requires="!old(self).held@", ensures=PUSH_ENS, loops={0: LOOP_INV}),
    fn(FA, "pop", props=["C18"], attrs="#[verifier::exec_allows_no_decreases_clause]",
       sig="pub fn pop(&mut self) -> (r: Option<SlotType>)", sig_anchor=r"fn pop\(&self\) -> Option<SlotType>",
       rules=ATOMIC_RULES, requires="!old(self).held@", ensures=POP_ENS, loops={0: LOOP_INV}),
], spec=spec("AtomicU64", ""),
    trusted=["acquire / try_acquire / release: external_body lock shims (DESIGN §3.4): mutual exclusion of the swap-based spin flag is ASSUMED (LK3)"],
    assumptions=["LK3: the spin flag excludes, memory is sequentially consistent (the Relaxed unlock store on the full/empty paths is outside the model)",
                 "len() / is_empty() are racy advisory reads outside the lock by design and are not covered"])

FP = "src/ogre_std/ogre_stacks/non_blocking_parking_lot_stack.rs"
PL_RULES = [MUTSELF, MUTSELF_USE,
            Rule("LK-acquire", r"self\.concurrency_guard\.lock\(\);", "self.acquire();", count=1, note="RawMutex::lock -> acquire()"),
            Rule("LK-release", r"unsafe \{self\.concurrency_guard\.unlock\(\)\};", "self.release();", min=1, note="RawMutex::unlock -> release()"),
            LK1]
PARKING = Unit("stack_parking_lot", [
    fn(FP, "push", props=["C18"],
       sig="pub fn push(&mut self, element: SlotType) -> (r: bool)", sig_anchor=r"fn push\(&self, element: SlotType\) -> bool",
       rules=PL_RULES, requires="!old(self).held@", ensures=PUSH_ENS),
    fn(FP, "pop", props=["C18"],
       sig="pub fn pop(&mut self) -> (r: Option<SlotType>)", sig_anchor=r"fn pop\(&self\) -> Option<SlotType>",
       rules=PL_RULES, requires="!old(self).held@", ensures=POP_ENS),
], spec=spec("u64", " && self.push_count < u64::MAX && self.pop_count < u64::MAX && self.push_full_count < u64::MAX && self.pop_empty_count < u64::MAX"),
    trusted=["acquire / release: external_body lock shims (DESIGN §3.4): mutual exclusion of parking_lot::RawMutex is ASSUMED (LK3)"],
    assumptions=["LK3: parking_lot::RawMutex excludes", "the u64 metric counters of the parking-lot stack never reach 2^64 (their `+= 1` would panic in overflow-checking builds)",
                 "len() / is_empty() are racy advisory reads outside the lock by design and are not covered"])

UNITS = [ATOMIC, PARKING]
