"""Unit uni_latch (V, S-model): `latch_callback_1p` of src/uni/uni.rs (C12: a Uni's close callback runs exactly once, after all of its
MAX_STREAMS executors finished). The returned closure's `async move` body is lifted (R15) into a function over the two captured cells;
induction on the counter: with the counter at c >= 1 and the callback still present, one call decrements it and invokes the callback
iff c == 1 -- so of n calls exactly the n-th invokes it, once; the BUG! expect() is unreachable."""
from engine.extract import FnSpec, Rule, ReplaceBlocksNumbered
from engine.verus_run import Unit, Lemma

F = "src/uni/uni.rs"
SPEC = r"""
pub struct Param { pub v: u64 }
/// the user's FnOnce close callback
pub struct Callback { pub id: u64 }
impl Callback {
    /// `(callback)(p1).await`
    #[verifier::external_body] pub fn call(self, p1: Param) { }
}
pub struct Latch { pub latch_counter: AtomicU32, pub async_callback: Option<Callback> }
impl Latch {
    /// latch invariant: while calls are still expected the callback has not been consumed
    pub open spec fn inv(&self) -> bool { self.latch_counter@ >= 1 ==> self.async_callback is Some }
}
/// n calls starting from `new(n)`: by induction over the per-call contract, the callback is consumed by exactly the n-th call
pub proof fn lemma_latch_counts_down(c: u32, k: u32)
    requires 1 <= k <= c,
    ensures (c - (k - 1)) as u32 == 1 <==> k == c,
{ }
"""

FNS = [
    FnSpec(F, "latch_callback_1p", out_name="latch_new", props=["C12"],
           sig="pub fn latch_new(latch_count: u32, async_callback: Callback) -> (r: Latch)", sig_anchor=r"fn latch_callback_1p<",
           rules=[Rule("R15-arc-mutex", r"Arc::new\(Mutex::new\(Some\(async_callback\)\)\)", "Some(async_callback)", count=1, note="Arc<tokio::Mutex<..>> wrapper dropped (exclusive access ASSUMED)"),
                  Rule("R15-arc", r"Arc::new\(AtomicU32::new\(([^()]*)\)\)", r"AtomicU32::new(\1)", count=1),
                  ReplaceBlocksNumbered("R15-closure", r"move \|p1\| \{", "Latch { latch_counter, async_callback }", count=1, note="the returned closure is represented by its two captured cells; its body is the obligation latch_call")],
           ensures="r.latch_counter@ == latch_count, r.async_callback is Some, latch_count >= 1 ==> r.inv()"),
    FnSpec(F, "latch_callback_1p", out_name="latch_call", props=["C12"], block_anchor=r"Box::pin\(async move\s*(?=\{)",
           sig="pub fn latch_call(latch_counter: &mut AtomicU32, async_callback: &mut Option<Callback>, p1: Param)", sig_anchor=r"fn latch_callback_1p<",
           rules=[Rule("R10-mutex-lock", r"let mut async_callback = async_callback\.lock\(\)\.await;", "", min=0, note="tokio Mutex guard dropped (exclusive access ASSUMED)"),
                  Rule("R10-mutex-lock-expr", r"\basync_callback\.lock\(\)\.await\b", "async_callback", min=0, note="tokio Mutex guard used in an expression -> the protected cell itself"),
                  Rule("R15-fnonce-call", r"\((async_callback(?:\.take\(\))?)\.expect\(\"[^\"]*\"\)\)\(p1\)\.await;", r"\1.unwrap().call(p1);", count=1,
                       note="expect -> unwrap (reachability of the BUG! panic becomes an obligation); FnOnce call -> Callback::call")],
           requires="old(latch_counter)@ >= 1, *old(async_callback) is Some",
           ensures="final(latch_counter)@ == old(latch_counter)@ - 1,"
                   "old(latch_counter)@ == 1 <==> *final(async_callback) is None,"
                   "final(latch_counter)@ >= 1 ==> *final(async_callback) is Some"),
]
SPAWNERS = ["spawn_executors", "spawn_fallibles_executors", "spawn_futures_executors", "spawn_non_futures_non_fallibles_executors"]


def latch_call_sites(repo, log):
    """C12 call-site obligation, generated from /repo on every run: each Uni::spawn_* arms the latch with exactly MAX_STREAMS (one count per
    executor it spawns). The argument expression of the real call is spliced verbatim (R15: `UniChannelType::MAX_STREAMS as u32` -> the
    symbolic `max_streams`) into a function whose postcondition is the obligation."""
    import os, re
    from engine import rustlex as lx
    from engine.common import Undecided, read
    path = os.path.join(repo, F)
    if not os.path.exists(path):
        raise Undecided(f"{F} not found")
    text = read(path)
    msk = lx.mask(text)
    out, lemmas = "", []
    for name in SPAWNERS:
        hit = lx.find_fn(text, name, None, msk)
        if not hit:
            raise Undecided(f"{F}: fn {name} not found")
        s0, bo, bc = hit
        body, bmsk = text[bo:bc], msk[bo:bc]
        ms = list(re.finditer(r"\blatch_callback_1p\s*\(", bmsk))
        if len(ms) != 1:
            raise Undecided(f"{F}::{name}: expected exactly one latch_callback_1p(..) call, found {len(ms)} -- contract needs review")
        o = ms[0].end() - 1
        c = lx.match_close(bmsk, o)
        args = lx.split_args(lx.strip_comments(body[o + 1:c]))
        if len(args) != 2:
            raise Undecided(f"{F}::{name}: latch_callback_1p called with {len(args)} arguments")
        count = re.sub(r"UniChannelType::MAX_STREAMS\s+as\s+u32", "max_streams", args[0])
        count = re.sub(r"\bSelf::MAX_STREAMS\s+as\s+u32", "max_streams", count)
        out += (f"/// {F}::{name}: `latch_callback_1p({args[0]}, ..)`\n"
                f"pub fn latch_site_{name}(max_streams: u32, concurrency_limit: u32, on_close_callback: Callback) -> (r: Latch)\n"
                f"    ensures r.latch_counter@ == max_streams, r.async_callback is Some,\n{{ latch_new({count}, on_close_callback) }}\n")
        lemmas.append(Lemma(f"latch_site_{name}", ["C12"], kind="property", clauses=[f"{name}: the latch is armed with MAX_STREAMS (argument: `{args[0]}`)"]))
        log["R15-call-site"] = log.get("R15-call-site", 0) + 1
    return out, lemmas


UNIT = Unit("uni_latch", FNS, spec=SPEC, generated=latch_call_sites, lemmas=[Lemma("lemma_latch_counts_down", ["C12"], clauses=["the k-th of c calls sees the counter at 1 iff k == c"])] + [Lemma("latch_site_" + n, ["C12"]) for n in SPAWNERS],
            trusted=["Callback::call (the user's FnOnce), tokio::sync::Mutex (exclusive): shims"],
            assumptions=["the number of executors a Uni spawns equals MAX_STREAMS (zip of MAX_STREAMS streams with the executors): read from the code, not verified; that the latch is ARMED with MAX_STREAMS is the latch_site_* obligations",
                         "A-model residue: concurrent callers are serialised by fetch_sub's atomicity (assumed)"])

# ------------------------------------------------------------------------------------------------------------------------------------
# closers: Uni::close / Uni::flush / Multi::close / Multi::flush_and_cancel_executor (C06, C12): thin wrappers, but they are where a close
# can be short-circuited. Obligation: the answer is computed from exactly one graceful end of the channel's streams, with the caller's timeout
# ------------------------------------------------------------------------------------------------------------------------------------
SPEC_CLOSE = r"""
pub enum ChanEv { EndAll(Duration, u32), EndStream(u32, Duration), Flush(Duration, u32) }
/// the channel seen from Uni / Multi: its graceful-end entry points (decided per channel through streams_manager: C06)
pub struct Channel { pub calls: Ghost<Seq<ChanEv>> }
impl Channel {
    #[verifier::external_body]
    pub fn gracefully_end_all_streams(&mut self, timeout: Duration) -> (r: u32)
        ensures final(self).calls@ == old(self).calls@.push(ChanEv::EndAll(timeout, r)),
    { unimplemented!() }
    #[verifier::external_body]
    pub fn gracefully_end_stream(&mut self, stream_id: u32, timeout: Duration) -> (r: bool)
        ensures final(self).calls@ == old(self).calls@.push(ChanEv::EndStream(stream_id, timeout)),
    { unimplemented!() }
    #[verifier::external_body]
    pub fn flush(&mut self, timeout: Duration) -> (r: u32)
        ensures final(self).calls@ == old(self).calls@.push(ChanEv::Flush(timeout, r)),
    { unimplemented!() }
    /// the channel's status queries: racy snapshots with ARBITRARY answers -- a close that decides from one of them instead of going through a graceful end
    /// fails its postcondition (e.g. `is_channel_open()` turns false as soon as the streams are TOLD to end, long before they have drained)
    #[verifier::external_body] pub fn is_channel_open(&self) -> bool { unimplemented!() }
    #[verifier::external_body] pub fn running_streams_count(&self) -> u32 { unimplemented!() }
    #[verifier::external_body] pub fn pending_items_count(&self) -> u32 { unimplemented!() }
    #[verifier::external_body] pub fn buffer_size(&self) -> u32 { unimplemented!() }
}
pub struct Stats { pub v: u8 }
impl Stats { #[verifier::external_body] pub fn report_scheduled_to_finish(&self) { } }
pub struct ExecutorInfo { pub executor_stats: Stats, pub stream_id: u32 }
pub struct ExecName { pub v: u8 }
pub fn fmt_stub() -> ExecName { ExecName { v: 0 } }
/// the registry `RwLock<IndexMap<String, ExecutorInfo>>` (lock + map ASSUMED): removal answers what was registered under the name
pub struct ExecutorInfos { pub registered: Ghost<Option<u32>> }
impl ExecutorInfos {
    #[verifier::external_body]
    pub fn swap_remove(&mut self, name: &ExecName) -> (r: Option<ExecutorInfo>)
        ensures (r matches Some(info) ==> old(self).registered@ == Some(info.stream_id) && final(self).registered@ is None),
                r is None ==> old(self).registered@ is None && final(self).registered == old(self).registered,
    { unimplemented!() }
    #[verifier::external_body] pub fn read(&self) -> (r: &Self) ensures r == self { self }
    #[verifier::external_body] pub fn is_empty(&self) -> bool { unimplemented!() }
    #[verifier::external_body] pub fn len(&self) -> usize { unimplemented!() }
}
pub struct Uni { pub channel: Channel, pub finished_executors_count: AtomicU32 }
pub struct Multi { pub multi_name: ExecName, pub channel: Channel, pub executor_infos: ExecutorInfos }
"""
FU = "src/uni/uni.rs"
FM = "src/multi/multi.rs"
AWAIT_ANY = Rule("R10-await", r"\.await\b", "", min=1, note=".await dropped (de-asynced)")
CLOSERS = [
    FnSpec(FU, "close", impl=r"GenericUni\s+for\s+Uni\s*<[^{]*(?=\{)", out_name="uni_close", props=["C06"],
           sig="pub fn uni_close(&mut self, timeout: Duration) -> (r: bool)", sig_anchor=r"async fn close\(&self, timeout: Duration\) -> bool",
           rules=[AWAIT_ANY],
           ensures="final(self).channel.calls@.len() == old(self).channel.calls@.len() + 1,"
                   "final(self).channel.calls@.last() matches ChanEv::EndAll(t, left) && t == timeout && (r <==> left == 0),"
                   "final(self).channel.calls@.drop_last() =~= old(self).channel.calls@"),
    FnSpec(FU, "flush", impl=r"GenericUni\s+for\s+Uni\s*<[^{]*(?=\{)", out_name="uni_flush", props=["C06"], kind="helper",
           sig="pub fn uni_flush(&mut self, duration: Duration) -> (r: u32)", sig_anchor=r"async fn flush\(&self, duration: Duration\) -> u32",
           rules=[AWAIT_ANY],
           ensures="final(self).channel.calls@ =~= old(self).channel.calls@.push(ChanEv::Flush(duration, r))"),
    FnSpec(FM, "close", impl=r"impl\s*<[^{]*>\s*Multi\s*<\s*ItemType\s*,\s*MultiChannelType\s*,\s*INSTRUMENTS\s*,\s*DerivedItemType\s*>\s*(?=\{)", out_name="multi_close", props=["C06"],
           sig="pub fn multi_close(&mut self, timeout: Duration) -> (r: bool)", sig_anchor=r"pub async fn close\(&self, timeout: Duration\) -> bool",
           rules=[AWAIT_ANY],
           ensures="final(self).channel.calls@.len() == old(self).channel.calls@.len() + 1,"
                   "final(self).channel.calls@.last() matches ChanEv::EndAll(t, left) && t == timeout && (r <==> left == 0),"
                   "final(self).channel.calls@.drop_last() =~= old(self).channel.calls@"),
    FnSpec(FM, "flush_and_cancel_executor", impl=r"impl\s*<[^{]*>\s*Multi\s*<\s*ItemType\s*,\s*MultiChannelType\s*,\s*INSTRUMENTS\s*,\s*DerivedItemType\s*>\s*(?=\{)", props=["C12", "C06", "C07"],
           sig="pub fn flush_and_cancel_executor(&mut self, pipeline_name: ExecName, timeout: Duration) -> (r: bool)",
           sig_anchor=r"pub async fn flush_and_cancel_executor<IntoString: Into<String>> \(&self, pipeline_name: IntoString, timeout: Duration\) -> bool",
           rules=[ReplaceBlocksNumbered("R9-format", r"format!\(", "fmt_stub()", count=1, note="format!(..) (the executor's registry key) -> opaque name"),
                  Rule("R10-rwlock-write", r"self\.executor_infos\.write\(\)\.await", "&mut self.executor_infos", count=1, note="RwLock write guard -> &mut (exclusive access ASSUMED)"),
                  Rule("R10-guard-drop", r"drop\(executor_infos\);", "", min=0),
                  AWAIT_ANY],
           ensures="r ==> old(self).executor_infos.registered@ is Some && final(self).executor_infos.registered@ is None"
                   "  && final(self).channel.calls@ =~= old(self).channel.calls@.push(ChanEv::EndStream(old(self).executor_infos.registered@.unwrap(), timeout)),"
                   "!r ==> old(self).executor_infos.registered@ is None && final(self).channel.calls == old(self).channel.calls"),
]
CLOSERS[0].container = CLOSERS[1].container = "impl Uni"
CLOSERS[2].container = CLOSERS[3].container = "impl Multi"
UNIT_CLOSE = Unit("closers", CLOSERS, spec=SPEC_CLOSE,
                  trusted=["Channel::{gracefully_end_all_streams, gracefully_end_stream, flush}: shims that log the call (each channel forwards them to StreamsManagerBase: unit streams_manager)",
                           "tokio RwLock / IndexMap of Multi::executor_infos: shim"],
                  assumptions=["a Multi's registry holds at most the executor being removed (one entry is modelled)"])
UNITS = [UNIT, UNIT_CLOSE]
