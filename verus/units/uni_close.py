"""Unit uni_latch (V, S-model): `latch_callback_1p` of src/uni/uni.rs (C12: a Uni's close callback runs exactly once, after all of its
MAX_STREAMS executors finished). The returned closure's `async move` body is lifted (R15) into a function over the two captured cells;
induction on the counter: with the counter at c >= 1 and the callback still present, one call decrements it and invokes the callback
iff c == 1 -- so of n calls exactly the n-th invokes it, once; the BUG! expect() is unreachable."""
from engine.extract import FnSpec, Rule, ReplaceBlocksNumbered
from engine.verus_run import Unit, Lemma

F = "src/uni/uni.rs"
SPEC = r"""
pub struct Param { pub v: u64 }
/// the user's FnOnce close callback
pub struct Callback { pub id: u64 }
impl Callback {
    /// `(callback)(p1).await`
    #[verifier::external_body] pub fn call(self, p1: Param) { }
}
pub struct Latch { pub latch_counter: AtomicU32, pub async_callback: Option<Callback> }
impl Latch {
    /// latch invariant: while calls are still expected the callback has not been consumed
    pub open spec fn inv(&self) -> bool { self.latch_counter@ >= 1 ==> self.async_callback is Some }
}
/// n calls starting from `new(n)`: by induction over the per-call contract, the callback is consumed by exactly the n-th call
pub proof fn lemma_latch_counts_down(c: u32, k: u32)
    requires 1 <= k <= c,
    ensures (c - (k - 1)) as u32 == 1 <==> k == c,
{ }
"""

FNS = [
    FnSpec(F, "latch_callback_1p", out_name="latch_new", props=["C12"],
           sig="pub fn latch_new(latch_count: u32, async_callback: Callback) -> (r: Latch)", sig_anchor=r"fn latch_callback_1p<",
           rules=[Rule("R15-arc-mutex", r"Arc::new\(Mutex::new\(Some\(async_callback\)\)\)", "Some(async_callback)", count=1, note="Arc<tokio::Mutex<..>> wrapper dropped (exclusive access ASSUMED)"),
                  Rule("R15-arc", r"Arc::new\(AtomicU32::new\(([^()]*)\)\)", r"AtomicU32::new(\1)", count=1),
                  ReplaceBlocksNumbered("R15-closure", r"move \|p1\| \{", "Latch { latch_counter, async_callback }", count=1, note="the returned closure is represented by its two captured cells; its body is the obligation latch_call")],
           ensures="r.latch_counter@ == latch_count, r.async_callback is Some, latch_count >= 1 ==> r.inv()"),
    FnSpec(F, "latch_callback_1p", out_name="latch_call", props=["C12"], block_anchor=r"Box::pin\(async move\s*(?=\{)",
           sig="pub fn latch_call(latch_counter: &mut AtomicU32, async_callback: &mut Option<Callback>, p1: Param)", sig_anchor=r"fn latch_callback_1p<",
           rules=[Rule("R10-mutex-lock", r"let mut async_callback = async_callback\.lock\(\)\.await;", "", count=1, note="tokio Mutex guard dropped (exclusive access ASSUMED)"),
                  Rule("R15-fnonce-call", r"\(async_callback\.take\(\)\.expect\(\"[^\"]*\"\)\)\(p1\)\.await;", "async_callback.take().unwrap().call(p1);", count=1,
                       note="expect -> unwrap (reachability of the BUG! panic becomes an obligation); FnOnce call -> Callback::call")],
           requires="old(latch_counter)@ >= 1, *old(async_callback) is Some",
           ensures="final(latch_counter)@ == old(latch_counter)@ - 1,"
                   "old(latch_counter)@ == 1 <==> *final(async_callback) is None,"
                   "final(latch_counter)@ >= 1 ==> *final(async_callback) is Some"),
]
UNIT = Unit("uni_latch", FNS, spec=SPEC, lemmas=[Lemma("lemma_latch_counts_down", ["C12"], clauses=["the k-th of c calls sees the counter at 1 iff k == c"])],
            trusted=["Callback::call (the user's FnOnce), tokio::sync::Mutex (exclusive): shims"],
            assumptions=["the number of executors a Uni spawns equals MAX_STREAMS == the latch count (zip of MAX_STREAMS streams with the executors): read from the code, not verified",
                         "A-model residue: concurrent callers are serialised by fetch_sub's atomicity (assumed)"])
