"""Unit multi_oldies (V): call-site obligations of the four `Multi::spawn_*_oldies_executor` functions (C12: with a sequential old-to-new
transition no new event is processed before every old event has been; each executor is registered under the id of the stream it consumes;
C11: the configured concurrency limit / timeout reaches both executors).

The functions are generic over half a dozen stream / future / closure types and consist of closures nested in call arguments, which is
outside what Verus accepts. What decides the property in them is small and syntactic: WHICH call of `spawn_*_executor_from_stream` sits
inside the close callback of which other call, under which arm of `match sequential_transition`, with which argument expressions.
So -- as for the Uni latch -- the generator reads the real function on every run and emits one Verus function per variant in which
  * the destructuring pattern of `create_streams_for_old_and_new_events()`, the arguments of the two pipeline builders, the match
    scrutinee, the arm patterns and the argument expressions of every `*_from_stream` call are spliced VERBATIM,
  * each `*_from_stream` call becomes `log.spawn(limit, timeout, stream_id, stream, nested_in)` where `nested_in` is the stream-id argument
    of the call whose close-callback argument textually contains this call (None at top level),
and whose postcondition is the obligation. That an executor's close callback runs only after its last item is the contract of the
executor task bodies (unit executor_life); the nesting therefore gives 'newies start after the last oldie'."""
import os, re
from engine.verus_run import Unit, Lemma
from engine import rustlex as lx
from engine.common import Undecided, read

F = "src/multi/multi.rs"
VARIANTS = [("spawn_oldies_executor", "spawn_executor_from_stream"),
            ("spawn_futures_oldies_executor", "spawn_futures_executor_from_stream"),
            ("spawn_fallibles_oldies_executor", "spawn_fallibles_executor_from_stream"),
            ("spawn_non_futures_non_fallible_oldies_executor", "spawn_non_futures_non_fallible_executor_from_stream")]

SPEC = r"""
#[derive(PartialEq, Eq, Clone, Copy)]
pub enum Kind { Old, New }
/// the stream handed out by the channel for old / new events, and what a pipeline builder makes of it (same kind, same id)
pub struct InStream { pub kind: Kind, pub id: u32 }
pub struct OutStream { pub kind: Kind, pub id: u32 }
/// `self.channel.create_streams_for_old_and_new_events()` (decided under C09): ((old stream, its id), (new stream, its id)), ids distinct
#[verifier::external_body]
pub fn create_streams_for_old_and_new_events() -> (r: ((InStream, u32), (InStream, u32)))
    ensures (r.0).0.kind == Kind::Old, (r.0).0.id == (r.0).1, (r.1).0.kind == Kind::New, (r.1).0.id == (r.1).1, (r.0).1 != (r.1).1,
{ unimplemented!() }
/// `oldies_pipeline_builder(stream)` / `newies_pipeline_builder(stream)`: the user's builder; the obligation is that it is given ITS stream
pub fn build(expected: Kind, s: InStream) -> (r: OutStream)
    requires s.kind == expected,
    ensures r.kind == s.kind, r.id == s.id,
{ OutStream { kind: s.kind, id: s.id } }

pub struct Spawn { pub limit: u32, pub timeout: Option<Duration>, pub stream_id: u32, pub kind: Kind, pub nested_in: Option<u32> }
pub struct SpawnLog { pub calls: Ghost<Seq<Spawn>> }
impl SpawnLog {
    pub fn new() -> (r: Self) ensures r.calls@.len() == 0 { SpawnLog { calls: Ghost(Seq::empty()) } }
    /// one `*_executor_from_stream(limit, [timeout,] name, stream_id, stream, .., on_close)` call.
    /// OBLIGATION at every call site: the executor is registered under the id of the very stream it consumes
    /// (flush_and_cancel_executor ends the stream registered with the executor: a wrong id closes somebody else's stream)
    pub fn spawn(&mut self, limit: u32, timeout: Option<Duration>, stream_id: u32, stream: OutStream, nested_in: Option<u32>)
        requires stream.id == stream_id,
        ensures final(self).calls@ == old(self).calls@.push(Spawn { limit, timeout, stream_id, kind: stream.kind, nested_in }),
    { proof { self.calls@ = self.calls@.push(Spawn { limit, timeout, stream_id, kind: stream.kind, nested_in }); } }
    /// the obligation on a whole spawn_*_oldies_executor: exactly one executor for the old and one for the new events, both with the
    /// configured limit (and timeout); sequential => the newies executor is spawned from INSIDE the oldies' close callback (i.e. after the
    /// last old event was processed), otherwise both are spawned at top level
    pub open spec fn ok(&self, concurrency_limit: u32, timeout: Option<Duration>, sequential_transition: bool) -> bool {
        &&& self.calls@.len() == 2
        &&& self.calls@[0].kind == Kind::Old && self.calls@[1].kind == Kind::New
        &&& self.calls@[0].limit == concurrency_limit && self.calls@[1].limit == concurrency_limit
        &&& self.calls@[0].timeout == timeout && self.calls@[1].timeout == timeout
        &&& self.calls@[0].nested_in is None
        &&& (sequential_transition ==> self.calls@[1].nested_in == Some(self.calls@[0].stream_id))
        &&& (!sequential_transition ==> self.calls@[1].nested_in is None)
    }
}
"""


def _params_of(text, msk, name):
    """parameter names (without self) of `fn name`"""
    hit = lx.find_fn(text, name, None, msk)
    if not hit:
        raise Undecided(f"{F}: fn {name} not found")
    s, bo, bc = hit
    # the parameter list is the last (...) group at depth 0 before the body
    k = msk.rfind(")", s, bo)
    # walk back to its opening parenthesis
    depth, o = 0, None
    for i in range(k, s, -1):
        if msk[i] == ")":
            depth += 1
        elif msk[i] == "(":
            depth -= 1
            if depth == 0:
                o = i; break
    # the return type may contain parentheses: `-> Result<(), ..>`; find the parameter list as the first '(' at angle depth 0 after `fn name<..>`
    m = re.compile(r"\bfn\s+" + re.escape(name) + r"\b").search(msk, s)
    i, ang = m.end(), 0
    while i < bo:
        ch = msk[i]
        if ch == "<":
            ang += 1
        elif ch == ">" and msk[i - 1] != "-" and msk[i - 1] != "=":
            ang -= 1
        elif ch == "(" and ang == 0:
            o = i; break
        i += 1
    c = lx.match_close(msk, o)
    names = []
    for a in lx.split_args(lx.strip_comments(text[o + 1:c])):
        a = a.strip()
        if not a or re.match(r"&?\s*(mut\s+)?self\b", a):
            continue
        names.append(re.match(r"(?:mut\s+)?(\w+)\s*:", a).group(1))
    return names


def oldies_sites(repo, log):
    path = os.path.join(repo, F)
    if not os.path.exists(path):
        raise Undecided(f"{F} not found")
    text = read(path)
    msk = lx.mask(text)
    out, lemmas = "", []
    for fname, callee in VARIANTS:
        params = _params_of(text, msk, callee)
        need = ["concurrency_limit", "stream_id", "pipelined_stream", "on_close_callback"]
        for n in need:
            if n not in params:
                raise Undecided(f"{F}::{callee}: parameter `{n}` not found (has {params}) -- contract needs review")
        ix = {n: params.index(n) for n in params}
        hit = lx.find_fn(text, fname, None, msk)
        if not hit:
            raise Undecided(f"{F}: fn {fname} not found")
        s0, bo, bc = hit
        body, bm = text[bo + 1:bc], msk[bo + 1:bc]
        # 1. the streams
        m = re.search(r"let\s+(\(.*?\))\s*=\s*self\s*\.\s*channel\s*\.\s*create_streams_for_old_and_new_events\s*\(\s*\)\s*;", bm, re.S)
        if not m:
            raise Undecided(f"{F}::{fname}: `let (..) = self.channel.create_streams_for_old_and_new_events();` not found -- contract needs review")
        pattern = re.sub(r"\s+", " ", body[m.start(1):m.end(1)])
        builds = []
        for var, builder, kind in (("oldies_out_stream", "oldies_pipeline_builder", "Kind::Old"), ("newies_out_stream", "newies_pipeline_builder", "Kind::New")):
            mb = re.search(r"let\s+" + var + r"\s*=\s*" + builder + r"\s*\(", bm)
            if not mb:
                raise Undecided(f"{F}::{fname}: `let {var} = {builder}(..)` not found -- contract needs review")
            o = mb.end() - 1
            c = lx.match_close(bm, o)
            builds.append(f"    let {var} = build({kind}, {lx.strip_comments(body[o + 1:c]).strip()});\n")
        # 2. the match
        mm = re.search(r"\bmatch\s+([^{]+?)\s*\{", bm)
        if not mm:
            raise Undecided(f"{F}::{fname}: no `match` found -- contract needs review")
        scrutinee = body[mm.start(1):mm.end(1)].strip()
        mo = mm.end() - 1
        mc = lx.match_close(bm, mo)
        arms, k = [], mo + 1
        while True:
            ma = re.compile(r"\s*([^=,{}]+?)\s*=>\s*\{").match(bm, k)
            if not ma or ma.end() > mc:
                break
            ao = ma.end() - 1
            ac = lx.match_close(bm, ao)
            arms.append((body[ma.start(1):ma.end(1)].strip(), ao, ac))
            k = ac + 1
            while k < mc and bm[k] in " \t\r\n,":
                k += 1
        if len(arms) != 2:
            raise Undecided(f"{F}::{fname}: expected a two-armed match, found {len(arms)} arms -- contract needs review")
        arm_texts = []
        for pat, ao, ac in arms:
            calls = []
            for mcall in re.finditer(r"\b(\w+)\s*\.\s*" + re.escape(callee) + r"\s*\(", bm[ao:ac]):
                o = ao + mcall.end() - 1
                c = lx.match_close(bm, o)
                args = [a.strip() for a in lx.split_args(lx.strip_comments(body[o + 1:c]))]
                if len(args) != len(params):
                    raise Undecided(f"{F}::{fname}: {callee} called with {len(args)} arguments, declared with {len(params)}")
                # span of the close-callback argument (to decide nesting): locate it textually inside the call
                cb = args[ix["on_close_callback"]]
                cb_start = body.find(cb.split("\n")[0].strip()[:40], o, c) if cb else -1
                calls.append({"o": o, "c": c, "args": args, "cb_span": (cb_start, c)})
            if len(calls) != 2:
                raise Undecided(f"{F}::{fname}: arm `{pat}` has {len(calls)} {callee} calls, expected 2 -- contract needs review")
            stmts = []
            for cl in calls:
                outer = [x for x in calls if x is not cl and x["cb_span"][0] >= 0 and x["cb_span"][0] <= cl["o"] <= x["cb_span"][1]]
                nested = f"Some({outer[0]['args'][ix['stream_id']]})" if outer else "None"
                a = cl["args"]
                tmo = f"Some({a[ix['futures_timeout']]})" if "futures_timeout" in ix else "None"
                stmts.append(f"            log.spawn({a[ix['concurrency_limit']]}, {tmo}, {a[ix['stream_id']]}, {a[ix['pipelined_stream']]}, {nested});\n")
            arm_texts.append(f"        {pat} => {{\n" + "".join(stmts) + "        },\n")
        tmo_param = "Some(futures_timeout)" if "futures_timeout" in ix else "None"
        out += (f"/// generated from {F}::{fname} (call skeleton: patterns, scrutinee and argument expressions verbatim)\n"
                f"pub fn oldies_site_{fname}(concurrency_limit: u32, sequential_transition: bool, futures_timeout: Duration) -> (log: SpawnLog)\n"
                f"    ensures log.ok(concurrency_limit, {tmo_param}, sequential_transition),\n{{\n"
                f"    let mut log = SpawnLog::new();\n"
                f"    let {pattern} = create_streams_for_old_and_new_events();\n" + "".join(builds) +
                f"    match {scrutinee} {{\n" + "".join(arm_texts) + "    }\n    log\n}\n")
        lemmas.append(Lemma(f"oldies_site_{fname}", ["C12", "C11", "C07"], kind="property",
                            clauses=[f"{fname}: one executor per stream kind, registered under its own stream id, with the configured limit/timeout; sequential_transition => the newies executor is spawned inside the oldies' close callback"]))
        log["R15-call-site"] = log.get("R15-call-site", 0) + 1
    return out, lemmas


UNIT = Unit("multi_oldies", [], spec=SPEC, generated=oldies_sites, lemmas=[Lemma("oldies_site_" + v, ["C12", "C11", "C07"]) for v, _ in VARIANTS],
            trusted=["create_streams_for_old_and_new_events (C09), the user's pipeline builders: shims"],
            assumptions=["the generator reads the call skeleton of spawn_*_oldies_executor (which *_from_stream call is inside whose close-callback argument); that a close callback runs after the executor's last item is the obligation of unit executor_life",
                         "closures other than the close callbacks (error callbacks, name plumbing, Arc clones) are not modelled"])
