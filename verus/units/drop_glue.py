"""Unit drop_glue (V): teardown order of the two pooled Multi channels (C05). Rust drops struct fields in DECLARATION order; the
per-listener queues of the ogre_arc channels hold OgreArc handles whose Drop calls `allocator.dealloc_id` -- so the allocator must still
be alive when the queues are dropped. The obligation is generated on every run from the field order of the real struct text."""
from engine.extract import struct_field_order
from engine.verus_run import Unit, Lemma
from engine.common import Undecided

SPEC = r"""
/// ghost liveness of the fields during the compiler-generated drop glue
pub struct Teardown { pub allocator_alive: bool, pub queues_alive: bool, pub manager_alive: bool }
/// dropping the per-listener queues with events still buffered drops the OgreArc handles, whose Drop returns the slot to the pool:
/// the allocator (its free-list ring and its pool) must not have been freed yet
pub proof fn drop_queues_with_buffered_handles(t: Teardown) -> (r: Teardown)
    requires t.allocator_alive, t.queues_alive,
    ensures r == (Teardown { queues_alive: false, ..t }),
{ Teardown { queues_alive: false, ..t } }
pub proof fn drop_allocator(t: Teardown) -> (r: Teardown)
    requires t.allocator_alive,
    ensures r == (Teardown { allocator_alive: false, ..t }),
{ Teardown { allocator_alive: false, ..t } }
pub proof fn drop_manager(t: Teardown) -> (r: Teardown)
    requires t.manager_alive,
    ensures r == (Teardown { manager_alive: false, ..t }),
{ Teardown { manager_alive: false, ..t } }
"""
CHANNELS = [("multi_ogre_arc_atomic", "src/multi/channels/ogre_arc/atomic.rs", "Atomic"),
            ("multi_ogre_arc_full_sync", "src/multi/channels/ogre_arc/full_sync.rs", "FullSync")]
CALL = {"streams_manager": "drop_manager", "allocator": "drop_allocator", "dispatcher_managers": "drop_queues_with_buffered_handles"}


def generated(repo, log):
    text, lemmas = "", []
    for name, file, struct in CHANNELS:
        fields = [f for f, _ty in struct_field_order(repo, file, struct)]
        missing = [k for k in CALL if k not in fields]
        if missing:
            raise Undecided(f"{file}: struct {struct} no longer has the fields {missing} -- drop-glue contract needs review")
        order = [f for f in fields if f in CALL]
        body = "\n".join(f"    let t = {CALL[f]}(t);   // field `{f}`" for f in order)
        text += (f"/// compiler-generated drop glue of {file}::{struct}: fields in declaration order {fields}\n"
                 f"pub proof fn drop_glue_{name}()\n{{\n    let t = Teardown {{ allocator_alive: true, queues_alive: true, manager_alive: true }};\n{body}\n"
                 f"    assert(!t.allocator_alive && !t.queues_alive && !t.manager_alive);\n}}\n")
        lemmas.append(Lemma(f"drop_glue_{name}", ["C05"], kind="property",
                            clauses=[f"fields of {struct} are dropped in declaration order {order}; the queues holding OgreArc handles must be dropped while the allocator is still alive"]))
        log["R-struct-field-order"] = log.get("R-struct-field-order", 0) + 1
    return text, lemmas


UNIT = Unit("drop_glue", [], spec=SPEC, generated=generated,
            trusted=["Rust drops struct fields in declaration order (language semantics)", "OgreArc::drop of the last handle calls allocator.dealloc_id (decided under C14)"],
            assumptions=["only the two pooled Multi channels hold handles into a sibling field; the Uni zero-copy channels' rings hold plain ids (no Drop)"])
# the lemmas are produced by `generated`; Unit.props() must still know the unit serves C05
UNIT.lemmas = [Lemma("drop_glue_multi_ogre_arc_atomic", ["C05"]), Lemma("drop_glue_multi_ogre_arc_full_sync", ["C05"])]
