"""Units common_<channel> (V), one per channel file (all eleven): the bookkeeping entry points every channel forwards to its `StreamsManagerBase`
-- `flush`, `is_channel_open`, `gracefully_end_stream`, `gracefully_end_all_streams`, `cancel_all_streams`, `running_streams_count`
(ChannelCommon) and `keep_stream_running`, `register_stream_waker`, `drop_resources` (ChannelConsumer). The contract that carries the
streams-manager proofs (units streams_manager / streams_bookkeeping, Kani streams_manager) up to the channel API: each entry point performs
EXACTLY ONE call of the manager's operation, for the SAME stream id / timeout / waker, hands it the channel's OWN pending-items counter
(a flush or close that polls anything else could return before everything accepted was delivered: C06), and returns the manager's answer
unchanged (C06 C07 C10; C04: the waker registration reaches the manager for the polled stream's id)."""
import re
from engine.extract import FnSpec, Rule
from engine.verus_run import Unit

SPEC = r"""
pub struct Waker { pub id: int }
/// which counter a flush / close polls
pub enum Pending { OwnPendingItemsCount, Other }
pub enum Call { Flush(Duration, Pending), IsAnyStreamRunning, EndStream(u32, Duration, Pending), EndAllStreams(Duration, Pending), CancelAllStreams, RunningStreamsCount,
                KeepStreamRunning(u32), RegisterStreamWaker(u32, int), ReportStreamDropped(u32), CreateStreamId }
/// the channel's StreamsManagerBase as a logging shim with arbitrary answers (its own contracts: units streams_manager / streams_bookkeeping)
pub struct StreamsManager { pub log: Ghost<Seq<Call>>, pub last_u32: Ghost<u32>, pub last_bool: Ghost<bool> }
impl StreamsManager {
    #[verifier::external_body] pub fn flush(&mut self, timeout: Duration, pending: Pending) -> (r: u32)
        ensures final(self).log@ == old(self).log@.push(Call::Flush(timeout, pending)), final(self).last_u32@ == r { unimplemented!() }
    #[verifier::external_body] pub fn is_any_stream_running(&mut self) -> (r: bool)
        ensures final(self).log@ == old(self).log@.push(Call::IsAnyStreamRunning), final(self).last_bool@ == r { unimplemented!() }
    #[verifier::external_body] pub fn end_stream(&mut self, stream_id: u32, timeout: Duration, pending: Pending) -> (r: bool)
        ensures final(self).log@ == old(self).log@.push(Call::EndStream(stream_id, timeout, pending)), final(self).last_bool@ == r { unimplemented!() }
    #[verifier::external_body] pub fn end_all_streams(&mut self, timeout: Duration, pending: Pending) -> (r: u32)
        ensures final(self).log@ == old(self).log@.push(Call::EndAllStreams(timeout, pending)), final(self).last_u32@ == r { unimplemented!() }
    #[verifier::external_body] pub fn cancel_all_streams(&mut self)
        ensures final(self).log@ == old(self).log@.push(Call::CancelAllStreams) { }
    #[verifier::external_body] pub fn running_streams_count(&mut self) -> (r: u32)
        ensures final(self).log@ == old(self).log@.push(Call::RunningStreamsCount), final(self).last_u32@ == r { unimplemented!() }
    #[verifier::external_body] pub fn keep_stream_running(&mut self, stream_id: u32) -> (r: bool)
        ensures final(self).log@ == old(self).log@.push(Call::KeepStreamRunning(stream_id)), final(self).last_bool@ == r { unimplemented!() }
    #[verifier::external_body] pub fn register_stream_waker(&mut self, stream_id: u32, waker: &Waker)
        ensures final(self).log@ == old(self).log@.push(Call::RegisterStreamWaker(stream_id, waker.id)) { }
    #[verifier::external_body] pub fn report_stream_dropped(&mut self, stream_id: u32)
        ensures final(self).log@ == old(self).log@.push(Call::ReportStreamDropped(stream_id)) { }
}
impl StreamsManager {
    #[verifier::external_body] pub fn create_stream_id(&mut self) -> (r: u32)
        ensures final(self).log@ == old(self).log@.push(Call::CreateStreamId), final(self).last_u32@ == r { unimplemented!() }
}
/// MutinyStream::new(stream_id, events_source): the stream remembers the id it polls / gives back under
pub struct MutinyStream { pub stream_id: u32 }
impl MutinyStream { pub fn new(stream_id: u32, events_source: &Channel) -> (r: Self) ensures r.stream_id == stream_id { MutinyStream { stream_id } } }
pub struct Channel { pub streams_manager: StreamsManager }
"""
CONTAINER = "impl Channel"

class CounterToken(Rule):
    """R15: the closure handed to flush / end_stream / end_all_streams as the pending-items counter becomes a token: `|| self.pending_items_count()`
    (crossbeam Uni: `|| self.tx.len() as u32`, which is the body of its pending_items_count) -> OwnPendingItemsCount; ANY other closure -> Other
    (which fails the obligation)"""

    def __init__(self):
        Rule.__init__(self, "R15-counter-token", r"self\.streams_manager\.(?:flush|end_stream|end_all_streams)\s*\(", "", min=0, note="pending-items counter closure -> token")

    def apply(self, text, where, log):
        from engine import rustlex as lx
        pos = 0
        while True:
            m = lx.mask(text)
            mm = re.search(self.pattern, m[pos:])
            if not mm:
                return text
            o = pos + mm.end() - 1
            c = lx.match_close(m, o)
            args = lx.split_args(text[o + 1:c])
            if args and re.match(r"\s*\|\|", args[-1]):
                body = re.sub(r"\s+", " ", re.sub(r"^\s*\|\|\s*", "", args[-1])).strip()
                body = re.sub(r"^\{\s*(.*?)\s*\}$", r"\1", body)
                tok = "Pending::OwnPendingItemsCount" if body in ("self.pending_items_count()", "self.tx.len() as u32") else "Pending::Other"
                new_args = ", ".join(a.strip() for a in args[:-1]) + (", " if len(args) > 1 else "") + tok
                text = text[:o + 1] + new_args + text[c:]
                log[self.rid] = log.get(self.rid, 0) + 1
                pos = o + 1 + len(new_args)
            else:
                pos = c


AWAIT = Rule("R10-await", r"\.await\b", "", min=0, note="de-asynced")


def log1(call):
    return "final(self).streams_manager.log@ == old(self).streams_manager.log@.push(%s)" % call


TABLE = [
    # name, trait, sig, sig_anchor, call, returns, props
    ("flush", "common", "pub fn flush(&mut self, timeout: Duration) -> (r: u32)", r"async fn flush\(&self, timeout: Duration\) -> u32",
     "Call::Flush(timeout, Pending::OwnPendingItemsCount)", "r == final(self).streams_manager.last_u32@", ["C06"]),
    ("is_channel_open", "common", "pub fn is_channel_open(&mut self) -> (r: bool)", r"fn is_channel_open\(&self\) -> bool",
     "Call::IsAnyStreamRunning", "r == final(self).streams_manager.last_bool@", ["C06", "C07"]),
    ("gracefully_end_stream", "common", "pub fn gracefully_end_stream(&mut self, stream_id: u32, timeout: Duration) -> (r: bool)", r"async fn gracefully_end_stream\(&self, stream_id: u32, timeout: Duration\) -> bool",
     "Call::EndStream(stream_id, timeout, Pending::OwnPendingItemsCount)", "r == final(self).streams_manager.last_bool@", ["C06", "C07"]),
    ("gracefully_end_all_streams", "common", "pub fn gracefully_end_all_streams(&mut self, timeout: Duration) -> (r: u32)", r"async fn gracefully_end_all_streams\(&self, timeout: Duration\) -> u32",
     "Call::EndAllStreams(timeout, Pending::OwnPendingItemsCount)", "r == final(self).streams_manager.last_u32@", ["C06", "C07"]),
    ("cancel_all_streams", "common", "pub fn cancel_all_streams(&mut self)", r"fn cancel_all_streams\(&self\)",
     "Call::CancelAllStreams", "true", ["C07", "C06"]),
    ("running_streams_count", "common", "pub fn running_streams_count(&mut self) -> (r: u32)", r"fn running_streams_count\(&self\) -> u32",
     "Call::RunningStreamsCount", "r == final(self).streams_manager.last_u32@", ["C06", "C10"]),
    ("keep_stream_running", "consumer", "pub fn keep_stream_running(&mut self, stream_id: u32) -> (r: bool)", r"fn keep_stream_running\(&self, stream_id: u32\) -> bool",
     "Call::KeepStreamRunning(stream_id)", "r == final(self).streams_manager.last_bool@", ["C07", "C06"]),
    ("register_stream_waker", "consumer", "pub fn register_stream_waker(&mut self, stream_id: u32, waker: &Waker)", r"fn register_stream_waker\(&self, stream_id: u32, waker: &Waker\)",
     "Call::RegisterStreamWaker(stream_id, waker.id)", "true", ["C04", "C07"]),
]


def unit_for(tag, file, struct, drop_resources_only_reports=True, create=None):
    impl_common = r"ChannelCommon\s*<[^{]*?>\s*for\s+%s\s*<[^{]*(?=\{)" % struct
    impl_consumer = r"ChannelConsumer\s*<[^{]*?>\s*for\s+%s\s*<[^{]*(?=\{)" % struct
    fns = []
    for name, trait, sig, anchor, call, ret, props in TABLE:
        f = FnSpec(file, name, impl=impl_common if trait == "common" else impl_consumer, props=props, sig=sig, sig_anchor=anchor,
                   rules=[CounterToken(), AWAIT], ensures=log1(call) + ", " + ret)
        f.container = CONTAINER
        fns.append(f)
    if drop_resources_only_reports:
        f = FnSpec(file, "drop_resources", impl=impl_consumer, props=["C10", "C07"],
                   sig="pub fn drop_resources(&mut self, stream_id: u32)", sig_anchor=r"fn drop_resources\(&self, stream_id: u32\)",
                   ensures=log1("Call::ReportStreamDropped(stream_id)"))
        f.container = CONTAINER
        fns.append(f)
    if create:
        impl_create = r"Channel(?:Uni|Multi)\s*<[^{]*?>\s*for\s+%s\s*<[^{]*(?=\{)" % struct
        # C10: one id is taken from the manager, the stream polls under THAT id and the same id is reported to the caller (who ends / cancels the stream by it)
        f = FnSpec(file, create, impl=impl_create, props=["C10", "C07"],
                   sig="pub fn %s(&mut self) -> (r: (MutinyStream, u32))" % create, sig_anchor=r"fn %s\(self: &Arc<Self>\)" % create,
                   rules=[Rule("R5-self-arg", r"MutinyStream::new\(stream_id, self\)", "MutinyStream::new(stream_id, &*self)", count=1, note="&Arc<Self> -> &Self")],
                   ensures=log1("Call::CreateStreamId") + ", r.1 == final(self).streams_manager.last_u32@, r.0.stream_id == r.1")
        f.container = CONTAINER
        fns.append(f)
    return Unit("common_" + tag, fns, spec=SPEC,
                trusted=["StreamsManager::*: the channel's StreamsManagerBase as a logging shim with arbitrary answers (its own contracts: units streams_manager / streams_bookkeeping, Kani streams_manager)"],
                assumptions=["de-asynced (R10); Duration / Waker are opaque values handed through"])


UNITS = [
    unit_for("uni_movable_atomic", "src/uni/channels/movable/atomic.rs", "Atomic", create="create_stream"),
    unit_for("uni_movable_full_sync", "src/uni/channels/movable/full_sync.rs", "FullSync", create="create_stream"),
    unit_for("uni_movable_crossbeam", "src/uni/channels/movable/crossbeam.rs", "Crossbeam", create="create_stream"),
    unit_for("uni_zero_copy_atomic", "src/uni/channels/zero_copy/atomic.rs", "Atomic", create="create_stream"),
    unit_for("uni_zero_copy_full_sync", "src/uni/channels/zero_copy/full_sync.rs", "FullSync", create="create_stream"),
    unit_for("multi_arc_atomic", "src/multi/channels/arc/atomic.rs", "Atomic", create="create_stream_for_new_events"),
    unit_for("multi_arc_full_sync", "src/multi/channels/arc/full_sync.rs", "FullSync", create="create_stream_for_new_events"),
    unit_for("multi_arc_crossbeam", "src/multi/channels/arc/crossbeam.rs", "Crossbeam", create="create_stream_for_new_events"),
    unit_for("multi_ogre_arc_atomic", "src/multi/channels/ogre_arc/atomic.rs", "Atomic", create="create_stream_for_new_events"),
    unit_for("multi_ogre_arc_full_sync", "src/multi/channels/ogre_arc/full_sync.rs", "FullSync", create="create_stream_for_new_events"),
    unit_for("multi_mmap_log", "src/multi/channels/reference/mmap_log.rs", "MmapLog"),
]
