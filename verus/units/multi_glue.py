"""Units multi_ogre_arc_atomic / multi_ogre_arc_full_sync (V, S-model): the glue of the two POOLED Multi channels around `send_derived` for a
SYMBOLIC BUFFER_SIZE / MAX_STREAMS, verified MODULARLY: `send_derived` is used through its CONTRACT (the one units fanout_ogre_arc_* prove of
its body: every live listener's queue gets the event appended once, no other queue is touched, listeners whose queue was empty are woken),
the pool through the allocator's contract (unit pool_allocator), the handle through OgreArc's (Kani ogre_arc).

Abstract state: `free` = free pool slots, `rs` = pool slots reserved by a producer (reserve_slot / a send in progress), `live` = the listener
set (fixed during a call, as C03's statement fixes it), `queues[j]` = what listener j will be handed, in order.
Decided (C03 C16): send / send_with / send_with_async accept <=> the pool has a free slot; accepted => EVERY live listener gets exactly the
payload / the setter's value appended once and no other queue changes; rejected => the very payload / un-invoked setter comes back and
nothing changed, in particular no pool slot is lost. C08: reserve_slot / try_send_reserved / try_cancel_slot_reserve. C20: at the
suspension point of send_with_async only a pool slot is held (it consumes capacity, nobody waits for it), and the resumed send appends to the
queues AS THEY ARE AFTER the suspension. C04: listeners with an empty queue are woken (through send_derived's contract)."""
import re
from engine.extract import FnSpec, Rule
from engine.verus_run import Unit
from engine.common import Undecided
from engine import rustlex as lx

SPEC = r"""
pub enum RetryResult<I> { Ok { reported_input: (), output: () }, Transient { input: I, error: () }, Fatal { input: I, error: () } }
pub struct MutinyStreamH { pub stream_id: u32 }
impl MutinyStreamH { pub fn new(stream_id: u32) -> (r: Self) ensures r.stream_id == stream_id { MutinyStreamH { stream_id } } }
pub struct Setter { pub value: Ghost<u64>, pub id: Ghost<int> }
/// an OgreArc handle to the pool slot `slot` (the handle's own contracts: Kani ogre_arc / ogre_unique)
pub struct OgreArc { pub slot: usize }

pub struct Chan<const BUFFER_SIZE: usize, const MAX_STREAMS: usize> {
    /// number of free pool slots
    pub free: Ghost<nat>,
    /// pool slots a producer holds (reserved, not yet sent or cancelled) with what was written into them
    pub rs: Ghost<Map<usize, u64>>,
    pub live: Ghost<Set<int>>,
    pub queues: Ghost<Seq<Seq<u64>>>,
    pub eff: Ghost<Seq<nat>>,
    pub queues_resume: Ghost<Seq<Seq<u64>>>,
    pub suspensions: Ghost<nat>,
/*EXTRA_ATOMIC_FIELDS*/}
impl<const BUFFER_SIZE: usize, const MAX_STREAMS: usize> Chan<BUFFER_SIZE, MAX_STREAMS> {
    pub open spec fn wf(&self) -> bool {
        &&& 1 <= MAX_STREAMS <= 0x7fff_ffff && 2 <= BUFFER_SIZE <= 0x4000_0000
        &&& self.queues@.len() == MAX_STREAMS && self.eff@.len() == MAX_STREAMS
        &&& forall|j: int| self.live@.contains(j) ==> 0 <= j < MAX_STREAMS
        &&& forall|s: usize| self.rs@.dom().contains(s) ==> s < BUFFER_SIZE
    }
    /// the fan-out of one event: every live listener's queue grows by `v`, the others are untouched
    pub open spec fn fanned_out(&self, before: Seq<Seq<u64>>, v: u64) -> bool {
        &&& self.queues@.len() == before.len()
        &&& forall|j: int| 0 <= j < before.len() ==> (#[trigger] self.queues@[j]) == (if self.live@.contains(j) { before[j].push(v) } else { before[j] })
    }
    pub open spec fn same_but_queues(&self, o: &Self) -> bool { self.free == o.free && self.rs == o.rs && self.live == o.live && self.queues_resume == o.queues_resume && self.suspensions == o.suspensions }
    pub open spec fn unchanged(&self, o: &Self) -> bool { self.same_but_queues(o) && self.queues == o.queues && self.eff == o.eff }
    /// what a suspended send_with_async holds that makes others WAIT: nothing (a reserved pool slot consumes capacity only)
    pub open spec fn blocking_held(&self) -> int { 0 }
    /// `self.streams_manager.running_streams_count()`: the number of live listeners (a racy snapshot under concurrency; exact in the S-model)
    #[verifier::external_body]
    pub fn running_streams_count(&self) -> (r: u32)
        requires self.wf(),
        ensures (r == 0) <==> (forall|j: int| !self.live@.contains(j)),
    { unimplemented!() }
    /// `self.streams_manager.create_stream_id()`: hands out a vacant id (which one: the vacant FIFO's head -- any id that is not live, as far as this unit knows)
    #[verifier::external_body]
    pub fn create_stream_id(&mut self) -> (id: u32)
        requires old(self).wf(),
        ensures final(self).wf(), (id as int) < MAX_STREAMS, !old(self).live@.contains(id as int), final(self).live@ == old(self).live@.insert(id as int),
                final(self).queues == old(self).queues, final(self).eff == old(self).eff, final(self).queues_resume == old(self).queues_resume, final(self).suspensions == old(self).suspensions,
    { unimplemented!() }

    /// the longest queue among the live listeners (0 without listeners): what the iterator chain of pending_items_count() computes over the live list
    pub open spec fn is_longest(&self, r: int) -> bool {
        &&& forall|j: int| self.live@.contains(j) ==> (#[trigger] self.queues@[j]).len() <= r
        &&& (r == 0 || exists|j: int| self.live@.contains(j) && (#[trigger] self.queues@[j]).len() == r)
    }
    /// `used_streams().iter().take_while(|id| id != u32::MAX).map(|id| queue[id].len()).max().unwrap_or(0)` (R19; the live list IS the live set up to the first
    /// sentinel: Inv_SM, units streams_bookkeeping); bounded by the listener queues' capacity
    /// the maximum over ALL MAX_STREAMS listener queues, whether their stream is live or not (a dropped listener may have left events behind)
    #[verifier::external_body]
    pub fn longest_queue_overall(&self) -> (r: usize)
        requires self.wf(),
        ensures forall|j: int| 0 <= j < MAX_STREAMS ==> (#[trigger] self.queues@[j]).len() <= r, exists|j: int| 0 <= j < MAX_STREAMS && (#[trigger] self.queues@[j]).len() == r, r <= BUFFER_SIZE,
    { unimplemented!() }
    #[verifier::external_body]
    pub fn longest_live_queue(&self) -> (r: usize)
        requires self.wf(),
        ensures self.is_longest(r as int), r <= BUFFER_SIZE,
    { unimplemented!() }

    /// `OgreArc::new(&self.allocator)`: allocates a pool slot and wraps it (reference count 1); None <=> the pool is exhausted
    #[verifier::external_body]
    pub fn ogre_arc_new(&mut self) -> (r: Option<(OgreArc, usize)>)
        requires old(self).wf(),
        ensures final(self).wf(), final(self).live == old(self).live, final(self).queues == old(self).queues, final(self).eff == old(self).eff, final(self).queues_resume == old(self).queues_resume, final(self).suspensions == old(self).suspensions,
                old(self).free@ > 0 ==> (r matches Some((h, slot)) && h.slot == slot && !old(self).rs@.dom().contains(slot) && final(self).rs@.dom() == old(self).rs@.dom().insert(slot)
                    && (forall|s: usize| old(self).rs@.dom().contains(s) ==> final(self).rs@[s] == old(self).rs@[s]) && final(self).free@ == old(self).free@ - 1),
                old(self).free@ == 0 ==> r is None && final(self).free == old(self).free && final(self).rs == old(self).rs,
    { unimplemented!() }
    /// `self.allocator.alloc_ref()` (reserve_slot)
    #[verifier::external_body]
    pub fn alloc_ref(&mut self) -> (r: Option<(usize, u32)>)
        requires old(self).wf(),
        ensures final(self).wf(), final(self).live == old(self).live, final(self).queues == old(self).queues, final(self).eff == old(self).eff, final(self).queues_resume == old(self).queues_resume, final(self).suspensions == old(self).suspensions,
                old(self).free@ > 0 ==> (r matches Some((slot, id)) && id as usize == slot && !old(self).rs@.dom().contains(slot) && final(self).rs@.dom() == old(self).rs@.dom().insert(slot)
                    && (forall|s: usize| old(self).rs@.dom().contains(s) ==> final(self).rs@[s] == old(self).rs@[s]) && final(self).free@ == old(self).free@ - 1),
                old(self).free@ == 0 ==> r is None && final(self).free == old(self).free && final(self).rs == old(self).rs,
    { unimplemented!() }
    /// `self.allocator.id_from_ref(slot)` / `OgreArc::from_allocated(id, &self.allocator)`
    pub fn id_from_ref(&self, slot: usize) -> (r: u32) requires slot < BUFFER_SIZE, BUFFER_SIZE <= 0x4000_0000 ensures r as usize == slot { slot as u32 }
    pub fn ogre_arc_from_allocated(&self, slot_id: u32) -> (r: OgreArc) ensures r.slot == slot_id as usize { OgreArc { slot: slot_id as usize } }
    /// `self.allocator.dealloc_ref(slot)`: the slot must be held by this producer; it becomes free again
    #[verifier::external_body]
    pub fn dealloc_ref(&mut self, slot: usize)
        requires old(self).wf(), old(self).rs@.dom().contains(slot),
        ensures final(self).wf(), final(self).live == old(self).live, final(self).queues == old(self).queues, final(self).eff == old(self).eff, final(self).queues_resume == old(self).queues_resume, final(self).suspensions == old(self).suspensions,
                final(self).rs@ == old(self).rs@.remove(slot), final(self).free@ == old(self).free@ + 1,
    { }
    /// writing through the slot reference (`ptr::write(slot, item)` / `setter(slot)`)
    #[verifier::external_body]
    pub fn slot_write(&mut self, slot: usize, value: u64)
        requires old(self).rs@.dom().contains(slot),
        ensures old(self).wf() ==> final(self).wf(), final(self).rs@ == old(self).rs@.insert(slot, value), final(self).free == old(self).free, final(self).live == old(self).live, final(self).queues == old(self).queues, final(self).eff == old(self).eff,
                final(self).queues_resume == old(self).queues_resume, final(self).suspensions == old(self).suspensions,
    { }
    #[verifier::external_body]
    pub fn slot_set(&mut self, slot: usize, setter: Setter)
        requires old(self).rs@.dom().contains(slot),
        ensures old(self).wf() ==> final(self).wf(), final(self).rs@ == old(self).rs@.insert(slot, setter.value@), final(self).free == old(self).free, final(self).live == old(self).live, final(self).queues == old(self).queues, final(self).eff == old(self).eff,
                final(self).queues_resume == old(self).queues_resume, final(self).suspensions == old(self).suspensions,
    { }
    /// `self.send_derived(&handle)`: THE CONTRACT units fanout_ogre_arc_* prove of its body. The handle's slot stops being the producer's: from now on
    /// the listeners' handles own it (it returns to the pool when the last of them is dropped: C05 / C14)
    #[verifier::external_body]
    pub fn send_derived(&mut self, h: &OgreArc) -> (r: bool)
        requires old(self).wf(), old(self).rs@.dom().contains(h.slot),
        ensures final(self).wf(), r, final(self).fanned_out(old(self).queues@, old(self).rs@[h.slot]), final(self).rs@ == old(self).rs@.remove(h.slot),
                final(self).free == old(self).free, final(self).live == old(self).live, final(self).queues_resume == old(self).queues_resume, final(self).suspensions == old(self).suspensions,
                final(self).eff@.len() == old(self).eff@.len(),
                forall|j: int| 0 <= j < MAX_STREAMS ==> (#[trigger] final(self).eff@[j]) >= old(self).eff@[j],
                forall|j: int| old(self).live@.contains(j) && old(self).queues@[j].len() == 0 ==> (#[trigger] final(self).eff@[j]) > old(self).eff@[j],
    { unimplemented!() }
    /// the `.await` of the async setter (R10): the other producers and the listeners run freely; the listener set is fixed (C03's statement), this call's
    /// pool slot stays reserved
    #[verifier::external_body]
    pub fn suspend_point_holding_nothing(&mut self)
        requires old(self).wf(), old(self).blocking_held() == 0,
        ensures final(self).wf(), final(self).rs == old(self).rs, final(self).live == old(self).live, final(self).eff == old(self).eff,
                final(self).suspensions@ == old(self).suspensions@ + 1, final(self).queues_resume == final(self).queues,
    { }
    /// `self.dispatcher_managers.get_unchecked(id).consume_movable()`: the listener's ring contract (C01 / C02); the index bound is the obligation
    #[verifier::external_body]
    pub fn consume_from(&mut self, stream_id: u32) -> (r: Option<u64>)
        requires (stream_id as int) < MAX_STREAMS, old(self).queues@.len() == MAX_STREAMS,
        ensures final(self).same_but_queues(old(self)), final(self).eff == old(self).eff, final(self).queues@.len() == old(self).queues@.len(),
                forall|j: int| 0 <= j < MAX_STREAMS && j != stream_id ==> final(self).queues@[j] == old(self).queues@[j],
                old(self).queues@[stream_id as int].len() > 0 ==> r == Some(old(self).queues@[stream_id as int][0]) && final(self).queues@[stream_id as int] == old(self).queues@[stream_id as int].drop_first(),
                old(self).queues@[stream_id as int].len() == 0 ==> r is None && final(self).queues@[stream_id as int] == old(self).queues@[stream_id as int],
    { unimplemented!() }
}
"""


class MapTail(Rule):
    def __init__(self):
        Rule.__init__(self, "R18-option-map", r"\.\s*map\s*\(", "", count=1, note="Option::map(closure) -> match")

    def apply(self, text, where, log):
        m = lx.mask(text)
        mm = re.search(self.pattern, m)
        if not mm:
            raise Undecided(f"rewrite rule {self.rid} applied 0x in {where}, expected 1x -- the code's shape changed; contract needs review")
        o = mm.end() - 1
        c = lx.match_close(m, o)
        ma = re.match(r"\s*\|\s*(.*?)\s*\|\s*(.*)$", text[o + 1:c], re.S)
        if not ma or text[c + 1:].strip() not in ("", ";"):
            raise Undecided(f"{where}: .map(..) is not the tail expression with a one-parameter closure -- contract needs review")
        log[self.rid] = log.get(self.rid, 0) + 1
        return "\n        match (" + text[:mm.start()].strip() + ") { Some(" + ma.group(1) + ") => Some(" + ma.group(2).strip() + "), None => None }\n"


R_RETRY = Rule("R3-retry-path", r"\bkeen_retry::RetryResult::", "RetryResult::", min=0, note="keen_retry::RetryResult -> the unit's plain enum")
R_NEW = Rule("R6-ogre-arc-new", r"\bOgreArc::new\(&self\.allocator\)", "self.ogre_arc_new()", min=0, note="OgreArc::new(&allocator) -> the allocator's / handle's CONTRACT")
R_FROM = Rule("R6-ogre-arc-from", r"\bOgreArc::from_allocated\((\w+), &self\.allocator\)", r"self.ogre_arc_from_allocated(\1)", min=0)
R_ALLOC = Rule("R6-allocator", r"\bself\.allocator\.(\w+)\(", r"self.\1(", min=0, note="allocator call -> the allocator's CONTRACT")
R_LIVE = Rule("R6-live-count", r"\bself\.streams_manager\.running_streams_count\(\)", "self.running_streams_count()", min=0, note="streams manager query -> shim")
R_DISCARD = Rule("R5-discard", r"(?m)^(\s*)_ = ", r"\1let _ = ", min=0, note="`_ = expr;` -> `let _ = expr;`")
R_WRITE = Rule("R7-write", r"unsafe \{ std::ptr::write\(slot, item\) \}", "self.slot_write(slot, item);", min=0, note="ptr::write -> slot_write (the slot must be held by this producer)")
COMMON = [R_RETRY, R_NEW, R_FROM, R_ALLOC, R_LIVE, R_DISCARD, R_WRITE]


KNOWN_FIELDS = {"streams_manager", "dispatcher_managers", "allocator", "channels", "senders", "receivers", "_phanrom", "_phantom"}


def spec_with_real_atomics(spec, file, struct):
    """the channel struct's ATOMIC fields the contract does not know (none on the unchanged tree) are added to the verified struct as plain atomic cells
    with an unconstrained value -- whatever other threads made of them (A-model reading): an entry point whose answer depends on such a cell fails its
    postcondition instead of failing to type-check"""
    def build(repo):
        import os
        from engine.common import read
        path = os.path.join(repo, file)
        if not os.path.exists(path):
            raise Undecided(f"{file} not found")
        fields = lx.struct_fields(read(path), struct)
        if fields is None:
            raise Undecided(f"{file}: struct {struct} not found")
        extra = ""
        for name, ty in fields:
            mt = re.fullmatch(r"(?:std::sync::atomic::)?(AtomicU32|AtomicU64|AtomicUsize|AtomicBool)", ty)
            if mt and name not in KNOWN_FIELDS:
                extra += f"    pub {name}: {mt.group(1)},\n"
        return spec.replace("/*EXTRA_ATOMIC_FIELDS*/", extra)
    return build


LONGEST_CHAIN = Rule("R19-longest-live-queue",
                     r"self\.streams_manager\.used_streams\(\)\.iter\(\)\s*\.take_while\(\|&&stream_id\| stream_id != u32::MAX\)\s*"
                     r"\.map\(\|&stream_id\| unsafe \{ self\.(?:channels|dispatcher_managers|receivers)\.get_unchecked\(stream_id as usize\) \}\.(?:available_elements_count|len)\(\)\)\s*"
                     r"\.max\(\)\.unwrap_or\(0\)", "self.longest_live_queue()", count=1,
                     note="the iterator chain over the live list (take_while not sentinel / map queue length / max / unwrap_or 0) -> longest_live_queue (Verus has no iterator adapters)")


ALL_QUEUES_CHAIN = Rule("R19-longest-queue-overall",
                        r"self\.(?:channels|dispatcher_managers|receivers|senders)\.iter\(\)\s*\.map\(\|(\w+)\| \1\.(?:available_elements_count|len)\(\)\)\s*\.max\(\)\.unwrap_or\(0\)",
                        "self.longest_queue_overall()", min=0,
                        note="an iterator chain over ALL listener queues (live or vacant) -> longest_queue_overall")


class EitherChain(Rule):
    """exactly one of the two recognised shapes of the pending-count chain must be present (else: undecided, contract needs review)"""

    def __init__(self):
        Rule.__init__(self, "R19-pending-chain", "", "", count=1, note="pending-count iterator chain -> its meaning")

    def apply(self, text, where, log):
        n = 0
        for r in (LONGEST_CHAIN, ALL_QUEUES_CHAIN):
            new, k = re.subn(r.pattern, r.repl, text, flags=r.flags)
            if k:
                log[r.rid] = log.get(r.rid, 0) + k
                text, n = new, n + k
        if n != 1:
            raise Undecided(f"rewrite rule {self.rid} applied {n}x in {where}, expected 1x -- the code's shape changed; contract needs review")
        return text


def new_listener_fn(file, struct):
    """C10: `create_stream_for_new_events` -- the postcondition is TAKEN FROM THE PROPERTY: a listener created now can only ever be handed events sent from now on, i.e.
    the queue it will consume from is EMPTY at this moment. (KNOWN FINDING on the unchanged tree: nothing empties the queue of a recycled stream id -- the id handed
    out by the streams manager is any vacant one, and whatever its previous owner left unconsumed is still there; Kani: new_listener_sees_nothing_old gives the history.)"""
    impl_multi = r"ChannelMulti\s*<[^{]*?>\s*for\s+%s\s*<[^{]*(?=\{)" % struct
    f = FnSpec(file, "create_stream_for_new_events", impl=impl_multi, out_name="create_stream_for_new_events_sees_nothing_old", props=["C10"],
               sig="pub fn create_stream_for_new_events_sees_nothing_old(&mut self) -> (r: (MutinyStreamH, u32))", sig_anchor=r"fn create_stream_for_new_events\(self: &Arc<Self>\)",
               rules=[Rule("R6-create-id", r"self\.streams_manager\.create_stream_id\(\)", "self.create_stream_id()", count=1, note="streams manager -> shim: hands out ANY vacant id (units streams_bookkeeping)"),
                      Rule("R5-self-arg", r"MutinyStream::new\(stream_id, self\)", "MutinyStreamH::new(stream_id)", count=1, note="the stream's back-pointer to the channel is dropped")],
               requires="old(self).wf()",
               ensures="(r.1 as int) < MAX_STREAMS, r.0.stream_id == r.1, !old(self).live@.contains(r.1 as int), final(self).live@ == old(self).live@.insert(r.1 as int),"
                       "final(self).queues == old(self).queues, final(self).queues@[r.1 as int].len() == 0")
    f.container = "impl<const BUFFER_SIZE: usize, const MAX_STREAMS: usize> Chan<BUFFER_SIZE, MAX_STREAMS>"
    return f


def pending_fn(file, struct):
    impl_common = r"ChannelCommon\s*<[^{]*?>\s*for\s+%s\s*<[^{]*(?=\{)" % struct
    # C06 / C20: what flush / close poll is determined by the listener queues ALONE (whatever else is going on -- e.g. a suspended send_with_async -- must
    # not make a flush wait): the longest live listener queue
    f = FnSpec(file, "pending_items_count", impl=impl_common, props=["C06", "C20", "C03", "C07"],
               sig="pub fn pending_items_count(&self) -> (r: u32)", sig_anchor=r"fn pending_items_count\(&self\) -> u32",
               rules=[EitherChain()], requires="self.wf()", ensures="self.is_longest(r as int)")
    f.container = "impl<const BUFFER_SIZE: usize, const MAX_STREAMS: usize> Chan<BUFFER_SIZE, MAX_STREAMS>"
    return f


def unit(kind, file, struct):
    impl_p = r"ChannelProducer\s*<[^{]*?>\s*for\s+%s\s*<[^{]*(?=\{)" % struct
    impl_c = r"ChannelConsumer\s*<[^{]*?>\s*for\s+%s\s*<[^{]*(?=\{)" % struct
    container = "impl<const BUFFER_SIZE: usize, const MAX_STREAMS: usize> Chan<BUFFER_SIZE, MAX_STREAMS>"

    def fn(name, impl=impl_p, **kw):
        f = FnSpec(file, name, impl=impl, **kw)
        f.container = container
        return f

    ACCEPT = ("old(self).free@ > 0 ==> r is Ok && final(self).fanned_out(%s, %s) && final(self).free@ == old(self).free@ - 1 && final(self).rs == old(self).rs && final(self).live == old(self).live,")
    REJECT = "old(self).free@ == 0 ==> (r matches RetryResult::Transient { input, .. } && input == %s) && final(self).unchanged(old(self)),"
    WAKE = "forall|j: int| old(self).live@.contains(j) && %s[j].len() == 0 && (r is Ok) ==> (#[trigger] final(self).eff@[j]) > old(self).eff@[j]"
    fns = [
        fn("send", props=["C03", "C16", "C04"],
           sig="pub fn send(&mut self, item: u64) -> (r: RetryResult<u64>)", sig_anchor=r"fn send\(&self, item: ItemType\) -> keen_retry::RetryConsumerResult<\(\), ItemType, \(\)>",
           rules=COMMON, requires="old(self).wf()",
           ensures="final(self).wf()," + ACCEPT % ("old(self).queues@", "item") + REJECT % "item" + WAKE % "old(self).queues@"),
        fn("send_with", props=["C03", "C16", "C04"],
           sig="pub fn send_with(&mut self, setter: Setter) -> (r: RetryResult<Setter>)", sig_anchor=r"fn send_with<F: FnOnce\(&mut ItemType\)>\(&self, setter: F\)",
           rules=COMMON + [Rule("R7-setter", r"setter\(slot\);", "self.slot_set(slot, setter);", count=1, note="setter call -> slot_set (consumed: invoked exactly once)")],
           requires="old(self).wf()",
           ensures="final(self).wf()," + ACCEPT % ("old(self).queues@", "setter.value@") + REJECT % "setter" + WAKE % "old(self).queues@"),
        fn("send_with_async", props=["C03", "C16", "C20", "C04"],
           sig="pub fn send_with_async(&mut self, setter: Setter) -> (r: RetryResult<Setter>)", sig_anchor=r"async fn send_with_async<F:",
           rules=COMMON + [Rule("R10-setter-await", r"setter\(slot\)\.await;", "self.suspend_point_holding_nothing(); self.slot_set(slot, setter);", count=1,
                                note="`setter(slot).await` -> suspension point with the C20 state assertion + slot_set")],
           requires="old(self).wf()",
           ensures="final(self).wf()," + REJECT % "setter" +
                   "old(self).free@ > 0 ==> r is Ok && final(self).suspensions@ == old(self).suspensions@ + 1 && final(self).fanned_out(final(self).queues_resume@, setter.value@) && final(self).rs == old(self).rs,"
                   + WAKE % "final(self).queues_resume@"),
        fn("reserve_slot", props=["C08", "C16"],
           sig="pub fn reserve_slot(&mut self) -> (r: Option<usize>)", sig_anchor=r"fn reserve_slot\(&self\) -> Option<&mut ItemType>",
           rules=COMMON + [MapTail()], requires="old(self).wf()",
           ensures="final(self).wf(), final(self).queues == old(self).queues, final(self).eff == old(self).eff, final(self).live == old(self).live,"
                   "old(self).free@ > 0 ==> (r matches Some(slot) && !old(self).rs@.dom().contains(slot) && final(self).rs@.dom() == old(self).rs@.dom().insert(slot) && final(self).free@ == old(self).free@ - 1),"
                   "old(self).free@ == 0 ==> r is None && final(self).free == old(self).free && final(self).rs == old(self).rs"),
        fn("try_send_reserved", props=["C08", "C03", "C04"],
           sig="pub fn try_send_reserved(&mut self, reserved_slot: usize) -> (r: bool)", sig_anchor=r"fn try_send_reserved\(&self, reserved_slot: &mut ItemType\) -> bool",
           rules=COMMON, requires="old(self).wf(), old(self).rs@.dom().contains(reserved_slot)",
           # the reserved slot's content is delivered to every live listener; the reservation is resolved; the pool does not grow (the listeners' handles own the slot now)
           ensures="final(self).wf(), r, final(self).fanned_out(old(self).queues@, old(self).rs@[reserved_slot]), final(self).rs@ == old(self).rs@.remove(reserved_slot), final(self).free == old(self).free,"
                   "forall|j: int| old(self).live@.contains(j) && old(self).queues@[j].len() == 0 ==> (#[trigger] final(self).eff@[j]) > old(self).eff@[j]"),
        fn("try_cancel_slot_reserve", props=["C08", "C16"],
           sig="pub fn try_cancel_slot_reserve(&mut self, reserved_slot: usize) -> (r: bool)", sig_anchor=r"fn try_cancel_slot_reserve\(&self, reserved_slot: &mut ItemType\) -> bool",
           rules=COMMON, requires="old(self).wf(), old(self).rs@.dom().contains(reserved_slot)",
           ensures="final(self).wf(), r, final(self).queues == old(self).queues, final(self).eff == old(self).eff, final(self).rs@ == old(self).rs@.remove(reserved_slot), final(self).free@ == old(self).free@ + 1"),
        fn("consume", impl=impl_c, props=["C03", "C02"],
           sig="pub fn consume(&mut self, stream_id: u32) -> (r: Option<u64>)", sig_anchor=r"fn consume\(&self, stream_id: u32\) -> Option<OgreArc<ItemType, OgreAllocatorType>>",
           rules=[Rule("R6-queue", r"let dispatcher_manager = unsafe \{ self\.dispatcher_managers\.get_unchecked\(stream_id as usize\) \};\s*dispatcher_manager\.consume_movable\(\)", "self.consume_from(stream_id)", count=1,
                       note="unchecked queue lookup + consume_movable -> consume_from (index bound obligation)")],
           requires="old(self).wf(), (stream_id as int) < MAX_STREAMS",
           # per-listener FIFO: the oldest event of THIS listener's queue, the other listeners' queues untouched
           ensures="final(self).queues@.len() == old(self).queues@.len(), forall|j: int| 0 <= j < MAX_STREAMS && j != stream_id ==> final(self).queues@[j] == old(self).queues@[j],"
                   "old(self).queues@[stream_id as int].len() > 0 ==> r == Some(old(self).queues@[stream_id as int][0]) && final(self).queues@[stream_id as int] == old(self).queues@[stream_id as int].drop_first(),"
                   "old(self).queues@[stream_id as int].len() == 0 ==> r is None && final(self).queues@[stream_id as int] == old(self).queues@[stream_id as int]"),
    ]
    fns.append(pending_fn(file, struct))
    fns.append(new_listener_fn(file, struct))
    return Unit("multi_ogre_arc_" + kind, fns, spec=spec_with_real_atomics(SPEC, file, struct),
                trusted=["send_derived: its contract is what units fanout_ogre_arc_%s prove of its body (+ Kani multi_ogre_arc_%s, thorough tier)" % (kind, kind),
                         "ogre_arc_new / alloc_ref / dealloc_ref / id_from_ref: the allocator's contract (unit pool_allocator, Kani pool harnesses) and OgreArc::new / from_allocated (Kani ogre_arc)",
                         "consume_from: the listener ring's consume_movable contract (ring units + Kani)"],
                assumptions=["S-model between suspension points; the listener set is fixed during a call (C03's statement fixes it; churn during a fan-out is C17: not applicable)",
                             "payloads are modelled as u64 values, slot references as slot indices; the producer's own handle is dropped at the end of send (reference counting: C14, Kani)"])


UNITS = [unit("atomic", "src/multi/channels/ogre_arc/atomic.rs", "Atomic"), unit("full_sync", "src/multi/channels/ogre_arc/full_sync.rs", "FullSync")]


# ------------------------------------------------------------------------------------------------------------------------------------
# multi_arc_{atomic,full_sync,crossbeam}: the glue of the three Arc-based Multi channels around `send_derived` (contract: units fanout_arc_*).
# These channels always accept (Arc::new cannot fail) and WAIT while a listener queue is full (documented upstream, excluded from C16):
# `send_derived`'s precondition 'every live listener queue has room' is the S-model's way of saying that the wait is over.
# ------------------------------------------------------------------------------------------------------------------------------------
SPEC_ARC = r"""
pub enum RetryResult<I> { Ok { reported_input: (), output: () }, Transient { input: I, error: () }, Fatal { input: I, error: () } }
pub struct MutinyStreamH { pub stream_id: u32 }
impl MutinyStreamH { pub fn new(stream_id: u32) -> (r: Self) ensures r.stream_id == stream_id { MutinyStreamH { stream_id } } }
pub struct Setter { pub value: Ghost<u64>, pub id: Ghost<int> }
impl Setter {
    /// the MaybeUninit slot + setter call: the setter is CONSUMED (invoked once) and leaves its value
    #[verifier::external_body]
    pub fn apply(self) -> (r: u64) ensures r == self.value@ { unimplemented!() }
}
/// `Arc<ItemType>`: the payload it shares
pub struct ArcItem { pub value: u64 }
pub fn arc_new(item: u64) -> (r: ArcItem) ensures r.value == item { ArcItem { value: item } }
pub enum TryRecvError { Empty, Disconnected }

pub struct Chan<const BUFFER_SIZE: usize, const MAX_STREAMS: usize> {
    pub live: Ghost<Set<int>>,
    pub queues: Ghost<Seq<Seq<u64>>>,
    pub eff: Ghost<Seq<nat>>,
    pub cancels: Ghost<Seq<int>>,
    pub queues_resume: Ghost<Seq<Seq<u64>>>,
    pub suspensions: Ghost<nat>,
/*EXTRA_ATOMIC_FIELDS*/}
impl<const BUFFER_SIZE: usize, const MAX_STREAMS: usize> Chan<BUFFER_SIZE, MAX_STREAMS> {
    pub open spec fn wf(&self) -> bool {
        &&& 1 <= MAX_STREAMS <= 0x7fff_ffff && 1 <= BUFFER_SIZE <= 0x4000_0000
        &&& self.queues@.len() == MAX_STREAMS && self.eff@.len() == MAX_STREAMS
        &&& forall|j: int| self.live@.contains(j) ==> 0 <= j < MAX_STREAMS
    }
    pub open spec fn fanned_out(&self, before: Seq<Seq<u64>>, v: u64) -> bool {
        &&& self.queues@.len() == before.len()
        &&& forall|j: int| 0 <= j < before.len() ==> (#[trigger] self.queues@[j]) == (if self.live@.contains(j) { before[j].push(v) } else { before[j] })
    }
    pub open spec fn blocking_held(&self) -> int { 0 }
    /// `self.streams_manager.running_streams_count()`: the number of live listeners (a racy snapshot under concurrency; exact in the S-model)
    #[verifier::external_body]
    pub fn running_streams_count(&self) -> (r: u32)
        requires self.wf(),
        ensures (r == 0) <==> (forall|j: int| !self.live@.contains(j)),
    { unimplemented!() }
    /// `self.streams_manager.create_stream_id()`: hands out a vacant id (which one: the vacant FIFO's head -- any id that is not live, as far as this unit knows)
    #[verifier::external_body]
    pub fn create_stream_id(&mut self) -> (id: u32)
        requires old(self).wf(),
        ensures final(self).wf(), (id as int) < MAX_STREAMS, !old(self).live@.contains(id as int), final(self).live@ == old(self).live@.insert(id as int),
                final(self).queues == old(self).queues, final(self).eff == old(self).eff, final(self).queues_resume == old(self).queues_resume, final(self).suspensions == old(self).suspensions,
    { unimplemented!() }

    /// the longest queue among the live listeners (0 without listeners): what the iterator chain of pending_items_count() computes over the live list
    pub open spec fn is_longest(&self, r: int) -> bool {
        &&& forall|j: int| self.live@.contains(j) ==> (#[trigger] self.queues@[j]).len() <= r
        &&& (r == 0 || exists|j: int| self.live@.contains(j) && (#[trigger] self.queues@[j]).len() == r)
    }
    /// `used_streams().iter().take_while(|id| id != u32::MAX).map(|id| queue[id].len()).max().unwrap_or(0)` (R19; the live list IS the live set up to the first
    /// sentinel: Inv_SM, units streams_bookkeeping); bounded by the listener queues' capacity
    /// the maximum over ALL MAX_STREAMS listener queues, whether their stream is live or not (a dropped listener may have left events behind)
    #[verifier::external_body]
    pub fn longest_queue_overall(&self) -> (r: usize)
        requires self.wf(),
        ensures forall|j: int| 0 <= j < MAX_STREAMS ==> (#[trigger] self.queues@[j]).len() <= r, exists|j: int| 0 <= j < MAX_STREAMS && (#[trigger] self.queues@[j]).len() == r, r <= BUFFER_SIZE,
    { unimplemented!() }
    #[verifier::external_body]
    pub fn longest_live_queue(&self) -> (r: usize)
        requires self.wf(),
        ensures self.is_longest(r as int), r <= BUFFER_SIZE,
    { unimplemented!() }
    /// `self.send_derived(&arc_item)`: THE CONTRACT units fanout_arc_* prove of its body (given room in every live listener's queue -- otherwise the
    /// channel waits, which is excluded from C16 by the statement)
    #[verifier::external_body]
    pub fn send_derived(&mut self, arc_item: &ArcItem) -> (r: bool)
        requires old(self).wf(),
        ensures final(self).wf(), r, final(self).fanned_out(old(self).queues@, arc_item.value), final(self).live == old(self).live, final(self).cancels == old(self).cancels,
                final(self).queues_resume == old(self).queues_resume, final(self).suspensions == old(self).suspensions, final(self).eff@.len() == old(self).eff@.len(),
                forall|j: int| 0 <= j < MAX_STREAMS ==> (#[trigger] final(self).eff@[j]) >= old(self).eff@[j],
                forall|j: int| old(self).live@.contains(j) && old(self).queues@[j].len() == 0 ==> (#[trigger] final(self).eff@[j]) > old(self).eff@[j],
    { unimplemented!() }
    #[verifier::external_body]
    pub fn suspend_point_holding_nothing(&mut self)
        requires old(self).wf(), old(self).blocking_held() == 0,
        ensures final(self).wf(), final(self).live == old(self).live, final(self).eff == old(self).eff, final(self).cancels == old(self).cancels,
                final(self).suspensions@ == old(self).suspensions@ + 1, final(self).queues_resume == final(self).queues,
    { }
    /// the listener's queue: ring consume_movable (C01 / C02) resp. crossbeam try_recv (ASSUMED bounded FIFO); the index bound is the obligation
    #[verifier::external_body]
    pub fn consume_from(&mut self, stream_id: u32) -> (r: Option<ArcItem>)
        requires (stream_id as int) < MAX_STREAMS, old(self).queues@.len() == MAX_STREAMS,
        ensures final(self).live == old(self).live, final(self).eff == old(self).eff, final(self).cancels == old(self).cancels, final(self).queues@.len() == old(self).queues@.len(),
                forall|j: int| 0 <= j < MAX_STREAMS && j != stream_id ==> final(self).queues@[j] == old(self).queues@[j],
                old(self).queues@[stream_id as int].len() > 0 ==> (r matches Some(a) && a.value == old(self).queues@[stream_id as int][0]) && final(self).queues@[stream_id as int] == old(self).queues@[stream_id as int].drop_first(),
                old(self).queues@[stream_id as int].len() == 0 ==> r is None && final(self).queues@[stream_id as int] == old(self).queues@[stream_id as int],
    { unimplemented!() }
    /// crossbeam `receiver.try_recv()`: Disconnected cannot happen while the channel owns both ends (ASSUMED)
    #[verifier::external_body]
    pub fn try_recv_from(&mut self, stream_id: u32) -> (r: Result<ArcItem, TryRecvError>)
        requires (stream_id as int) < MAX_STREAMS, old(self).queues@.len() == MAX_STREAMS,
        ensures final(self).live == old(self).live, final(self).eff == old(self).eff, final(self).cancels == old(self).cancels, final(self).queues@.len() == old(self).queues@.len(),
                forall|j: int| 0 <= j < MAX_STREAMS && j != stream_id ==> final(self).queues@[j] == old(self).queues@[j],
                old(self).queues@[stream_id as int].len() > 0 ==> (r matches Ok(a) && a.value == old(self).queues@[stream_id as int][0]) && final(self).queues@[stream_id as int] == old(self).queues@[stream_id as int].drop_first(),
                old(self).queues@[stream_id as int].len() == 0 ==> r == Err::<ArcItem, TryRecvError>(TryRecvError::Empty) && final(self).queues@[stream_id as int] == old(self).queues@[stream_id as int],
    { unimplemented!() }
    #[verifier::external_body]
    pub fn cancel_stream(&mut self, stream_id: u32)
        ensures final(self).cancels@ == old(self).cancels@.push(stream_id as int), final(self).live == old(self).live, final(self).queues == old(self).queues, final(self).eff == old(self).eff,
    { }
}
"""

R_ARC_NEW = Rule("R6-arc-new", r"\bArc::new\(item\)", "arc_new(item)", min=0, note="Arc::new -> shim (the shared payload)")
SETTER_VALUE = Rule("R7-maybeuninit", r"let mut item = MaybeUninit::uninit\(\);\s*let item_ref = unsafe \{ &mut \*item\.as_mut_ptr\(\) \};\s*setter\(item_ref\)(\.await)?;\s*let item = unsafe \{ item\.assume_init\(\) \};",
                    lambda m: ("self.suspend_point_holding_nothing(); " if m.group(1) else "") + "let item = setter.apply();", count=1,
                    note="MaybeUninit slot + setter call -> Setter::apply (consumed: invoked exactly once); the async setter's .await is a suspension point with the C20 state assertion")
COMMON_ARC = [R_RETRY, R_ARC_NEW, R_LIVE, R_DISCARD]


def unit_arc(kind, file, struct, consume_rule):
    impl_p = r"ChannelProducer\s*<[^{]*?>\s*for\s+%s\s*<[^{]*(?=\{)" % struct
    impl_c = r"ChannelConsumer\s*<[^{]*?>\s*for\s*%s\s*<[^{]*(?=\{)" % struct
    container = "impl<const BUFFER_SIZE: usize, const MAX_STREAMS: usize> Chan<BUFFER_SIZE, MAX_STREAMS>"

    def fn(name, impl=impl_p, **kw):
        f = FnSpec(file, name, impl=impl, **kw)
        f.container = container
        return f

    WAKE = "forall|j: int| old(self).live@.contains(j) && %s[j].len() == 0 ==> (#[trigger] final(self).eff@[j]) > old(self).eff@[j]"
    fns = [
        fn("send", props=["C03", "C04"],
           sig="pub fn send(&mut self, item: u64) -> (r: RetryResult<u64>)", sig_anchor=r"fn send\(&self, item: ItemType\) -> keen_retry::RetryConsumerResult<\(\), ItemType, \(\)>",
           rules=COMMON_ARC, requires="old(self).wf()",
           ensures="final(self).wf(), r is Ok, final(self).fanned_out(old(self).queues@, item), final(self).live == old(self).live," + WAKE % "old(self).queues@"),
        fn("send_with", props=["C03", "C04"],
           sig="pub fn send_with(&mut self, setter: Setter) -> (r: RetryResult<Setter>)", sig_anchor=r"fn send_with<F: FnOnce\(&mut ItemType\)>\(&self, setter: F\)",
           rules=COMMON_ARC + [SETTER_VALUE], requires="old(self).wf()",
           ensures="final(self).wf(), r is Ok, final(self).fanned_out(old(self).queues@, setter.value@), final(self).live == old(self).live," + WAKE % "old(self).queues@"),
        fn("send_with_async", props=["C03", "C20", "C04"],
           sig="pub fn send_with_async(&mut self, setter: Setter) -> (r: RetryResult<Setter>)", sig_anchor=r"async fn send_with_async<F:",
           rules=COMMON_ARC + [SETTER_VALUE], requires="old(self).wf()",
           ensures="final(self).wf(), r is Ok, final(self).suspensions@ == old(self).suspensions@ + 1, final(self).fanned_out(final(self).queues_resume@, setter.value@), final(self).live == old(self).live,"
                   + WAKE % "final(self).queues_resume@"),
        fn("consume", impl=impl_c, props=["C03", "C02"],
           sig="pub fn consume(&mut self, stream_id: u32) -> (r: Option<ArcItem>)", sig_anchor=r"fn consume\(&self, stream_id: u32\) -> Option<Arc<ItemType>>",
           rules=[consume_rule, Rule("R6-cancel", r"\bself\.streams_manager\.cancel_stream\(", "self.cancel_stream(", min=0)],
           requires="old(self).wf(), (stream_id as int) < MAX_STREAMS",
           ensures="final(self).queues@.len() == old(self).queues@.len(), forall|j: int| 0 <= j < MAX_STREAMS && j != stream_id ==> final(self).queues@[j] == old(self).queues@[j],"
                   "old(self).queues@[stream_id as int].len() > 0 ==> (r matches Some(a) && a.value == old(self).queues@[stream_id as int][0]) && final(self).queues@[stream_id as int] == old(self).queues@[stream_id as int].drop_first(),"
                   "old(self).queues@[stream_id as int].len() == 0 ==> r is None && final(self).queues@[stream_id as int] == old(self).queues@[stream_id as int],"
                   "final(self).cancels == old(self).cancels"),
    ]
    fns.append(pending_fn(file, struct))
    fns.append(new_listener_fn(file, struct))
    return Unit("multi_arc_" + kind, fns, spec=spec_with_real_atomics(SPEC_ARC, file, struct),
                trusted=["send_derived: its contract is what unit fanout_arc_%s proves of its body" % kind,
                         "consume_from / try_recv_from: the listener queue's contract (ring units + Kani; crossbeam: ASSUMED bounded FIFO whose both ends the channel owns)"],
                assumptions=["these channels WAIT while a listener queue is full (documented upstream; excluded from C16 by the statement): send_derived's contract is stated for 'every live listener queue has room'",
                             "S-model between suspension points; the listener set is fixed during a call (C03's statement)"])


RING_CONSUME = Rule("R6-queue", r"let channel = unsafe \{ self\.channels\.get_unchecked\(stream_id as usize\) \};\s*channel\.consume_movable\(\)", "self.consume_from(stream_id)", count=1,
                    note="unchecked queue lookup + consume_movable -> consume_from (index bound obligation)")
XB_CONSUME = Rule("R6-receiver", r"let receiver = unsafe \{ self\.receivers\.get_unchecked\(stream_id as usize\) \};\s*match receiver\.try_recv\(\) \{", "match self.try_recv_from(stream_id) {", count=1,
                  note="unchecked receiver lookup + try_recv -> try_recv_from (index bound obligation)")
UNITS += [unit_arc("atomic", "src/multi/channels/arc/atomic.rs", "Atomic", RING_CONSUME),
          unit_arc("full_sync", "src/multi/channels/arc/full_sync.rs", "FullSync", RING_CONSUME),
          unit_arc("crossbeam", "src/multi/channels/arc/crossbeam.rs", "Crossbeam", XB_CONSUME)]
