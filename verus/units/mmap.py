"""Unit mmap_meta (V, S-model): the log topic behind the mmap Multi channel (C09; Kani cannot mmap). Abstract state: `log: Seq<T>` = the
published prefix of the mapped buffer. publish appends exactly one entry and never touches an earlier one; the three subscription kinds
start their cursor where the statement says; a cursor yields `&log[h]` and advances iff h is below its (dynamic / frozen) tail."""
from engine.extract import FnSpec, Rule
from engine.verus_run import Unit, Lemma

F = "src/ogre_std/ogre_queues/log_topics/mmap_meta.rs"

SPEC = r"""
use core::num::NonZeroU32;
pub struct MMapContents { pub publisher_tail: AtomicUsize, pub consumer_tail: AtomicUsize, pub slice_length: AtomicUsize }
/// model of MMapMeta: `buffer` is the mapped slice (ASSUMED: the mapping behaves as a [T] of slice_length elements that only we write)
pub struct MMapMeta<T> { pub mmap_contents: MMapContents, pub buffer: Ghost<Seq<T>> }
/// a setter closure `FnOnce(&mut T)` together with the value it will leave in the slot (ghost)
pub struct Setter<T> { pub value: Ghost<T> }

impl<T> MMapMeta<T> {
    /// the published history
    pub open spec fn log(&self) -> Seq<T> { self.buffer@.subrange(0, self.mmap_contents.consumer_tail@ as int) }
    /// quiescent well-formedness (no publisher between its reservation and its publication)
    pub open spec fn wf(&self) -> bool {
        &&& self.mmap_contents.publisher_tail@ == self.mmap_contents.consumer_tail@
        &&& self.mmap_contents.consumer_tail@ <= self.mmap_contents.slice_length@
        &&& self.buffer@.len() == self.mmap_contents.slice_length@
    }
    /// `let slot = unsafe { buffer.get_unchecked_mut(tail) }; setter(slot);` -- requires the index in range (it is unchecked)
    #[verifier::external_body]
    pub fn set_slot(&mut self, tail: usize, setter: Setter<T>)
        requires (tail as int) < old(self).buffer@.len(),
        ensures final(self).buffer@ == old(self).buffer@.update(tail as int, setter.value@), final(self).mmap_contents == old(self).mmap_contents,
    { }
    /// `unsafe { buffer.get_unchecked(head) }` of a subscriber (its slice aliases the topic's mapping: R6)
    #[verifier::external_body]
    pub fn slot_ref(&self, head: usize) -> (r: &T)
        requires (head as int) < self.buffer@.len(),
        ensures *r == self.buffer@[head as int],
    { unimplemented!() }
}
pub fn spin_hint() { }

pub struct MMapMetaDynamicSubscriber { pub head: AtomicUsize }
pub struct MMapMetaFixedSubscriber { pub head: AtomicUsize, pub fixed_tail: usize }

/// C09, the partition lemma: an 'old' cursor frozen at t and a 'new' cursor started at t split the history [0, n) into [0, t) and
/// [t, n) -- nothing missing, nothing in both
pub proof fn lemma_old_new_partition<T>(log: Seq<T>, t: int)
    requires 0 <= t <= log.len(),
    ensures log.subrange(0, t) + log.subrange(t, log.len() as int) =~= log,
            forall|i: int| 0 <= i < log.len() ==> ((i < t) != (t <= i) && #[trigger] log[i] == log[i]),
{ }
"""

MUTSELF = Rule("R6-mutable_self", r"let mutable_self = unsafe \{ &mut \*\(\*\(self as \*const Self as \*const std::cell::UnsafeCell<Self>\)\)\.get\(\) \};", "", count=1,
               note="&self -> &mut Self cast dropped (S-model &mut self)")
SPIN = Rule("R11-spin", r"std::hint::spin_loop\(\);", "spin_hint();", min=0)


def fn(name, impl, container, **kw):
    f = FnSpec(F, name, impl=impl, **kw)
    f.container = container
    return f


IMPL_PUB = r"impl\s*<\s*'a\s*,\s*SlotType\s*:\s*'a\s*\+\s*Debug\s*>\s*MetaPublisher\s*<\s*'a\s*,\s*SlotType\s*>\s*for\s+MMapMeta\s*<\s*'a\s*,\s*SlotType\s*>\s*(?=\{)"
IMPL_INH = r"impl\s*<\s*'a\s*,\s*SlotType\s*:\s*'a\s*\+\s*Debug\s*>\s*MMapMeta\s*<\s*'a\s*,\s*SlotType\s*>\s*(?=\{)"
IMPL_DYN = r"impl\s*<\s*'a\s*,\s*SlotType\s*:\s*'a\s*\+\s*Debug\s*>\s*MetaSubscriber\s*<\s*'a\s*,\s*SlotType\s*>\s*for\s+MMapMetaDynamicSubscriber\s*<\s*'a\s*,\s*SlotType\s*>\s*(?=\{)"
IMPL_FIX = r"impl\s*<\s*'a\s*,\s*SlotType\s*:\s*'a\s*\+\s*Debug\s*>\s*MetaSubscriber\s*<\s*'a\s*,\s*SlotType\s*>\s*for\s+MMapMetaFixedSubscriber\s*<\s*'a\s*,\s*SlotType\s*>\s*(?=\{)"
C_META = "impl<SlotType> MMapMeta<SlotType>"
C_DYN = "impl MMapMetaDynamicSubscriber"
C_FIX = "impl MMapMetaFixedSubscriber"

SUBSCRIBER_FIELDS = [Rule("R6-sub-buffer", r"buffer:\s*self\.buffer_as_slice_mut\(\),", "", min=1, note="the subscriber's slice aliases the topic's mapping; the model reads through the topic"),
                     Rule("R6-sub-topic", r"meta_mmap_log_topic:\s*Arc::clone\(self\),", "", min=0, note="Arc back-pointer dropped: the topic is passed to consume() explicitly")]
CONSUME_SIG_ANCHOR = r"fn consume<GetterReturnType: 'a, GetterFn: FnOnce\(&'a SlotType\) -> GetterReturnType, ReportEmptyFn: Fn\(\) -> bool, ReportLenAfterDequeueingFn: FnOnce\(i32\)>"
CONSUME_REQ = ("topic.wf(), forall|s: &SlotType| getter_fn.requires((s,)), report_empty_fn.requires(()), forall|n: i32| report_len_after_dequeueing_fn.requires((n,)),"
               "old(self).head@ < usize::MAX, topic.mmap_contents.consumer_tail@ <= i32::MAX")
FNS = [
    fn("publish", IMPL_PUB, C_META, props=["C09", "C03"],
       sig="pub fn publish(&mut self, setter: Setter<SlotType>) -> (r: (Option<NonZeroU32>, Option<Setter<SlotType>>))",
       sig_anchor=r"fn publish<F: FnOnce\(&mut SlotType\)>\(&self, setter: F\) -> \(Option<NonZeroU32>, Option<F>\)",
       rules=[MUTSELF, Rule("R7-set-slot", r"let slot = unsafe \{ mutable_self\.buffer\.get_unchecked_mut\(([^()]*)\) \};\s*setter\(slot\);", r"self.set_slot(\1, setter);", count=1,
                            note="unchecked slot access + setter call -> set_slot (index bound becomes an obligation)"), SPIN],
       requires="old(self).wf(), old(self).mmap_contents.consumer_tail@ < old(self).mmap_contents.slice_length@, old(self).mmap_contents.consumer_tail@ < 0xffff_fffe",
       ensures="final(self).wf(), final(self).log() =~= old(self).log().push(setter.value@),"
               "final(self).mmap_contents.slice_length == old(self).mmap_contents.slice_length,"
               "forall|i: int| 0 <= i < old(self).buffer@.len() && i != old(self).mmap_contents.consumer_tail@ ==> final(self).buffer@[i] == old(self).buffer@[i],"
               "r.1 is None, r.0 is Some",
       loops={0: "invariant self.mmap_contents.publisher_tail@ == tail + 1, self.mmap_contents.consumer_tail@ == tail, self.mmap_contents.slice_length == old(self).mmap_contents.slice_length, tail == old(self).mmap_contents.consumer_tail@,"
                 " self.buffer@ == old(self).buffer@.update(tail as int, setter.value@), old(self).wf(), tail < old(self).mmap_contents.slice_length@,\n"
                 "decreases (if self.mmap_contents.consumer_tail@ == tail { 1int } else { 0int }),"}, loops_optional=True),
    fn("available_elements_count", IMPL_PUB, C_META, props=["C09"], kind="helper",
       sig="pub fn available_elements_count(&self) -> (r: usize)", sig_anchor=r"fn available_elements_count\(&self\) -> usize",
       requires="self.wf()", ensures="r == self.log().len()"),
    fn("subscribe_to_new_events_only", IMPL_INH, C_META, props=["C09", "C10"],
       sig="pub fn subscribe_to_new_events_only(&self) -> (r: MMapMetaDynamicSubscriber)", sig_anchor=r"pub fn subscribe_to_new_events_only\(self: &Arc<Self>\) -> MMapMetaDynamicSubscriber<'a, SlotType>",
       rules=SUBSCRIBER_FIELDS, requires="self.wf()", ensures="r.head@ == self.log().len()"),
    fn("subscribe_to_joined_old_and_new_events", IMPL_INH, C_META, props=["C09"],
       sig="pub fn subscribe_to_joined_old_and_new_events(&self) -> (r: MMapMetaDynamicSubscriber)", sig_anchor=r"pub fn subscribe_to_joined_old_and_new_events\(self: &Arc<Self>\)",
       rules=SUBSCRIBER_FIELDS, requires="self.wf()", ensures="r.head@ == 0"),
    fn("subscribe_to_separated_old_and_new_events", IMPL_INH, C_META, props=["C09"],
       sig="pub fn subscribe_to_separated_old_and_new_events(&self) -> (r: (MMapMetaFixedSubscriber, MMapMetaDynamicSubscriber))",
       sig_anchor=r"pub fn subscribe_to_separated_old_and_new_events\(self: &Arc<Self>\)",
       rules=SUBSCRIBER_FIELDS, requires="self.wf()",
       ensures="r.0.head@ == 0, r.0.fixed_tail == self.log().len(), r.1.head@ == r.0.fixed_tail"),
    fn("consume", IMPL_DYN, C_DYN, out_name="dynamic_consume", props=["C09", "C03"],
       sig="pub fn dynamic_consume<SlotType, GetterReturnType, GetterFn: FnOnce(&SlotType) -> GetterReturnType, ReportEmptyFn: Fn() -> bool, ReportLenAfterDequeueingFn: FnOnce(i32)>"
           "(&mut self, topic: &MMapMeta<SlotType>, getter_fn: GetterFn, report_empty_fn: ReportEmptyFn, report_len_after_dequeueing_fn: ReportLenAfterDequeueingFn) -> (r: Option<GetterReturnType>)",
       sig_anchor=CONSUME_SIG_ANCHOR,
       rules=[MUTSELF, SPIN,
              Rule("R6-topic", r"self\.meta_mmap_log_topic\.mmap_contents", "topic.mmap_contents", count=1, note="Arc back-pointer -> explicit topic parameter"),
              Rule("R6-slot-ref", r"unsafe \{ mutable_self\.buffer\.get_unchecked\(([^()]*)\) \}", r"topic.slot_ref(\1)", count=1, note="unchecked read of the aliased mapping -> slot_ref (bound becomes an obligation)")],
       requires=CONSUME_REQ,
       ensures="old(self).head@ < topic.log().len() ==> final(self).head@ == old(self).head@ + 1 && (r matches Some(v) && getter_fn.ensures((&topic.log()[old(self).head@ as int],), v)),"
               "old(self).head@ >= topic.log().len() ==> final(self).head@ == old(self).head@ && r is None",
       loops={0: "invariant self.head@ == head + 1, head == old(self).head@, head < usize::MAX,\ndecreases (if self.head@ == head + 1 { 1int } else { 0int }),"}, loops_optional=True),
    fn("remaining_elements_count", IMPL_DYN, C_DYN, out_name="dynamic_remaining_elements_count", props=["C09", "C06"], kind="helper",
       sig="pub fn dynamic_remaining_elements_count<SlotType>(&self, topic: &MMapMeta<SlotType>) -> (r: usize)", sig_anchor=r"fn remaining_elements_count\(&self\) -> usize",
       rules=[Rule("R6-topic", r"self\.meta_mmap_log_topic\.mmap_contents", "topic.mmap_contents", count=1)],
       requires="topic.wf(), self.head@ <= topic.log().len()", ensures="r == topic.log().len() - self.head@"),
    fn("consume", IMPL_FIX, C_FIX, out_name="fixed_consume", props=["C09"],
       sig="pub fn fixed_consume<SlotType, GetterReturnType, GetterFn: FnOnce(&SlotType) -> GetterReturnType, ReportEmptyFn: Fn() -> bool, ReportLenAfterDequeueingFn: FnOnce(i32)>"
           "(&mut self, topic: &MMapMeta<SlotType>, getter_fn: GetterFn, report_empty_fn: ReportEmptyFn, report_len_after_dequeueing_fn: ReportLenAfterDequeueingFn) -> (r: Option<GetterReturnType>)",
       sig_anchor=CONSUME_SIG_ANCHOR,
       rules=[MUTSELF, SPIN,
              Rule("R6-slot-ref", r"unsafe \{ mutable_self\.buffer\.get_unchecked\(([^()]*)\) \}", r"topic.slot_ref(\1)", count=1)],
       requires=CONSUME_REQ + ", old(self).fixed_tail <= topic.log().len()",
       ensures="final(self).fixed_tail == old(self).fixed_tail,"
               "old(self).head@ < old(self).fixed_tail ==> final(self).head@ == old(self).head@ + 1 && (r matches Some(v) && getter_fn.ensures((&topic.log()[old(self).head@ as int],), v)),"
               "old(self).head@ >= old(self).fixed_tail ==> final(self).head@ == old(self).head@ && r is None",
       loops={0: "invariant self.head@ == head + 1, head == old(self).head@, head < usize::MAX, self.fixed_tail == old(self).fixed_tail,\ndecreases (if self.head@ == head + 1 { 1int } else { 0int }),"}, loops_optional=True),
    fn("remaining_elements_count", IMPL_FIX, C_FIX, out_name="fixed_remaining_elements_count", props=["C09"], kind="helper",
       sig="pub fn fixed_remaining_elements_count(&self) -> (r: usize)", sig_anchor=r"fn remaining_elements_count\(&self\) -> usize",
       requires="self.head@ <= self.fixed_tail", ensures="r == self.fixed_tail - self.head@"),
]

UNIT = Unit("mmap_meta", FNS, spec=SPEC, lemmas=[Lemma("lemma_old_new_partition", ["C09"], clauses=["old [0,t) ++ new [t,n) == the whole history; no index in both"])],
            trusted=["set_slot / slot_ref: external_body shims for the unchecked accesses to the mapped slice (memmap: the mapping behaves as a zero-initialised [T] of slice_length elements -- ASSUMED)"],
            assumptions=["fewer than 2^32-2 events are ever published (`1 + tail as u32` overflows beyond; no listed property covers the log's counters)",
                         "S-model: a subscription or consume racing a publisher that reserved but did not yet publish (consumer_tail < publisher_tail window) is NOT covered",
                         "subscribe_to_old_events_only is todo!() upstream and excluded by the statement"])

# ------------------------------------------------------------------------------------------------------------------------------------
# mmap_log_a : A-model (adversarial environment) -- every load of the shared tails returns whatever concurrent publishers made of it
# ------------------------------------------------------------------------------------------------------------------------------------
SPEC_A = r"""
use core::num::NonZeroU32;
/// A-model `publisher_tail`: this thread may only take tickets from it
pub struct ReserveCounter { pub tickets: Ghost<Seq<usize>> }
impl ReserveCounter {
    #[verifier::external_body]
    pub fn fetch_add(&mut self, d: usize, o: Ordering) -> (t: usize)
        requires d == 1,
        ensures final(self).tickets@ == old(self).tickets@.push(t), t < usize::MAX,
    { unimplemented!() }
    #[verifier::external_body]
    pub fn load(&self, o: Ordering) -> usize { unimplemented!() }
}
/// A-model `consumer_tail` ("everything below is completely written"): PROTOCOL -- a publisher may advance it only by a compare-exchange
/// from its own ticket t to t+1 (that is what publishes entries in ticket order); any other write breaks the meaning of the counter.
/// Loads return whatever concurrent publishers made of it: `observed` logs what THIS thread saw.
pub struct PublishCounter { pub committed: Ghost<Seq<(usize, usize)>>, pub observed: Ghost<Seq<usize>> }
impl PublishCounter {
    #[verifier::external_body]
    pub fn load(&mut self, o: Ordering) -> (r: usize)
        ensures final(self).observed@ == old(self).observed@.push(r), final(self).committed == old(self).committed,
    { unimplemented!() }
    #[verifier::external_body]
    pub fn compare_exchange_weak(&mut self, cur: usize, new: usize, o1: Ordering, o2: Ordering) -> (r: Result<usize, usize>)
        ensures r is Ok ==> final(self).committed@ == old(self).committed@.push((cur, new)),
                r is Err ==> final(self).committed == old(self).committed,
                final(self).observed == old(self).observed,
    { unimplemented!() }
    #[verifier::external_body]
    pub fn compare_exchange(&mut self, cur: usize, new: usize, o1: Ordering, o2: Ordering) -> (r: Result<usize, usize>)
        ensures r is Ok ==> final(self).committed@ == old(self).committed@.push((cur, new)),
                r is Err ==> final(self).committed == old(self).committed,
                final(self).observed == old(self).observed,
    { unimplemented!() }
    /// PROTOCOL VIOLATION: blind writes to consumer_tail do not wait for earlier tickets (entries become visible before they are written)
    #[verifier::external_body]
    pub fn fetch_add(&mut self, d: usize, o: Ordering) -> usize requires false { unimplemented!() }
    #[verifier::external_body]
    pub fn store(&mut self, v: usize, o: Ordering) requires false { }
    #[verifier::external_body]
    pub fn swap(&mut self, v: usize, o: Ordering) -> usize requires false { unimplemented!() }
    #[verifier::external_body]
    pub fn fetch_max(&mut self, v: usize, o: Ordering) -> usize requires false { unimplemented!() }
    #[verifier::external_body]
    pub fn fetch_min(&mut self, v: usize, o: Ordering) -> usize requires false { unimplemented!() }
    #[verifier::external_body]
    pub fn fetch_sub(&mut self, v: usize, o: Ordering) -> usize requires false { unimplemented!() }
    #[verifier::external_body]
    pub fn fetch_or(&mut self, v: usize, o: Ordering) -> usize requires false { unimplemented!() }
}
pub struct MMapContents { pub publisher_tail: ReserveCounter, pub consumer_tail: PublishCounter }
pub struct Setter<T> { pub value: Ghost<T> }
pub struct MMapMeta<T> { pub mmap_contents: MMapContents, pub written: Ghost<Map<int, T>> }
impl<T> MMapMeta<T> {
    #[verifier::external_body]
    pub fn set_slot(&mut self, tail: usize, setter: Setter<T>)
        ensures final(self).written@ == old(self).written@.insert(tail as int, setter.value@), final(self).mmap_contents == old(self).mmap_contents,
    { }
}
impl<T> MMapMeta<T> {
    /// `unsafe { buffer.get_unchecked(head) }` of a subscriber (the index bound is the S-model unit's obligation)
    #[verifier::external_body]
    pub fn slot_ref(&self, head: usize) -> (r: &T) { unimplemented!() }
}
pub fn spin_hint() { }
pub struct MMapMetaDynamicSubscriber { pub head: AtomicUsize }
pub struct MMapMetaFixedSubscriber { pub head: AtomicUsize, pub fixed_tail: usize }
pub enum MMapMetaSubscriber { Dynamic(MMapMetaDynamicSubscriber), Fixed(MMapMetaFixedSubscriber) }

/// ids handed out by the stream manager (its bookkeeping is decided under C10): fresh, distinct, in range
pub struct StreamsManagerBase<const MAX_STREAMS: usize> { pub handed_out: Ghost<Set<u32>> }
impl<const MAX_STREAMS: usize> StreamsManagerBase<MAX_STREAMS> {
    #[verifier::external_body]
    pub fn create_stream_id(&mut self) -> (id: u32)
        ensures (id as int) < MAX_STREAMS, !old(self).handed_out@.contains(id), final(self).handed_out@ == old(self).handed_out@.insert(id),
    { unimplemented!() }
}
pub struct MutinyStream { pub stream_id: u32 }
impl MutinyStream { pub fn new(stream_id: u32) -> (r: Self) ensures r.stream_id == stream_id { MutinyStream { stream_id } } }
pub struct MmapLog<T, const MAX_STREAMS: usize> { pub streams_manager: StreamsManagerBase<MAX_STREAMS>, pub log_queue: MMapMeta<T>, pub subscribers: [MMapMetaSubscriber; MAX_STREAMS] }
"""
C_META_A = "impl<SlotType> MMapMeta<SlotType>"
FL = "src/multi/channels/reference/mmap_log.rs"
IMPL_LOG_MULTI = r"ChannelMulti\s*<\s*'a\s*,\s*ItemType\s*,\s*&'static\s+ItemType\s*>\s*for\s+MmapLog\s*<\s*'a\s*,\s*ItemType\s*,\s*MAX_STREAMS\s*>\s*(?=\{)"
FNS_A = [
    fn("publish", IMPL_PUB, C_META_A, out_name="publish", props=["C09", "C03"], attrs="#[verifier::exec_allows_no_decreases_clause]", model="A",
       sig="pub fn publish(&mut self, setter: Setter<SlotType>) -> (r: (Option<NonZeroU32>, Option<Setter<SlotType>>))",
       sig_anchor=r"fn publish<F: FnOnce\(&mut SlotType\)>\(&self, setter: F\) -> \(Option<NonZeroU32>, Option<F>\)",
       rules=[MUTSELF, Rule("R7-set-slot", r"let slot = unsafe \{ mutable_self\.buffer\.get_unchecked_mut\(([^()]*)\) \};\s*setter\(slot\);", r"self.set_slot(\1, setter);", count=1), SPIN,
              Rule("A-arith", r"1 \+ tail as u32", "1u32.wrapping_add(tail as u32)", min=0, note="the 2^32-event overflow of the reported length is outside every listed property (DESIGN C09)")],
       ensures="final(self).mmap_contents.publisher_tail.tickets@.len() == old(self).mmap_contents.publisher_tail.tickets@.len() + 1,"
               "final(self).mmap_contents.consumer_tail.committed@ =~= old(self).mmap_contents.consumer_tail.committed@.push("
               "   (final(self).mmap_contents.publisher_tail.tickets@.last(), (final(self).mmap_contents.publisher_tail.tickets@.last() + 1) as usize)),"
               "final(self).written@ == old(self).written@.insert(final(self).mmap_contents.publisher_tail.tickets@.last() as int, setter.value@)",
       loops={0: "invariant_except_break self.mmap_contents.consumer_tail.committed == old(self).mmap_contents.consumer_tail.committed,"
                 " self.mmap_contents.publisher_tail.tickets@ == old(self).mmap_contents.publisher_tail.tickets@.push(tail), tail < usize::MAX,"
                 " self.written@ == old(self).written@.insert(tail as int, setter.value@),\n"
                 "ensures self.mmap_contents.consumer_tail.committed@ =~= old(self).mmap_contents.consumer_tail.committed@.push((tail, (tail + 1) as usize)),"
                 " self.mmap_contents.publisher_tail.tickets@ == old(self).mmap_contents.publisher_tail.tickets@.push(tail),"
                 " self.written@ == old(self).written@.insert(tail as int, setter.value@),"}, loops_optional=True),
    fn("available_elements_count", IMPL_PUB, C_META_A, props=["C09"], kind="helper", model="A",
       sig="pub fn available_elements_count(&self) -> (r: usize)", sig_anchor=r"fn available_elements_count\(&self\) -> usize"),
    fn("subscribe_to_separated_old_and_new_events", IMPL_INH, C_META_A, props=["C09"], model="A",
       sig="pub fn subscribe_to_separated_old_and_new_events(&mut self) -> (r: (MMapMetaFixedSubscriber, MMapMetaDynamicSubscriber))",
       sig_anchor=r"pub fn subscribe_to_separated_old_and_new_events\(self: &Arc<Self>\)",
       rules=SUBSCRIBER_FIELDS,
       ensures="r.0.head@ == 0, r.1.head@ == r.0.fixed_tail,"
               "final(self).mmap_contents.consumer_tail.observed@.len() == old(self).mmap_contents.consumer_tail.observed@.len() + 1,"
               "r.0.fixed_tail == final(self).mmap_contents.consumer_tail.observed@.last()"),
    fn("subscribe_to_new_events_only", IMPL_INH, C_META_A, props=["C09", "C10"], model="A",
       sig="pub fn subscribe_to_new_events_only(&mut self) -> (r: MMapMetaDynamicSubscriber)", sig_anchor=r"pub fn subscribe_to_new_events_only\(self: &Arc<Self>\)",
       rules=SUBSCRIBER_FIELDS,
       ensures="final(self).mmap_contents.consumer_tail.observed@.len() == old(self).mmap_contents.consumer_tail.observed@.len() + 1,"
               "r.head@ == final(self).mmap_contents.consumer_tail.observed@.last()"),
]
# A-model of the 'new events' cursor: what it may hand out is bounded by ONE observation of consumer_tail ("completely written below here") made in this
# very call -- publisher_tail (reserved, possibly unwritten entries; what available_elements_count() returns) or any other source says nothing
TOPIC_ANY = Rule("R6-topic", r"self\.meta_mmap_log_topic\.", "topic.", min=1, note="Arc back-pointer -> explicit topic parameter")
FNS_A += [
    fn("consume", IMPL_DYN, C_DYN, out_name="dynamic_consume", props=["C09", "C03"], model="A", kind="mechanism",
       sig="pub fn dynamic_consume<SlotType, GetterReturnType, GetterFn: FnOnce(&SlotType) -> GetterReturnType, ReportEmptyFn: Fn() -> bool, ReportLenAfterDequeueingFn: FnOnce(i32)>"
           "(&mut self, topic: &mut MMapMeta<SlotType>, getter_fn: GetterFn, report_empty_fn: ReportEmptyFn, report_len_after_dequeueing_fn: ReportLenAfterDequeueingFn) -> (r: Option<GetterReturnType>)",
       sig_anchor=CONSUME_SIG_ANCHOR,
       rules=[MUTSELF, SPIN, TOPIC_ANY,
              Rule("R6-slot-ref", r"unsafe \{ mutable_self\.buffer\.get_unchecked\(([^()]*)\) \}", r"topic.slot_ref(\1)", count=1, note="unchecked read of the aliased mapping -> slot_ref"),
              Rule("A-arith", r"\(tail - head\) as i32", "(tail.wrapping_sub(head)) as i32", min=0, note="the reported length is advisory (log text / metrics); its cast is decided in the S-model unit")],
       requires="forall|s: &SlotType| getter_fn.requires((s,)), report_empty_fn.requires(()), forall|n: i32| report_len_after_dequeueing_fn.requires((n,)), old(self).head@ < usize::MAX",
       ensures="final(topic).mmap_contents.consumer_tail.observed@.len() == old(topic).mmap_contents.consumer_tail.observed@.len() + 1,"
               "r is Some ==> old(self).head@ < final(topic).mmap_contents.consumer_tail.observed@.last() && final(self).head@ == old(self).head@ + 1,"
               "r is None ==> old(self).head@ >= final(topic).mmap_contents.consumer_tail.observed@.last() && final(self).head@ == old(self).head@,"
               "final(topic).mmap_contents.consumer_tail.committed == old(topic).mmap_contents.consumer_tail.committed, final(topic).mmap_contents.publisher_tail == old(topic).mmap_contents.publisher_tail",
       loops={0: "invariant self.head@ == head + 1, head == old(self).head@, head < usize::MAX, topic.mmap_contents == mc0,\ndecreases (if self.head@ == head + 1 { 1int } else { 0int }),"}, loops_optional=True,
       hints=[(r"if head >= tail \{", "let ghost mc0 = topic.mmap_contents;", "before")]),
    fn("remaining_elements_count", IMPL_DYN, C_DYN, out_name="dynamic_remaining_elements_count", props=["C09", "C06"], kind="mechanism", model="A",
       sig="pub fn dynamic_remaining_elements_count<SlotType>(&self, topic: &mut MMapMeta<SlotType>) -> (r: usize)", sig_anchor=r"fn remaining_elements_count\(&self\) -> usize",
       rules=[TOPIC_ANY, Rule("A-arith", r"(topic\.[\w.()]+(?:\(Relaxed\))?) - self\.head\.load\(Relaxed\)", r"(\1).wrapping_sub(self.head.load(Relaxed))", count=1, note="difference of two racy reads: wrapping in the A-model (the S-model unit decides the value)")],
       ensures="final(topic).mmap_contents.consumer_tail.observed@.len() == old(topic).mmap_contents.consumer_tail.observed@.len() + 1,"
               "r == final(topic).mmap_contents.consumer_tail.observed@.last().wrapping_sub(self.head@)"),
]
_f = FnSpec(FL, "create_streams_for_old_and_new_events", impl=IMPL_LOG_MULTI, props=["C09"], model="A",
            sig="pub fn create_streams_for_old_and_new_events(&mut self) -> (r: ((MutinyStream, u32), (MutinyStream, u32)))",
            sig_anchor=r"fn create_streams_for_old_and_new_events\(self: &Arc<Self>\)",
            rules=[Rule("R6-ref_self", r"let ref_self: &Self = self;", "", count=1),
                   Rule("R6-mutable_self", r"let mutable_self = unsafe \{ &mut \*\(\*\(ref_self as \*const Self as \*const std::cell::UnsafeCell<Self>\)\)\.get\(\) \};", "", count=1),
                   Rule("R6-mutable_self-use", r"\bmutable_self\.", "self.", min=1),
                   Rule("R3-stream-new", r"MutinyStream::new\((\w+), self\)", r"MutinyStream::new(\1)", count=2, note="the Arc<Self> back-pointer of the stream is dropped")],
            ensures="(r.0).1 != (r.1).1, ((r.0).1 as int) < MAX_STREAMS, ((r.1).1 as int) < MAX_STREAMS,"
                    "final(self).subscribers[(r.0).1 as int] matches MMapMetaSubscriber::Fixed(old_cursor) && final(self).subscribers[(r.1).1 as int] matches MMapMetaSubscriber::Dynamic(new_cursor)"
                    "  && old_cursor.head@ == 0 && new_cursor.head@ == old_cursor.fixed_tail")
_f.container = "impl<ItemType, const MAX_STREAMS: usize> MmapLog<ItemType, MAX_STREAMS>"
FNS_A.append(_f)
UNIT_A = Unit("mmap_log_a", FNS_A, spec=SPEC_A, model="A",
              trusted=["ReserveCounter / PublishCounter: A-model shims of publisher_tail / consumer_tail whose contracts are the PROTOCOL of the two counters (DESIGN §3.5 A-step); StreamsManagerBase::create_stream_id: fresh id (C10)"],
              assumptions=["the meta-theorem 'every interleaving of protocol-conformant steps yields a log whose visible prefix is completely written and totally ordered' is NOT mechanised",
                           "termination of the publication spin loop (waiting for earlier tickets) is not proved"])
UNITS = [UNIT, UNIT_A]


# ------------------------------------------------------------------------------------------------------------------------------------
# mmap_log_file_name: `MmapLog::new(name)` derives the backing file of the log from the channel's name. C03 / C09: each Multi has ITS OWN log --
# two live channels with different names must never map to the same file (MMapMeta::new truncates and re-maps it: they would share tails and
# slots, and listeners would be handed the other channel's events). Obligation generated from the real text on every run: the per-character
# mapping spliced VERBATIM from the closure inside `new` is injective. (That `chars().map(f).collect()` and `format!("/tmp/{}.mmap", s)` are
# injective when f is: properties of std, ASSUMED.)
# ------------------------------------------------------------------------------------------------------------------------------------
def file_name_obligation(repo, log):
    import os, re
    from engine import rustlex as lx
    from engine.common import Undecided, read
    path = os.path.join(repo, FL)
    if not os.path.exists(path):
        raise Undecided(f"{FL} not found")
    text = read(path)
    msk = lx.mask(text, keep_strings=True)
    blocks = lx.find_blocks(text, r"ChannelCommon\s*<[^{]*?>\s*for\s+MmapLog\s*<[^{]*(?=\{)", lx.mask(text))
    hit = None
    for (_hs, bo, bc) in blocks or []:
        hit = lx.find_fn(text, "new", (bo, bc), lx.mask(text))
        if hit:
            break
    if not hit:
        raise Undecided(f"{FL}: fn new of the ChannelCommon impl not found")
    s0, bo, bc = hit
    body = lx.strip_comments(text[bo:bc + 1])
    m = re.search(r"name\.chars\(\)\.map\(\|\s*(\w+)\s*\|", body)
    if not m:
        if "chars()" not in body and re.search(r'format!\(\s*"/tmp/\{(?:name)?\}\.mmap"\s*(?:,\s*name\s*)?\)', body):
            # the name is used as it is: trivially injective
            log["R15-file-name"] = log.get("R15-file-name", 0) + 1
            return ("pub open spec fn file_name_char(c: char) -> char { c }\n"
                    "pub proof fn mmap_log_file_name_is_injective(c1: char, c2: char) requires file_name_char(c1) == file_name_char(c2) ensures c1 == c2 { }\n"), \
                   [Lemma("mmap_log_file_name_is_injective", ["C03", "C09"], clauses=["different channel names -> different backing files"])]
        raise Undecided(f"{FL}::new: the per-character mapping of the channel name was not recognised -- contract needs review")
    o = body.index("(", m.start() + len("name.chars().map") - 1)
    c = lx.match_close(lx.mask(body, keep_strings=True), o)
    closure = body[o + 1:c]
    mm = re.match(r"\s*\|\s*(\w+)\s*\|\s*(.*)$", closure, re.S)
    if not mm:
        raise Undecided(f"{FL}::new: the character mapping is not a one-parameter closure -- contract needs review")
    var, expr = mm.group(1), mm.group(2).strip()
    log["R15-file-name"] = log.get("R15-file-name", 0) + 1
    gen = ("/// the per-character mapping of `MmapLog::new(name)`, spliced verbatim from " + FL + "\n"
           f"pub open spec fn file_name_char({var}: char) -> char {{ {expr} }}\n"
           "pub proof fn mmap_log_file_name_is_injective(c1: char, c2: char) requires file_name_char(c1) == file_name_char(c2) ensures c1 == c2 { }\n")
    return gen, [Lemma("mmap_log_file_name_is_injective", ["C03", "C09"], clauses=["different channel names -> different backing files (the per-character mapping is injective)"])]


UNIT_NAME = Unit("mmap_log_file_name", [], spec="", generated=file_name_obligation, props=["C03", "C09"],
                 lemmas=[Lemma("mmap_log_file_name_is_injective", ["C03", "C09"])],
                 trusted=["`chars().map(f).collect::<String>()` and `format!(\"/tmp/{}.mmap\", s)` are injective when f is (std)"],
                 assumptions=["channels created through MmapLog::from_file choose their file themselves (outside this obligation)"])
UNITS.append(UNIT_NAME)
