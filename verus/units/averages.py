"""Unit averages_a (V, A-model): AtomicIncrementalAverage64::atomic_compute / inc / probe under an ADVERSARIAL environment -- every load
and every failed compare-exchange returns an arbitrary word (other threads may have written anything). Whatever holds here holds under any
interleaving: the loop is left only through ONE successful compare_exchange(cur -> join(f(split(cur)))), i.e. each recorded measurement
is one atomic transition applied to the word that was current at that instant (no lost update, C19); a reading is one 64-bit load."""
from engine.extract import FnSpec, Rule
from engine.verus_run import Unit, Lemma

F = "src/incremental_averages.rs"
IMPL = r"impl\s+AtomicIncrementalAverage64\s*(?=\{)"
CONTAINER = "impl AtomicIncrementalAverage64"
SPEC = r"""
pub uninterp spec fn spec_split(j: u64) -> (u32, f32);
pub uninterp spec fn spec_join(c: u32, a: f32) -> u64;
/// A-model atomic word: values are environment-controlled; only the transitions THIS thread committed are recorded
pub struct EnvAtomicU64 { pub committed: Ghost<Seq<(u64, u64)>>, pub loads: Ghost<nat> }
impl EnvAtomicU64 {
    #[verifier::external_body]
    pub fn load(&mut self, o: Ordering) -> (r: u64)
        ensures final(self).committed == old(self).committed, final(self).loads@ == old(self).loads@ + 1,
    { unimplemented!() }
    /// succeeds or fails at the environment's discretion; success means the word WAS `cur` at that instant and is `new` now
    #[verifier::external_body]
    pub fn compare_exchange(&mut self, cur: u64, new: u64, o1: Ordering, o2: Ordering) -> (r: Result<u64, u64>)
        ensures r is Ok ==> final(self).committed@ == old(self).committed@.push((cur, new)),
                r is Err ==> final(self).committed == old(self).committed,
                final(self).loads == old(self).loads,
    { unimplemented!() }
}
impl EnvAtomicU64 {
    #[verifier::external_body]
    pub fn compare_exchange_weak(&mut self, cur: u64, new: u64, o1: Ordering, o2: Ordering) -> (r: Result<u64, u64>)
        ensures r is Ok ==> final(self).committed@ == old(self).committed@.push((cur, new)), r is Err ==> final(self).committed == old(self).committed, final(self).loads == old(self).loads,
    { unimplemented!() }
    /// PROTOCOL VIOLATION: a blind write overwrites whatever another recorder committed in between (a lost update)
    #[verifier::external_body] pub fn store(&mut self, v: u64, o: Ordering) requires false { }
    #[verifier::external_body] pub fn swap(&mut self, v: u64, o: Ordering) -> u64 requires false { unimplemented!() }
    #[verifier::external_body] pub fn fetch_add(&mut self, v: u64, o: Ordering) -> u64 requires false { unimplemented!() }
}
pub struct AtomicIncrementalAverage64 { pub joined: EnvAtomicU64 }
impl AtomicIncrementalAverage64 {
    /// the real split_joined / join_split are decided by back end K (mutually inverse on every word); here they are uninterpreted
    #[verifier::external_body] pub fn split_joined(joined: u64) -> (r: (u32, f32)) ensures r == spec_split(joined) { unimplemented!() }
    #[verifier::external_body] pub fn join_split(counter: u32, average: f32) -> (r: u64) ensures r == spec_join(counter, average) { unimplemented!() }
}
/// the value the computation closure maps a pair to (the closure is a function: same input, same output)
pub uninterp spec fn spec_f(c: u32, a: f32) -> (u32, f32);
/// a transition cur -> new that applies the computation to the pair stored in cur
pub open spec fn applies(t: (u64, u64)) -> bool {
    t.1 == spec_join(spec_f(spec_split(t.0).0, spec_split(t.0).1).0, spec_f(spec_split(t.0).0, spec_split(t.0).1).1)
}
"""
FNS = [
    FnSpec(F, "atomic_compute", impl=IMPL, props=["C19"], attrs="#[verifier::exec_allows_no_decreases_clause]", model="A",
           sig="pub fn atomic_compute<Fc: Fn(u32, f32) -> (u32, f32)>(&mut self, load_ordering: Ordering, store_ordering: Ordering, computation: Fc)",
           sig_anchor=r"fn atomic_compute\(&self, load_ordering: Ordering, store_ordering: Ordering, computation: impl Fn\(u32, f32\) -> \(u32, f32\)\)",
           rules=[Rule("R6-unsafe-block", r"\bunsafe\s*\{", "{", count=1, note="unsafe block marker dropped (union field access)"),
                  Rule("R8-break", r"Ok\(_\) => break,", "Ok(_) => return,", min=0, note="`break` of the tail loop -> `return`")],
           requires="forall|c: u32, a: f32| computation.requires((c, a)), forall|c: u32, a: f32, r: (u32, f32)| computation.ensures((c, a), r) ==> r == spec_f(c, a)",
           ensures="final(self).joined.committed@.len() == old(self).joined.committed@.len() + 1,"
                   "final(self).joined.committed@.drop_last() =~= old(self).joined.committed@,"
                   "applies(final(self).joined.committed@.last())",
           loops={0: "invariant self.joined.committed == old(self).joined.committed, forall|c: u32, a: f32| computation.requires((c, a)), forall|c: u32, a: f32, r: (u32, f32)| computation.ensures((c, a), r) ==> r == spec_f(c, a),"}),
]
for f in FNS:
    f.container = CONTAINER
UNIT = Unit("averages_a", FNS, spec=SPEC, model="A",
            trusted=["EnvAtomicU64: A-model shim (hardware compare-exchange is atomic: ASSUMED)", "split_joined / join_split uninterpreted here; their inverse property is the K obligations of C19"],
            assumptions=["termination of the compare-exchange retry loop under contention is NOT proved (lock-freedom, not wait-freedom)"])
