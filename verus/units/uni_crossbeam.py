"""Unit uni_crossbeam (V, S-model): the glue of the crossbeam-backed Uni channel (`uni/channels/movable/crossbeam.rs`), which back end K
cannot reach (Kani's compiler panics on crossbeam-channel). The queue itself is an ASSUMED contract (crossbeam_channel::bounded = bounded
FIFO whose two ends the channel owns, so `Disconnected` cannot happen); what is decided is what the channel does with its answers
(C01 C02 C16: accept <=> room, the rejected payload / un-invoked setter is handed back and nothing changes; C04: an event entering an empty
queue wakes stream #0; C20: the async send holds nothing across its await and, when the queue was filled meanwhile, YIELDS instead of
busy-spinning inside a poll)."""
import re
from engine.extract import FnSpec, Rule
from engine.verus_run import Unit
from engine.common import Undecided
from engine import rustlex as lx

F = "src/uni/channels/movable/crossbeam.rs"
IMPL_P = r"ChannelProducer\s*<\s*'a\s*,\s*ItemType\s*,\s*ItemType\s*>\s*for\s+Crossbeam\s*<[^{]*(?=\{)"
IMPL_C = r"ChannelConsumer\s*<\s*'a\s*,\s*ItemType\s*>\s*for\s*Crossbeam\s*<[^{]*(?=\{)"
CONTAINER = "impl<const BUFFER_SIZE: usize, const MAX_STREAMS: usize> Crossbeam<BUFFER_SIZE, MAX_STREAMS>"

SPEC = r"""
pub enum TrySendError { Full(u64), Disconnected(u64) }
pub enum TryRecvError { Empty, Disconnected }
pub enum RetryResult<I> { Ok { reported_input: (), output: () }, Transient { input: I, error: () }, Fatal { input: I, error: () } }
impl RetryResult<u64> {
    /// `.retry_with(|item| self.send(item)).spinning_forever()`: re-sends until accepted, BUSY-SPINNING on the calling thread. Tolerable only where
    /// the first attempt cannot be refused; inside an `async fn` a refusal would spin forever inside one poll (the consumer on the same thread never runs)
    pub fn retry_spinning_forever(self) requires self is Ok { }
    /// `.retry_with_async(|item| ready(self.send(item))).yielding_forever().await`: re-sends until accepted, yielding to the executor in between
    pub fn retry_yielding_forever(self) { }
}
/// a setter closure `FnOnce(&mut ItemType)` (or its async counterpart) with the value it will leave in the slot; `apply` CONSUMES it (invoked once)
pub struct Setter { pub value: Ghost<u64>, pub id: Ghost<int> }
impl Setter {
    #[verifier::external_body]
    pub fn apply(self) -> (r: u64) ensures r == self.value@ { unimplemented!() }
}
pub struct StreamsManagerBase<const MAX_STREAMS: usize> { pub wakes: Ghost<Seq<nat>>, pub cancels: Ghost<Seq<nat>> }
impl<const MAX_STREAMS: usize> StreamsManagerBase<MAX_STREAMS> {
    #[verifier::external_body]
    pub fn wake_stream(&mut self, stream_id: u32)
        requires (stream_id as int) < MAX_STREAMS, old(self).wakes@.len() == MAX_STREAMS,
        ensures final(self).wakes@ == old(self).wakes@.update(stream_id as int, old(self).wakes@[stream_id as int] + 1), final(self).cancels == old(self).cancels,
    { }
    #[verifier::external_body]
    pub fn cancel_stream(&mut self, stream_id: u32)
        requires (stream_id as int) < MAX_STREAMS,
        ensures final(self).wakes@.len() == old(self).wakes@.len(),
    { }
}
/// the crossbeam queue seen through `tx` / `rx` (ASSUMED: bounded FIFO of capacity BUFFER_SIZE; both ends are owned by the channel)
pub struct Crossbeam<const BUFFER_SIZE: usize, const MAX_STREAMS: usize> { pub q: Ghost<Seq<u64>>, pub streams_manager: StreamsManagerBase<MAX_STREAMS>,
    /// ghost: per stream, the wake-ups issued WHILE an event was deliverable (a wake-up issued before the event is visible finds nothing: C04 mechanism)
    pub eff: Ghost<Seq<nat>> }
impl<const BUFFER_SIZE: usize, const MAX_STREAMS: usize> Crossbeam<BUFFER_SIZE, MAX_STREAMS> {
    pub open spec fn wf(&self) -> bool { self.q@.len() <= BUFFER_SIZE && 1 <= MAX_STREAMS && self.streams_manager.wakes@.len() == MAX_STREAMS && self.eff@.len() == MAX_STREAMS && BUFFER_SIZE >= 1 }
    /// `self.streams_manager.wake_stream(id)` seen from the channel: the index bound is an obligation; `eff` counts the wake-ups issued while something is deliverable
    #[verifier::external_body]
    pub fn wake_stream(&mut self, stream_id: u32)
        requires (stream_id as int) < MAX_STREAMS, old(self).streams_manager.wakes@.len() == MAX_STREAMS, old(self).eff@.len() == MAX_STREAMS,
        ensures final(self).streams_manager.wakes@ == old(self).streams_manager.wakes@.update(stream_id as int, old(self).streams_manager.wakes@[stream_id as int] + 1), final(self).streams_manager.cancels == old(self).streams_manager.cancels,
                final(self).q == old(self).q,
                final(self).eff@ == (if old(self).q@.len() > 0 { old(self).eff@.update(stream_id as int, old(self).eff@[stream_id as int] + 1) } else { old(self).eff@ }),
    { }
    #[verifier::external_body] pub fn q_len(&self) -> (r: usize) ensures r == self.q@.len() { unimplemented!() }
    #[verifier::external_body] pub fn q_is_full(&self) -> (r: bool) ensures r == (self.q@.len() >= BUFFER_SIZE) { unimplemented!() }
    #[verifier::external_body]
    pub fn q_try_send(&mut self, item: u64) -> (r: Result<(), TrySendError>)
        ensures final(self).streams_manager == old(self).streams_manager, final(self).eff == old(self).eff,
                old(self).q@.len() < BUFFER_SIZE ==> r is Ok && final(self).q@ == old(self).q@.push(item),
                old(self).q@.len() >= BUFFER_SIZE ==> r == Err::<(), TrySendError>(TrySendError::Full(item)) && final(self).q == old(self).q,
    { unimplemented!() }
    #[verifier::external_body]
    pub fn q_try_recv(&mut self) -> (r: Result<u64, TryRecvError>)
        ensures final(self).streams_manager == old(self).streams_manager, final(self).eff == old(self).eff,
                old(self).q@.len() > 0 ==> r == Ok::<u64, TryRecvError>(old(self).q@[0]) && final(self).q@ == old(self).q@.drop_first(),
                old(self).q@.len() == 0 ==> r == Err::<u64, TryRecvError>(TryRecvError::Empty) && final(self).q == old(self).q,
    { unimplemented!() }
    /// `first.retry_with_async(|item| ready(self.send(item))).yielding_forever().await`: re-sends until accepted, yielding to the executor in between (so the
    /// consumers can make room): when it returns the item IS in the queue
    #[verifier::external_body]
    pub fn retry_async_yielding_forever(&mut self, first: RetryResult<u64>)
        requires old(self).wf(), !(first is Fatal),
        ensures final(self).wf(), first is Ok ==> final(self).q == old(self).q && final(self).streams_manager == old(self).streams_manager && final(self).eff == old(self).eff,
                first matches RetryResult::Transient { input, .. } ==> final(self).q@.len() > 0 && final(self).q@.last() == input,
    { }
    /// the same with `.spinning_forever()`: busy-spins INSIDE the poll -- tolerable only when the first attempt cannot be refused (C20)
    #[verifier::external_body]
    pub fn retry_async_spinning_forever(&mut self, first: RetryResult<u64>)
        requires first is Ok,
        ensures final(self).q == old(self).q, final(self).streams_manager == old(self).streams_manager, final(self).eff == old(self).eff,
    { }
    /// any other keen-retry executor (`yielding_until_timeout`, `spinning_until_timeout`, a bounded number of attempts, ...) may GIVE UP: when it returns the
    /// item may or may not have been accepted
    #[verifier::external_body]
    pub fn retry_async_may_give_up(&mut self, first: RetryResult<u64>)
        requires old(self).wf(),
        ensures final(self).wf(), first is Ok ==> final(self).q == old(self).q && final(self).streams_manager == old(self).streams_manager && final(self).eff == old(self).eff,
    { }
    /// the `.await` of the async setter (R10): other producers / the consumers run meanwhile -- the queue is whatever they made of it
    #[verifier::external_body]
    pub fn suspend_point(&mut self)
        ensures final(self).q@.len() <= BUFFER_SIZE, final(self).streams_manager.wakes@.len() == old(self).streams_manager.wakes@.len(), final(self).eff == old(self).eff,
    { }
}
"""


class MapOrElseToMatch(Rule):
    """R18: `RECV .map_or_else(|e| B1, |v| B2)` on a Result (the whole function body) -> `match RECV { Err(e) => B1, Ok(v) => B2 }`"""

    def __init__(self):
        Rule.__init__(self, "R18-map_or_else", r"\.\s*map_or_else\s*\(", "", count=1, note="Result::map_or_else(err_closure, ok_closure) -> match (vstd has no specification of map_or_else)")

    def apply(self, text, where, log):
        m = lx.mask(text)
        mm = re.search(self.pattern, m)
        if not mm:
            raise Undecided(f"rewrite rule {self.rid} applied 0x in {where}, expected 1x -- the code's shape changed; contract needs review")
        o = mm.end() - 1
        c = lx.match_close(m, o)
        args = lx.split_args(text[o + 1:c])
        if len(args) != 2:
            raise Undecided(f"{where}: map_or_else with {len(args)} arguments")
        arms = []
        for a, ctor in zip(args, ("Err", "Ok")):
            ma = re.match(r"\s*\|\s*(\w+)\s*\|\s*(.*)$", a, re.S)
            if not ma:
                raise Undecided(f"{where}: map_or_else argument is not a one-parameter closure")
            arms.append(f"{ctor}({ma.group(1)}) => {ma.group(2).strip()},")
        recv = text[:mm.start()].strip()
        rest = text[c + 1:]
        log[self.rid] = log.get(self.rid, 0) + 1
        return "\n        match (" + recv + ") { " + " ".join(arms) + " }" + rest


COMMON = [Rule("R3-retry-path", r"\bkeen_retry::RetryResult::", "RetryResult::", min=0, note="keen_retry::RetryResult -> the unit's plain enum with the same variants"),
          Rule("R5-discard", r"(?m)^(\s*)_ = ", r"\1let _ = ", min=0, note="`_ = expr;` -> `let _ = expr;`"),
          Rule("R6-wake", r"\bself\.streams_manager\.wake_stream\(", "self.wake_stream(", min=0, note="wake_stream -> channel-level shim (index bound + 'issued while an event was deliverable')"),
          Rule("R6-tx", r"\bself\.tx\.(len|is_full|try_send)\(", r"self.q_\1(", min=0, note="crossbeam Sender -> queue shims"),
          Rule("R6-rx", r"\bself\.rx\.try_recv\(", "self.q_try_recv(", min=0)]
SETTER_VALUE = Rule("R7-maybeuninit", r"let mut item = MaybeUninit::uninit\(\);\s*let item_ref = unsafe \{ &mut \*item\.as_mut_ptr\(\) \};\s*setter\(item_ref\)(\.await)?;\s*let item = unsafe \{ item\.assume_init\(\) \};",
                    lambda m: ("self.suspend_point(); " if m.group(1) else "") + "let item = setter.apply();", count=1,
                    note="MaybeUninit slot + setter call -> Setter::apply (consumed: invoked exactly once); the async setter's .await is a suspension point where the environment acts")


def fn(name, impl=IMPL_P, **kw):
    f = FnSpec(F, name, impl=impl, **kw)
    f.container = CONTAINER
    return f


FNS = [
    fn("send", props=["C01", "C02", "C04", "C16"],
       sig="pub fn send(&mut self, item: u64) -> (r: RetryResult<u64>)", sig_anchor=r"fn send\(&self, item: ItemType\) -> keen_retry::RetryConsumerResult<\(\), ItemType, \(\)>",
       rules=COMMON + [MapOrElseToMatch()],
       requires="old(self).wf()",
       ensures="final(self).wf(),"
               "old(self).q@.len() < BUFFER_SIZE ==> r is Ok && final(self).q@ == old(self).q@.push(item),"
               "old(self).q@.len() >= BUFFER_SIZE ==> (r matches RetryResult::Transient { input, .. } && input == item) && final(self).q == old(self).q,"
               "old(self).q@.len() == 0 ==> final(self).streams_manager.wakes@[0] > old(self).streams_manager.wakes@[0] && final(self).eff@[0] > old(self).eff@[0],"
               "forall|i: int| 0 <= i < MAX_STREAMS ==> final(self).streams_manager.wakes@[i] >= old(self).streams_manager.wakes@[i]"),
    fn("send_with", props=["C01", "C16", "C04"],
       sig="pub fn send_with(&mut self, setter: Setter) -> (r: RetryResult<Setter>)", sig_anchor=r"fn send_with<F: FnOnce\(&mut ItemType\)>\(&self, setter: F\)",
       rules=COMMON + [SETTER_VALUE,
                       Rule("R15-retry-spin", r"\.retry_with\(\|item\| self\.send\(item\)\)\s*\.spinning_forever\(\)", ".retry_spinning_forever()", count=1,
                            note="keen-retry spinning retry -> shim that REQUIRES the first attempt to have been accepted")],
       requires="old(self).wf()",
       ensures="final(self).wf(),"
               "old(self).q@.len() < BUFFER_SIZE ==> r is Ok && final(self).q@ == old(self).q@.push(setter.value@),"
               "old(self).q@.len() >= BUFFER_SIZE ==> (r matches RetryResult::Transient { input, .. } && input == setter) && final(self).q == old(self).q && final(self).streams_manager == old(self).streams_manager,"
               "old(self).q@.len() == 0 ==> final(self).streams_manager.wakes@[0] > old(self).streams_manager.wakes@[0]"),
    fn("send_with_async", props=["C01", "C02", "C16", "C20"],
       sig="pub fn send_with_async(&mut self, setter: Setter) -> (r: RetryResult<Setter>)", sig_anchor=r"async fn send_with_async<F:",
       rules=COMMON + [SETTER_VALUE,
                       Rule("R15-retry-async", r"self\.send\(item\)\s*\.retry_with_async\(\|item\| future::ready\(self\.send\(item\)\)\)\s*\.(\w+)\(([^;]*?)\)\s*\.await;",
                            lambda m: "{ let first__ = self.send(item); self.retry_async_" + (m.group(1) if m.group(1) in ("yielding_forever", "spinning_forever") else "may_give_up") + "(first__); }", min=0,
                            note="keen-retry async retry -> channel-level shim (yielding_forever: returns once accepted; spinning_forever: requires the first attempt accepted; any other executor may give up)")],
       requires="old(self).wf()",
       ensures="old(self).q@.len() >= BUFFER_SIZE ==> (r matches RetryResult::Transient { input, .. } && input == setter) && final(self).q == old(self).q && final(self).streams_manager == old(self).streams_manager,"
               "old(self).q@.len() < BUFFER_SIZE ==> r is Ok,"
               # an Ok answer means the event IS in the queue (C01 C02: accepted => delivered): a retry that may give up must not be answered Ok
               "r is Ok ==> final(self).q@.len() > 0 && final(self).q@.last() == setter.value@"),
    fn("consume", impl=IMPL_C, props=["C01", "C02"],
       sig="pub fn consume(&mut self, stream_id: u32) -> (r: Option<u64>)", sig_anchor=r"fn consume\(&self, stream_id: u32\) -> Option<ItemType>",
       rules=COMMON,
       requires="old(self).wf(), (stream_id as int) < MAX_STREAMS",
       ensures="old(self).q@.len() > 0 ==> r == Some(old(self).q@[0]) && final(self).q@ == old(self).q@.drop_first(),"
               "old(self).q@.len() == 0 ==> r is None && final(self).q == old(self).q"),
]
UNIT = Unit("uni_crossbeam", FNS, spec=SPEC,
            trusted=["q_len / q_is_full / q_try_send / q_try_recv: crossbeam_channel::bounded as a bounded FIFO whose both ends the channel owns (ASSUMED)",
                     "retry_spinning_forever / retry_yielding_forever: keen-retry's retry executors (spinning = busy loop on the calling thread; yielding = gives the executor thread back between attempts)"],
            assumptions=["S-model between suspension points; at the async setter's .await the queue is havocked (other producers / consumers ran)",
                         "the setter-based sends of this channel WAIT once their initial fullness test has passed and the queue fills up meanwhile (documented upstream, excluded from C16 by the statement)"])
