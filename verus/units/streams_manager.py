"""Unit streams_manager (V, S-model): the async flush / end loops and the cancel / wake fan-outs of StreamsManagerBase, for a SYMBOLIC
MAX_STREAMS (DESIGN §3.3, C06 C07). The non-async bookkeeping (create/drop/sync/register) is decided by back end K on the real unsafe code."""
from engine.extract import FnSpec, Rule, InlineCellAlias
from engine.verus_run import Unit, Lemma

F = "src/streams_manager.rs"
IMPL = r"impl\s*<\s*const\s+MAX_STREAMS\s*:\s*usize\s*>\s*StreamsManagerBase\s*<\s*MAX_STREAMS\s*>\s*(?=\{)"
CONTAINER = "impl<const MAX_STREAMS: usize> StreamsManagerBase<MAX_STREAMS>"

SPEC = r"""
/// ghost summary of what one manager did so far (monotone counters / sets, so contracts need no existential over a trace)
pub struct Log {
    /// number of cancel_stream() calls so far
    pub cancels: nat,
    /// per stream id: number of cancel_stream(id) calls
    pub cancelled: Seq<nat>,
    /// number of completed cancel_all_streams() calls
    pub cancel_alls: nat,
    /// the values `cancels` had whenever `pending_items_counter()` answered 0 ("all queues observed empty after that many cancels")
    pub empty_obs: Set<nat>,
    /// the last answer of `pending_items_counter()`
    pub last_pending: Option<u32>,
    /// per stream id: number of wake_stream(id) calls
    pub wakes: Seq<nat>,
    /// per stream id: the value keep_streams_running[id] had at the last wake_stream(id)
    pub last_wake_flag: Seq<bool>,
}

pub struct PendingCounter { pub dummy: u8 }

pub struct StreamsManagerBase<const MAX_STREAMS: usize> {
    pub used_streams: [u32; MAX_STREAMS],
    pub keep_streams_running: [bool; MAX_STREAMS],
    pub used_streams_count: AtomicU32,
    /// abstract view of `vacant_streams` (a FullSyncMove<u32, MAX_STREAMS>, verified by back end K)
    pub vacant: Ghost<Seq<u32>>,
    pub log: Ghost<Log>,
}

impl<const MAX_STREAMS: usize> StreamsManagerBase<MAX_STREAMS> {
    /// the part of Inv_SM (DESIGN §3.3) these functions rely on: entries of the live list are valid ids or the sentinel
    pub open spec fn wf(&self) -> bool {
        &&& MAX_STREAMS <= 0x7fff_ffff
        &&& forall|i: int| 0 <= i < MAX_STREAMS ==> ((#[trigger] self.used_streams[i]) as int) < MAX_STREAMS || self.used_streams[i] == u32::MAX
        &&& self.log@.wakes.len() == MAX_STREAMS && self.log@.last_wake_flag.len() == MAX_STREAMS && self.log@.cancelled.len() == MAX_STREAMS
    }
    /// is index i inside the live list (no sentinel at or before it)
    pub open spec fn listed(&self, i: int) -> bool { 0 <= i < MAX_STREAMS && forall|j: int| 0 <= j <= i ==> self.used_streams[j] != u32::MAX }
    /// everything but the log and the flags is unchanged
    pub open spec fn same_lists(&self, o: &Self) -> bool {
        self.used_streams == o.used_streams && self.used_streams_count == o.used_streams_count && self.vacant == o.vacant
    }

    /// ASSUMED contract of wake_stream (its real body -- get_unchecked on `wakers`, wakers_lock -- is verified by back end K):
    /// requires the id in range (it is a get_unchecked); logs the wake together with the flag value at that instant
    #[verifier::external_body]
    pub fn wake_stream(&mut self, stream_id: u32)
        requires (stream_id as int) < MAX_STREAMS,
        ensures final(self).log@ == (Log { wakes: old(self).log@.wakes.update(stream_id as int, old(self).log@.wakes[stream_id as int] + 1),
                                           last_wake_flag: old(self).log@.last_wake_flag.update(stream_id as int, old(self).keep_streams_running[stream_id as int]),
                                           ..old(self).log@ }),
                final(self).same_lists(old(self)), final(self).keep_streams_running == old(self).keep_streams_running,
    { }

    /// the environment-controlled observation `pending_items_counter()` (R10)
    #[verifier::external_body]
    pub fn env_pending_items(&mut self, c: &PendingCounter) -> (n: u32)
        ensures final(self).log@ == (Log { last_pending: Some(n),
                                           empty_obs: if n == 0 { old(self).log@.empty_obs.insert(old(self).log@.cancels) } else { old(self).log@.empty_obs },
                                           ..old(self).log@ }),
                final(self).same_lists(old(self)), final(self).keep_streams_running == old(self).keep_streams_running,
    { unimplemented!() }

    /// `tokio::time::sleep(..).await` (R10/R11): everything the environment controls is havocked; the log is untouched
    #[verifier::external_body]
    pub fn env_sleep(&mut self)
        requires old(self).wf(),
        ensures final(self).log == old(self).log, final(self).wf(),
    { }

    /// the `is_vacant` closure of end_stream (iterator chain over vacant_streams.peek_remaining()): assumed to answer membership
    #[verifier::external_body]
    pub fn is_vacant(&self, stream_id: u32) -> (r: bool)
        ensures r == self.vacant@.contains(stream_id),
    { unimplemented!() }
}
"""

ALIAS = InlineCellAlias()
GET_UNCHECKED = Rule("R6-get_unchecked", r"\*\s*(self\.\w+)\.get_unchecked\(([^()]*)\)", r"\1[\2]", note="get_unchecked(i) -> [i]: the bound becomes an obligation")
UNSAFE_BLOCK = Rule("R6-unsafe-block", r"\bunsafe\s*\{", "{", note="unsafe block marker dropped")
AWAIT = lambda n: Rule("R10-await", r"\.await\b", "", count=n, note=".await dropped (de-asynced)")
SLEEP = lambda n: Rule("R11-sleep", r"tokio::time::sleep\(Duration::from_millis\(1\)\)\.await", "self.env_sleep()", count=n, note="sleep -> env_sleep()")
BREAKV = lambda n: Rule("R8-break-value", r"\bbreak\s+([\w]+)", r"return \1;", count=n, note="`break v` of the tail loop -> `return v`")
PENDING = lambda n: Rule("R10-closure", r"\bpending_items_counter\(\)", "self.env_pending_items(pending_items_counter)", count=n, note="environment closure call")
TIMEOUT_NE = lambda n: Rule("R11-timeout-ne", r"timeout\s*!=\s*Duration::ZERO", "!timeout.is_zero()", count=n)
ELAPSED = lambda n: Rule("R11-elapsed", r"start\.elapsed\(\)\s*>\s*timeout", "start.elapsed_exceeds(&timeout)", count=n)
FRAME = "final(self).used_streams == old(self).used_streams, final(self).used_streams_count == old(self).used_streams_count, final(self).vacant == old(self).vacant"


def fn(name, **kw):
    f = FnSpec(F, name, impl=IMPL, **kw)
    f.container = CONTAINER
    return f


FOR_LABEL = Rule("R12-for-label", r"\bfor\s+(\w+)\s+in\s+(?!it_)", r"for \1 in it_\1: ", min=0, note="ghost iterator label for loop invariants")
INV_FRAME = ("self.used_streams == old(self).used_streams, self.used_streams_count == old(self).used_streams_count, self.vacant == old(self).vacant")


def fn(name, **kw):
    f = FnSpec(F, name, impl=IMPL, **kw)
    f.container = CONTAINER
    return f


def push(ev):
    return "\n        proof { self.trace@ = self.trace@.push(" + ev + "); }\n"


FNS = [
    fn("keep_stream_running", props=["C07", "C06"], kind="helper",
       sig="pub fn keep_stream_running(&self, stream_id: u32) -> (r: bool)", sig_anchor=r"pub fn keep_stream_running\(&self, stream_id: u32\) -> bool",
       rules=[Rule("R6-alias-ref", r"let keep_streams_running = &\s*\*\s*self\.keep_streams_running\.get\(\);", "", count=1),
              Rule("R6-get_unchecked", r"\*\s*keep_streams_running\.get_unchecked\(stream_id as usize\)", "self.keep_streams_running[stream_id as usize]", count=1),
              UNSAFE_BLOCK],
       requires="(stream_id as int) < MAX_STREAMS", ensures="r == self.keep_streams_running[stream_id as int]"),
    fn("is_any_stream_running", props=["C06", "C07"],
       sig="pub fn is_any_stream_running(&self) -> (r: bool)", sig_anchor=r"pub fn is_any_stream_running\(&self\) -> bool",
       requires="self.wf()",
       ensures="r == exists|i: int| 0 <= i < MAX_STREAMS && self.keep_streams_running[i]",
       loops={0: "invariant self.wf(), it_stream_id.iter.end == MAX_STREAMS as u32, forall|i: int| 0 <= i < it_stream_id.iter.start ==> !self.keep_streams_running[i],\n"
                 "ensures forall|i: int| 0 <= i < MAX_STREAMS ==> !self.keep_streams_running[i],"}),
    fn("wake_all_streams", props=["C06", "C04"],
       sig="pub fn wake_all_streams(&mut self)", sig_anchor=r"pub fn wake_all_streams\(&self\)",
       requires="old(self).wf()",
       ensures="final(self).wf(), forall|id: int| 0 <= id < MAX_STREAMS ==> final(self).log@.wakes[id] > old(self).log@.wakes[id],"
               "final(self).log@.cancels == old(self).log@.cancels, final(self).log@.cancelled == old(self).log@.cancelled, final(self).log@.cancel_alls == old(self).log@.cancel_alls,"
               "final(self).log@.empty_obs == old(self).log@.empty_obs, final(self).log@.last_pending == old(self).log@.last_pending,"
               "final(self).keep_streams_running == old(self).keep_streams_running, final(self).same_lists(old(self))",
       loops={0: "invariant old(self).wf(), self.wf(), it_stream_id.iter.end == MAX_STREAMS as u32, self.keep_streams_running == old(self).keep_streams_running, self.same_lists(old(self)),"
                 " self.log@.cancels == old(self).log@.cancels, self.log@.cancelled == old(self).log@.cancelled, self.log@.cancel_alls == old(self).log@.cancel_alls,"
                 " self.log@.empty_obs == old(self).log@.empty_obs, self.log@.last_pending == old(self).log@.last_pending,"
                 " forall|id: int| 0 <= id < MAX_STREAMS ==> self.log@.wakes[id] >= old(self).log@.wakes[id],"
                 " forall|id: int| 0 <= id < it_stream_id.iter.start ==> self.log@.wakes[id] > old(self).log@.wakes[id],\n"
                 "ensures forall|id: int| 0 <= id < MAX_STREAMS ==> self.log@.wakes[id] > old(self).log@.wakes[id],"}),
    # C07 mechanism: the flag is cleared BEFORE the wake (so a stream woken by this call cannot read a stale `true`), exactly one stream targeted
    fn("cancel_stream", props=["C07", "C06"],
       sig="pub fn cancel_stream(&mut self, stream_id: u32)", sig_anchor=r"pub fn cancel_stream\(&self, stream_id: u32\)",
       rules=[ALIAS],
       pre_body="\n        proof { self.log@ = Log { cancels: self.log@.cancels + 1, cancelled: self.log@.cancelled.update(stream_id as int, self.log@.cancelled[stream_id as int] + 1), ..self.log@ }; }\n",
       requires="old(self).wf(), (stream_id as int) < MAX_STREAMS",
       ensures="final(self).wf(), forall|j: int| 0 <= j < MAX_STREAMS ==> final(self).keep_streams_running[j] == (if j == stream_id { false } else { old(self).keep_streams_running[j] }),"
               "final(self).log@ == (Log { cancels: old(self).log@.cancels + 1,"
               "    cancelled: old(self).log@.cancelled.update(stream_id as int, old(self).log@.cancelled[stream_id as int] + 1),"
               "    wakes: old(self).log@.wakes.update(stream_id as int, old(self).log@.wakes[stream_id as int] + 1),"
               "    last_wake_flag: old(self).log@.last_wake_flag.update(stream_id as int, false), ..old(self).log@ }),"
               "final(self).same_lists(old(self))"),
    fn("cancel_all_streams", props=["C07", "C06"],
       sig="pub fn cancel_all_streams(&mut self)", sig_anchor=r"pub fn cancel_all_streams\(&self\)",
       rules=[ALIAS, Rule("R16-iter-index", r"for stream_id in it_stream_id: self\.used_streams\.iter\(\)\s*\{",
                          "let mut vi: usize = 0; while vi < MAX_STREAMS { let stream_id = &self.used_streams[vi]; vi += 1;", count=1,
                          note="`for x in array.iter()` -> indexed while (Verus cannot borrow self.used_streams across the &mut self call); same iteration order, same break")],
       tail="\n        proof { self.log@ = Log { cancel_alls: self.log@.cancel_alls + 1, ..self.log@ }; }\n",
       requires="old(self).wf()",
       ensures="final(self).wf(), forall|i: int| old(self).listed(i) ==> !final(self).keep_streams_running[old(self).used_streams[i] as int],"
               "forall|id: int| 0 <= id < MAX_STREAMS && final(self).log@.cancelled[id] == old(self).log@.cancelled[id] ==> final(self).keep_streams_running[id] == old(self).keep_streams_running[id],"
               "forall|i: int| old(self).listed(i) ==> final(self).log@.wakes[old(self).used_streams[i] as int] > old(self).log@.wakes[old(self).used_streams[i] as int]"
               " && final(self).log@.cancelled[old(self).used_streams[i] as int] > old(self).log@.cancelled[old(self).used_streams[i] as int]"
               " && !final(self).log@.last_wake_flag[old(self).used_streams[i] as int],"
               "final(self).log@.cancels >= old(self).log@.cancels, final(self).log@.cancel_alls == old(self).log@.cancel_alls + 1,"
               "final(self).log@.empty_obs == old(self).log@.empty_obs, final(self).same_lists(old(self))",
       loops={0: "invariant_except_break old(self).wf(), self.wf(), vi <= MAX_STREAMS, self.same_lists(old(self)), self.log@.cancels >= old(self).log@.cancels, self.log@.cancel_alls == old(self).log@.cancel_alls,"
                 " self.log@.empty_obs == old(self).log@.empty_obs,"
                 " forall|j: int| 0 <= j < vi ==> self.used_streams[j] != u32::MAX,"
                 " forall|id: int| 0 <= id < MAX_STREAMS ==> self.log@.wakes[id] >= old(self).log@.wakes[id] && self.log@.cancelled[id] >= old(self).log@.cancelled[id],"
                 " forall|i: int| 0 <= i < vi ==> !self.keep_streams_running[old(self).used_streams[i] as int]"
                 "   && self.log@.wakes[old(self).used_streams[i] as int] > old(self).log@.wakes[old(self).used_streams[i] as int]"
                 "   && self.log@.cancelled[old(self).used_streams[i] as int] > old(self).log@.cancelled[old(self).used_streams[i] as int]"
                 "   && !self.log@.last_wake_flag[old(self).used_streams[i] as int],"
                 " forall|id: int| 0 <= id < MAX_STREAMS && self.log@.cancelled[id] == old(self).log@.cancelled[id] ==> self.keep_streams_running[id] == old(self).keep_streams_running[id],\n"
                 "ensures old(self).wf(), self.wf(), self.same_lists(old(self)), self.log@.cancels >= old(self).log@.cancels, self.log@.cancel_alls == old(self).log@.cancel_alls, self.log@.empty_obs == old(self).log@.empty_obs,"
                 " forall|i: int| old(self).listed(i) ==> !self.keep_streams_running[old(self).used_streams[i] as int]"
                 "   && self.log@.wakes[old(self).used_streams[i] as int] > old(self).log@.wakes[old(self).used_streams[i] as int]"
                 "   && self.log@.cancelled[old(self).used_streams[i] as int] > old(self).log@.cancelled[old(self).used_streams[i] as int]"
                 "   && !self.log@.last_wake_flag[old(self).used_streams[i] as int],"
                 " forall|id: int| 0 <= id < MAX_STREAMS && self.log@.cancelled[id] == old(self).log@.cancelled[id] ==> self.keep_streams_running[id] == old(self).keep_streams_running[id],\n"
                 "decreases MAX_STREAMS - vi,"}),
    fn("running_streams_count", props=["C06", "C10"], kind="helper",
       sig="pub fn running_streams_count(&self) -> (r: u32)", sig_anchor=r"pub fn running_streams_count\(&self\) -> u32",
       ensures="r == self.used_streams_count@"),
    # C06: flush answers 0 only from an observation "nothing pending"; with an unbounded timeout it can only answer 0; it cancels nobody
    fn("flush", props=["C06"],
       attrs="#[verifier::exec_allows_no_decreases_clause]",
       sig="pub fn flush(&mut self, timeout: Duration, pending_items_counter: &PendingCounter) -> (r: u32)",
       sig_anchor=r"pub async fn flush\(&self, timeout: Duration, pending_items_counter: impl Fn\(\) -> u32\) -> u32",
       rules=[PENDING(1), SLEEP(1), BREAKV(2), TIMEOUT_NE(1), ELAPSED(1)],
       requires="old(self).wf()",
       ensures="final(self).wf(),"
               "final(self).log@.cancels == old(self).log@.cancels, final(self).log@.cancelled == old(self).log@.cancelled, final(self).log@.cancel_alls == old(self).log@.cancel_alls,"
               "old(self).log@.empty_obs.subset_of(final(self).log@.empty_obs),"
               "forall|id: int| 0 <= id < MAX_STREAMS ==> final(self).log@.wakes[id] >= old(self).log@.wakes[id],"
               "r == 0 ==> final(self).log@.last_pending == Some(0u32) && final(self).log@.empty_obs.contains(old(self).log@.cancels),"
               "timeout.is_zero() ==> r == 0",
       loops={0: "invariant old(self).wf(), self.wf(), self.log@.cancels == old(self).log@.cancels, self.log@.cancelled == old(self).log@.cancelled, self.log@.cancel_alls == old(self).log@.cancel_alls,"
                 " old(self).log@.empty_obs.subset_of(self.log@.empty_obs), forall|id: int| 0 <= id < MAX_STREAMS ==> self.log@.wakes[id] >= old(self).log@.wakes[id],"}),
    # C06/C07: end_stream cancels its one target only after the flush, and answers true only if the id was seen vacant (stream dropped)
    fn("end_stream", props=["C06", "C07", "C10"],
       attrs="#[verifier::exec_allows_no_decreases_clause]",
       sig="pub fn end_stream(&mut self, stream_id: u32, timeout: Duration, pending_items_counter: &PendingCounter) -> (r: bool)",
       sig_anchor=r"pub async fn end_stream\(&self, stream_id: u32, timeout: Duration, pending_items_counter: impl Fn\(\) -> u32\) -> bool",
       rules=[Rule("R15-is_vacant-closure", r"let is_vacant = \|\| unsafe \{ self\.vacant_streams\.peek_remaining\(\)\.iter\(\) \}\s*\.flat_map\(\|&slice\| slice\)\s*\.any\(\|vacant_stream_id\| \*vacant_stream_id == stream_id\);", "", count=1,
                   note="closure over vacant_streams replaced by the shim is_vacant(stream_id) (assumed: membership in the vacant list)"),
              Rule("R15-is_vacant-call", r"\bis_vacant\(\)", "self.is_vacant(stream_id)", count=1),
              SLEEP(1), AWAIT(1), BREAKV(2), TIMEOUT_NE(1), ELAPSED(1)],
       requires="old(self).wf(), (stream_id as int) < MAX_STREAMS",
       ensures="final(self).wf(), r ==> final(self).vacant@.contains(stream_id),"
               "timeout.is_zero() ==> r && final(self).log@.empty_obs.contains(old(self).log@.cancels),"
               "final(self).log@.cancels == old(self).log@.cancels + 1, final(self).log@.cancel_alls == old(self).log@.cancel_alls,"
               "final(self).log@.cancelled == old(self).log@.cancelled.update(stream_id as int, old(self).log@.cancelled[stream_id as int] + 1),"
               "final(self).log@.wakes[stream_id as int] > old(self).log@.wakes[stream_id as int]",
       loops={0: "invariant old(self).wf(), self.wf(), (stream_id as int) < MAX_STREAMS,"
                 " timeout.is_zero() ==> self.log@.empty_obs.contains(old(self).log@.cancels),"
                 " self.log@.cancels == old(self).log@.cancels + 1, self.log@.cancel_alls == old(self).log@.cancel_alls,"
                 " self.log@.cancelled == old(self).log@.cancelled.update(stream_id as int, old(self).log@.cancelled[stream_id as int] + 1),"
                 " self.log@.wakes[stream_id as int] > old(self).log@.wakes[stream_id as int],"}),
    # C06: end_all_streams never cancels before a flush returned; with an unbounded timeout it returns only after an all-empty observation
    # that preceded every cancel, after cancelling the whole live list, and after observing a running-stream count of 0
    fn("end_all_streams", props=["C06"],
       attrs="#[verifier::exec_allows_no_decreases_clause]",
       sig="pub fn end_all_streams(&mut self, timeout: Duration, pending_items_counter: &PendingCounter) -> (r: u32)",
       sig_anchor=r"pub async fn end_all_streams\(&self, timeout: Duration, pending_items_counter: impl Fn\(\) -> u32\) -> u32",
       rules=[Rule("R10-closure-ref", r"&pending_items_counter\b", "pending_items_counter", count=2), SLEEP(1), AWAIT(2), TIMEOUT_NE(1), ELAPSED(1)],
       requires="old(self).wf()",
       ensures="final(self).wf(), r == final(self).used_streams_count@,"
               "timeout.is_zero() ==> r == 0,"
               "timeout.is_zero() ==> final(self).log@.empty_obs.contains(old(self).log@.cancels),"
               "final(self).log@.cancel_alls > old(self).log@.cancel_alls",
       loops={0: "invariant_except_break self.wf(), timeout.is_zero() ==> self.log@.empty_obs.contains(old(self).log@.cancels), self.log@.cancel_alls > old(self).log@.cancel_alls,\n"
                 "ensures self.wf(), timeout.is_zero() ==> self.log@.empty_obs.contains(old(self).log@.cancels) && self.used_streams_count@ == 0, self.log@.cancel_alls > old(self).log@.cancel_alls,"}),
]

UNIT = Unit("streams_manager", FNS, spec=SPEC, global_rules=[FOR_LABEL],
            trusted=["wake_stream / is_vacant / env_pending_items / env_sleep: external_body shims with the contracts printed in the unit's spec text"],
            assumptions=["de-asynced (R10): every .await is a point where the environment may change every field except the ghost log",
                         "wall-clock comparisons are nondeterministic (R11)"])
