import sys; sys.path.insert(0,'/verif')
from engine import verus_run as vr
from engine.common import Undecided
name=sys.argv[1]
u=[x for x in vr.load_units() if x.name==name][0]
try:
    r=vr.run_unit(u)
except Undecided as e:
    print("UNDECIDED", e); sys.exit(2)
print("undecided:", r['undecided'])
for e in r['errors']:
    print("ERR", e['fn'], e['line'], e['detail'][:600])
print("ok fns:", [k for k,v in r.get('fb',{}).items() if v.get('success')])
print("wall", r['wall'], "smt ms", r['smt_ms'])
