#!/usr/bin/env python3
"""Runs the registered check of each seeded change's own property against a scratch copy of /repo with the change applied
(bin/seed_check.sh) and records the outcome in seeded/<id>/meta.json (`detected_by`, `detection_run`).

usage: seed_matrix.py [-j N] [--tier quick|thorough] [--only-missing] [--extra "C02 C15"] [seed ids ...]
Nothing here is a registered check; it is the development aid behind DESIGN §9.6."""
import json, os, re, subprocess, sys, time
from concurrent.futures import ThreadPoolExecutor

ROOT = os.path.dirname(os.path.dirname(os.path.abspath(__file__)))
SEEDED = os.path.join(ROOT, "seeded")


ONLY = None


def run_one(sid, tier, extra):
    d = os.path.join(SEEDED, sid)
    meta = json.load(open(os.path.join(d, "meta.json")))
    props = [meta["property"]] + [p for p in extra if p != meta["property"]]
    t0 = time.time()
    env = dict(os.environ)
    if ONLY:
        env["VERIF_ONLY"] = ONLY
    p = subprocess.run([os.path.join(ROOT, "bin", "seed_check.sh"), os.path.join(d, "patch.diff"), tier] + props,
                       capture_output=True, text=True, env=env)
    out = p.stdout + p.stderr
    open(os.path.join("/tmp", f"seed_detect_{sid}_{tier}.log"), "w").write(out)
    detection = []
    for line in out.splitlines():
        m = re.match(r"== (C\d+) \[(\w+)\] (\d+)s: (.*)$", line.strip())
        if m:
            viol = re.findall(r"failed obligation: (\S+)", m.group(4))
            und = "UNDECIDED" in m.group(4)
            res = "VIOLATION" if "VIOLATION" in m.group(4) else ("undecided" if und else "not detected")
            detection.append({"check": m.group(1), "tier": m.group(2), "result": res, "seconds": int(m.group(3)), "backends": ONLY or "kani+verus",
                              "failed_obligations": sorted(set(viol))[:8],
                              "undecided": re.findall(r"UNDECIDED[^|]*", m.group(4))[:3] if und else []})
    return sid, detection, time.time() - t0, out


def main():
    a = sys.argv[1:]
    jobs, tier, only_missing, extra, ids = 2, "quick", False, [], []
    i = 0
    while i < len(a):
        if a[i] == "-j": jobs = int(a[i + 1]); i += 2
        elif a[i] == "--tier": tier = a[i + 1]; i += 2
        elif a[i] == "--only-missing": only_missing = True; i += 1
        elif a[i] == "--only": globals()["ONLY"] = a[i + 1]; i += 2
        elif a[i] == "--extra": extra = a[i + 1].split(); i += 2
        else: ids.append(a[i]); i += 1
    if not ids:
        ids = sorted(x for x in os.listdir(SEEDED) if os.path.exists(os.path.join(SEEDED, x, "meta.json")))
    if only_missing:
        keep = []
        for sid in ids:
            meta = json.load(open(os.path.join(SEEDED, sid, "meta.json")))
            if not any(x.get("result") == "VIOLATION" for x in meta.get("detected_by", [])):
                keep.append(sid)
        ids = keep
    print("seeds:", " ".join(ids), flush=True)
    with ThreadPoolExecutor(max_workers=jobs) as ex:
        for sid, det, wall, out in ex.map(lambda s: run_one(s, tier, extra), ids):
            f = os.path.join(SEEDED, sid, "meta.json")
            meta = json.load(open(f))
            old = [x for x in meta.get("detected_by", []) if (x.get("tier", "?"), x.get("backends")) != (tier, ONLY or "kani+verus") and x.get("result") == "VIOLATION"]
            meta["detected_by"] = old + det
            json.dump(meta, open(f, "w"), indent=1)
            print(f"{sid} {wall:.0f}s ::", " | ".join(f"{x['check']}[{x['tier']}]={x['result']} {','.join(x['failed_obligations'])} {' '.join(x['undecided'])[:200]}" for x in det) or out[-300:], flush=True)


if __name__ == "__main__":
    main()
