#!/bin/bash
# usage: runfiles.sh file1 file2 ...
cd /verif
for f in "$@"; do
  echo "=== $f $(date +%T)"
  python3 bin/vcheck --dev-kani $f 2>&1 | grep -v "^WARNING"
done
