#!/bin/bash
# usage: seed_confirm.sh <seed_out_dir> <n> <logfile>
# confirms a seeded change in a scratch worktree of /repo: demo passes without the change, fails with it, and the pinned suite still passes with it
set -u
D=$1; N=$2; LOG=$3
WT=/tmp/wt_confirm_$$
git -C /repo worktree add -q --detach $WT HEAD || exit 9
cp -r /repo/target $WT/target 2>/dev/null
cd $WT
export CARGO_NET_OFFLINE=true
demo_dst=tests/seeded_demo_$N.rs
how=$(cat $D/demo$N.how 2>/dev/null | tr '\n' ' ')
# demos that are unit tests inside src are given as a diff (demoN.diff); integration tests as demoN.rs
RUN="cargo test --offline --test seeded_demo_$N"
if [ -f $D/demo$N.rs ]; then cp $D/demo$N.rs $demo_dst; fi
if [ -f $D/demo$N.diff ]; then git apply $D/demo$N.diff || echo "DEMO DIFF APPLY FAILED"; RUN="cargo test --offline --lib seeded_demo_$N"; fi
if grep -q -- "--release" $D/demo$N.how 2>/dev/null; then RUN="$RUN --release"; fi
{
echo "### seed $D change$N ; how: $how"
echo "--- demo on the unmodified tree (must PASS)"
$RUN 2>&1 | grep -E "^test result|^test .* (ok|FAILED)|error(\[|:)" | head -20
r0=${PIPESTATUS[0]}
echo "rc_demo_clean=$r0"
git apply $D/change$N.diff || echo "APPLY FAILED"
echo "--- demo with the change (must FAIL)"
$RUN 2>&1 | grep -E "^test result|^test .* (ok|FAILED)|error(\[|:)" | head -20
r1=${PIPESTATUS[0]}
echo "rc_demo_changed=$r1"
echo "--- pinned suite with the change (must match the baseline: only the 2 known failures)"
rm -f $demo_dst; if [ -f $D/demo$N.diff ]; then git apply -R $D/demo$N.diff; fi
cargo test --workspace --no-fail-fast --offline 2>&1 | grep -E "^test result|FAILED|failed" | head -20
echo "rc_suite=${PIPESTATUS[0]}"
} > $LOG 2>&1
cd /
git -C /repo worktree remove --force $WT
echo "done $D $N: $(grep -E 'rc_demo_clean|rc_demo_changed' $LOG | tr '\n' ' ')"
