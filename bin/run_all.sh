#!/bin/bash
# usage: run_all.sh [quick|thorough] [ids...]   -- runs every registered check on /repo's working tree, prints one line per check
TIER=${1:-quick}; shift
cd /verif
IDS="$@"; [ -z "$IDS" ] && IDS=$(python3 -c "import json;print(' '.join(c['property_id'] for c in json.load(open('MANIFEST.json'))['checks']))")
for id in $IDS; do
  t0=$(date +%s)
  out=$(bin/vcheck $id --tier $TIER 2>&1; echo "__rc=$?")
  rc=$(echo "$out" | sed -n 's/^__rc=//p')
  out=$(echo "$out" | grep -v -E "^WARNING|^__rc=")
  echo "$id rc=$rc $(( $(date +%s) - t0 ))s :: $(echo "$out" | grep -E "^(VIOLATION|UNDECIDED|KNOWN-FINDING)" | cut -c1-160 | tr '\n' '|') $(echo "$out" | tail -1)"
done
