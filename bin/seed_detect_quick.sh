#!/bin/bash
# runs the registered QUICK check of each seed's own property against the seed (scratch copy)
# usage: seed_detect_quick.sh [dirs...]   env: EXTRA="C02 C15" extra properties to try, FORCE=1 redo, TIER=thorough
for d in ${@:-/tmp/seed_out/C*/}; do
  d=${d%/}; p=$(basename $d)
  for n in 1 2 3 4; do
    f=$d/change$n.diff
    [ -f $f ] || continue
    [ -f $d/detect$n.log ] && [ -z "${FORCE:-}" ] && continue
    /verif/bin/seed_check.sh $f ${TIER:-quick} $p ${EXTRA:-} > $d/detect$n.log 2>&1
    echo "### $p-$n $(date +%T) $(grep -c VIOLATION $d/detect$n.log) violation lines"; cut -c1-400 $d/detect$n.log
  done
done
