#!/bin/bash
# usage: dev_k.sh <kani file> [<substring filter>]  -- development aid: the Kani harnesses of one /verif/kani/<file>.rs against an UNCHANGED scratch copy of /repo
# (own target dir and lock, so it can run while a registered check holds /repo's Kani lock)
FILE=$1; FILTER=${2:-}
S=/tmp/scr_dev_$$; rsync -a --exclude target --exclude .git /repo/ $S/
tag=$(python3 -c "import hashlib,sys;print(hashlib.sha1(sys.argv[1].encode()).hexdigest()[:10])" $S)
[ -d /verif/.cache/kani-target-repo ] && cp -r /verif/.cache/kani-target-repo /verif/.cache/kani-target-scratch-$tag
VERIF_REPO=$S DEV_TIER=${DEV_TIER:-quick} python3 /verif/bin/vcheck --dev-kani $FILE $FILTER 2>&1 | grep -v "^WARNING" | grep -E "^(success|failed|tool_error|missing|unknown)|FAILED:|harnesses,|^error" | cut -c1-260
rm -rf $S /verif/.cache/kani-target-scratch-$tag /verif/.cache/kani-results-scratch-$tag.json /verif/.cache/kani-scratch-$tag.lock
