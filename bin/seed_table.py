#!/usr/bin/env python3
"""Prints the detection matrix (markdown) from seeded/*/meta.json: one row per seeded change -- what it changes, which registered check / named
obligation reports it. Written to seeded/MATRIX.md; DESIGN §9.6 quotes it."""
import json, os, re, sys

ROOT = os.path.dirname(os.path.dirname(os.path.abspath(__file__)))
SEEDED = os.path.join(ROOT, "seeded")


NOTES = {
    "C03-3": "rewrites the SHAPE of sync_vacant_and_used_streams (its sentinel loop becomes an `if`): the Verus proof hangs on three loop invariants -> undecided; the Kani harness of the real "
             "function (thorough tier, sort stubbed) runs at MAX_STREAMS 1 and 2 only (4: out of memory) and the change needs >= 3 streams",
    "C10-3": "replaces `peek_remaining().concat()` + `sort_unstable()` by an iterator chain (unsorted vacant ids): Verus undecided (lost anchor); reported by the THOROUGH tier: "
             "Kani streams_manager.sync_vacant_and_used_streams_real at MAX_STREAMS = 2",
}


def first_line(meta):
    t = meta.get("needs_to_manifest_and_author_notes", "")
    for l in t.splitlines():
        l = l.strip().lstrip("#").strip()
        if l:
            return re.sub(r"\s+", " ", l)[:150]
    return ""


def main():
    rows, n_det, n = [], 0, 0
    for sid in sorted(os.listdir(SEEDED), key=lambda x: (x.split("-")[0], int(x.split("-")[1])) if "-" in x and x.split("-")[1].isdigit() else (x, 0)):
        f = os.path.join(SEEDED, sid, "meta.json")
        if not os.path.exists(f):
            continue
        m = json.load(open(f))
        det = m.get("detected_by", [])
        hits = [d for d in det if d.get("result") == "VIOLATION"]
        und = [d for d in det if d.get("result") == "undecided"]
        n += 1
        if hits:
            n_det += 1
            obls = []
            for d in hits:
                for o in d.get("failed_obligations", []):
                    if o not in obls:
                        obls.append(o)
            tiers = sorted({d.get("tier", "quick") for d in hits})
            res = "**VIOLATION** (" + "/".join(tiers) + "): " + ", ".join("`" + o + "`" for o in obls[:4]) + (" ..." if len(obls) > 4 else "")
        elif und:
            res = "undecided (exit 2): " + "; ".join(u.get("undecided", [""])[0][:160] if u.get("undecided") else "" for u in und[:1])
        elif det:
            res = "not detected"
        else:
            res = "(not run)"
        rows.append(f"| {sid} | {', '.join(m.get('files_changed', []))[:80]} | {first_line(m)} | {res} |")
    out = ["| seed | file | change (author's words) | reported by |", "|---|---|---|---|"] + rows
    out.append("")
    out.append(f"{n_det} of {n} seeded changes are reported as a VIOLATION of their own property's registered check.")
    out.append("")
    out.append("Seeds that are NOT reported as a violation, and why (exit 2 = undecided is never an alarm, but it is not a detection either):")
    for sid, why in sorted(NOTES.items()):
        out.append(f"* {sid}: {why}")
    text = "\n".join(out) + "\n"
    open(os.path.join(SEEDED, "MATRIX.md"), "w").write(text)
    print(text)


if __name__ == "__main__":
    main()
