#!/usr/bin/env python3
"""Packs the seeded changes produced by the independent sub-agents (under /tmp/seed_out/<prop>/) into /verif/seeded/<prop>-<n>/:
patch.diff, the demonstration, meta.json (property, what it needs to manifest, what was run to confirm it, which check caught it)."""
import json, os, re, shutil, sys

SRC = os.environ.get("SEED_SRC", "/tmp/seed_out")
DST = os.path.join(os.path.dirname(os.path.dirname(os.path.abspath(__file__))), "seeded")


def section(notes, n):
    """the part of notes.md that talks about change n (best effort)"""
    parts = re.split(r"(?m)^#+ .*$", notes)
    heads = re.findall(r"(?m)^#+ .*$", notes)
    for h, p in zip(heads, parts[1:]):
        if re.search(rf"\b(change|Change)\s*{n}\b", h):
            return (h + p).strip()[:3000]
    return notes[:2000]


def main():
    os.makedirs(DST, exist_ok=True)
    index = []
    for prop in sorted(os.listdir(SRC)):
        d = os.path.join(SRC, prop)
        if not os.path.isdir(d) or not re.fullmatch(r"C\d+", prop):
            continue
        for n in range(1, 10):
            patch = os.path.join(d, f"change{n}.diff")
            if not os.path.exists(patch):
                continue
            conf = os.path.join(d, f"confirm{n}.log")
            det = os.path.join(d, f"detect{n}.log")
            if not os.path.exists(conf):
                continue
            ctext = open(conf).read()
            clean = re.search(r"rc_demo_clean=(\d+)", ctext)
            changed = re.search(r"rc_demo_changed=(\d+)", ctext)
            suite = re.findall(r"^test result: .*$", ctext.split("--- pinned suite")[-1], re.M)
            ok = clean and changed and clean.group(1) == "0" and changed.group(1) != "0"
            if not ok:
                print(f"skip {prop}-{n}: not confirmed (clean={clean and clean.group(1)}, changed={changed and changed.group(1)})")
                continue
            out = os.path.join(DST, f"{prop}-{n}")
            os.makedirs(out, exist_ok=True)
            shutil.copy(patch, os.path.join(out, "patch.diff"))
            demo = None
            for cand in (f"demo{n}.rs", f"demo{n}.diff"):
                if os.path.exists(os.path.join(d, cand)):
                    demo = cand; shutil.copy(os.path.join(d, cand), os.path.join(out, "demo" + os.path.splitext(cand)[1])); break
            how = ""
            for cand in (f"demo{n}.how",):
                if os.path.exists(os.path.join(d, cand)):
                    how = open(os.path.join(d, cand)).read().strip(); break
            notes = open(os.path.join(d, f"notes{n}.md")).read() if os.path.exists(os.path.join(d, f"notes{n}.md")) else ""
            detection = []
            if os.path.exists(det):
                for line in open(det):
                    m = re.match(r"== (C\d+)(?: \[\w+\] \d+s)?: (.*)$", line.strip())
                    if m:
                        viol = re.findall(r"failed obligation: (\S+)", m.group(2))
                        und = "UNDECIDED" in m.group(2)
                        detection.append({"check": m.group(1), "result": "VIOLATION" if "VIOLATION" in m.group(2) else ("undecided" if und else "not detected"),
                                          "failed_obligations": sorted(set(viol))[:8]})
            meta = {"property": prop, "breaks": f"{prop} (see /verif/properties.jsonl)", "files_changed": sorted(set(re.findall(r"^\+\+\+ b/(\S+)", open(patch).read(), re.M))),
                    "needs_to_manifest_and_author_notes": notes[:3000],
                    "demonstration": {"file": demo, "how": how.replace(f"/tmp/wt_{prop}", "<scratch worktree of /repo>")},
                    "confirmed_by_me": {"cmd": f"bin/seed_confirm.sh {d} {n}  (scratch worktree of /repo: demo on the clean tree, demo with the change, pinned suite with the change)",
                                        "demo_on_clean_tree_rc": int(clean.group(1)), "demo_with_change_rc": int(changed.group(1)), "suite_with_change": suite[:6]},
                    "detected_by": detection,
                    "detection_cmd": f"bin/seed_check.sh seeded/{prop}-{n}/patch.diff quick {prop}   (scratch copy of /repo with the patch applied, VERIF_REPO=<copy> bin/vcheck {prop})",
                    "origin": "written by an independent sub-agent that saw only the property text and its own scratch worktree"}
            mf = os.path.join(out, "meta.json")
            if os.path.exists(mf) and not detection:      # keep what bin/seed_matrix.py recorded
                try:
                    meta["detected_by"] = json.load(open(mf)).get("detected_by", [])
                except Exception:
                    pass
            json.dump(meta, open(mf, "w"), indent=1)
            index.append((f"{prop}-{n}", [x["result"] for x in detection]))
    for k, v in index:
        print(k, v)


if __name__ == "__main__":
    main()
