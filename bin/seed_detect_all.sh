#!/bin/bash
# runs the registered quick check of each seed's own property against the seed (scratch copy), logs to /tmp/seed_out/<prop>/detect<n>.log
for d in ${SEEDS:-/tmp/seed_out/C*}; do
  p=$(basename $d)
  for n in 1 2 3; do
    f=$d/change$n.diff; [ $n = 3 ] && f=$d/extra_change3.diff
    [ -f $f ] || continue
    [ -f $d/detect$n.log ] && [ -z "${FORCE:-}" ] && continue
    echo "### $p-$n $(date +%T)"
    /verif/bin/seed_check.sh $f quick $p $EXTRA > $d/detect$n.log 2>&1
    cat $d/detect$n.log | cut -c1-300
  done
done
