#!/bin/bash
# runs the registered check of each seed's own property against the seed (scratch copy); quick first, thorough if quick misses it
# usage: seed_detect_all.sh [dirs...]   env: EXTRA="C02 C15" extra properties to try, FORCE=1 redo
for d in ${@:-/tmp/seed_out/C*/}; do
  d=${d%/}; p=$(basename $d)
  for n in 1 2 3; do
    f=$d/change$n.diff
    [ -f $f ] || continue
    [ -f $d/detect$n.log ] && [ -z "${FORCE:-}" ] && continue
    /verif/bin/seed_check.sh $f quick $p ${EXTRA:-} > $d/detect$n.log 2>&1
    if ! grep -q "VIOLATION" $d/detect$n.log; then /verif/bin/seed_check.sh $f thorough $p >> $d/detect$n.log 2>&1; fi
    echo "### $p-$n $(date +%T) $(grep -c VIOLATION $d/detect$n.log) violation lines"; cut -c1-400 $d/detect$n.log
  done
done
