#!/usr/bin/env python3
"""Targeted Kani stage of the detection matrix: runs the harnesses of ONE /verif/kani/<file>.rs (optionally filtered) that are registered for the seed's
own property against a scratch copy of /repo with the seeded change applied (bin/seed_k.sh), and records failed harnesses in seeded/<id>/meta.json as what the
registered check would report (`<prop>.K.<file>.<harness>`). Saves running the property's whole Kani tier when the Verus stage already says which file matters.

usage: seed_k_record.py <seed id> <kani file> [<filter>]"""
import json, os, re, subprocess, sys

ROOT = os.path.dirname(os.path.dirname(os.path.abspath(__file__)))
sys.path.insert(0, ROOT)
from engine import kani_run


def main():
    sid, kfile = sys.argv[1], sys.argv[2]
    flt = sys.argv[3] if len(sys.argv) > 3 else ""
    d = os.path.join(ROOT, "seeded", sid)
    meta = json.load(open(os.path.join(d, "meta.json")))
    prop = meta["property"]
    reg = {h.fn: h for h in kani_run.load_registry() if h.file == kfile and prop in h.props}
    env = dict(os.environ, DEV_TIER=os.environ.get("DEV_TIER", "quick"))
    p = subprocess.run([os.path.join(ROOT, "bin", "seed_k.sh"), os.path.join(d, "patch.diff"), kfile, flt], capture_output=True, text=True, env=env)
    out = p.stdout + p.stderr
    failed, ok, other = [], [], []
    for line in out.splitlines():
        m = re.match(r"(success|failed|tool_error|missing|unknown)\*?\s+[\d.]+s .* (?:\w+::)?(\w+)\s*$", line.strip())
        if not m:
            continue
        fn = m.group(2)
        if fn not in reg:
            continue
        (failed if m.group(1) == "failed" else ok if m.group(1) == "success" else other).append(fn)
    rec = {"check": prop, "tier": env["DEV_TIER"], "backends": f"kani (targeted: the harnesses of kani/{kfile}.rs registered for {prop}" + (f", filter '{flt}'" if flt else "") + ")",
           "result": "VIOLATION" if failed else ("undecided" if other or "error" in out else "not detected"),
           "failed_obligations": sorted({f"{prop}.K.{kfile}.{fn}" for fn in failed}), "undecided": sorted(set(other))}
    meta["detected_by"] = [x for x in meta.get("detected_by", []) if not str(x.get("backends", "")).startswith("kani")] + [rec]
    json.dump(meta, open(os.path.join(d, "meta.json"), "w"), indent=1)
    print(sid, rec["result"], rec["failed_obligations"], rec["undecided"], "" if failed or ok else out[-400:])


if __name__ == "__main__":
    main()
