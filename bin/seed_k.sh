#!/bin/bash
# usage: seed_k.sh <patch.diff> <kani file> [<substring filter>]  -- the Kani harnesses of one /verif/kani/<file>.rs against a scratch copy with the patch applied
PATCH=$1; FILE=$2; FILTER=${3:-}
S=/tmp/scr_k_$$; rsync -a --exclude target --exclude .git /repo/ $S/
( cd $S && patch -p1 -s < $PATCH ) || { echo "PATCH FAILED"; rm -rf $S; exit 9; }
tag=$(python3 -c "import hashlib,sys;print(hashlib.sha1(sys.argv[1].encode()).hexdigest()[:10])" $S)
[ -d /verif/.cache/kani-target-repo ] && cp -r /verif/.cache/kani-target-repo /verif/.cache/kani-target-scratch-$tag
VERIF_REPO=$S DEV_TIER=${DEV_TIER:-quick} python3 /verif/bin/vcheck --dev-kani $FILE $FILTER 2>&1 | grep -v "^WARNING" | grep -E "^(success|failed|tool_error|missing|unknown)|FAILED:|harnesses,|^error" | cut -c1-220
rm -rf $S /verif/.cache/kani-target-scratch-$tag /verif/.cache/kani-results-scratch-$tag.json /verif/.cache/kani-scratch-$tag.lock
