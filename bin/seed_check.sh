#!/bin/bash
# usage: seed_check.sh <patch.diff> <tier> <prop> [<prop>...]   -- runs the registered checks against a scratch copy of /repo with the patch applied
set -u
PATCH=$1; TIER=$2; shift 2
S=/tmp/scr_seed_$$
rsync -a --exclude target --exclude .git /repo/ $S/
( cd $S && patch -p1 -s < $PATCH ) || { echo "PATCH FAILED"; rm -rf $S; exit 9; }
tag=$(python3 -c "import hashlib,sys;print(hashlib.sha1(sys.argv[1].encode()).hexdigest()[:10])" $S)
# reuse the compiled dependencies of the /repo build (the crate itself is recompiled from the scratch sources)
[ "${VERIF_ONLY:-}" != verus ] && [ -d /verif/.cache/kani-target-repo ] && cp -r /verif/.cache/kani-target-repo /verif/.cache/kani-target-scratch-$tag
for P in "$@"; do
  t0=$(date +%s)
  out=$(VERIF_REPO=$S VERIF_NO_NATIVE_REPLAY=${VERIF_NO_NATIVE_REPLAY:-1} /verif/bin/vcheck $P --tier $TIER 2>&1 | grep -v "^WARNING")
  echo "== $P [$TIER] $(( $(date +%s) - t0 ))s: $(echo "$out" | grep -E "^(VIOLATION|UNDECIDED|KNOWN-FINDING|failed obligation|C[0-9]+ \[)" | cut -c1-260 | tr '\n' '|')"
done
rm -rf $S /verif/.cache/kani-target-scratch-$tag /verif/.cache/kani-playback-target-scratch-$tag /verif/.cache/verus/scratch-$tag /verif/.cache/kani-results-scratch-$tag.json /verif/.cache/kani-scratch-$tag.lock 2>/dev/null
