#!/bin/bash
# usage: seed_check.sh <patch.diff> <tier> <prop> [<prop>...]   -- runs the registered checks against a scratch copy of /repo with the patch applied
set -u
PATCH=$1; TIER=$2; shift 2
S=/tmp/scr_seed_$$
rsync -a --exclude target --exclude .git /repo/ $S/
( cd $S && patch -p1 -s < $PATCH ) || { echo "PATCH FAILED"; rm -rf $S; exit 9; }
for P in "$@"; do
  out=$(VERIF_REPO=$S /verif/bin/vcheck $P --tier $TIER 2>&1 | grep -v "^WARNING")
  rc=$?
  echo "== $P: $(echo "$out" | grep -E "^(VIOLATION|UNDECIDED|KNOWN-FINDING|failed obligation|C[0-9]+ \[)" | cut -c1-220 | tr '\n' '|')"
done
tag=$(python3 -c "import hashlib,sys;print(hashlib.sha1(sys.argv[1].encode()).hexdigest()[:10])" $S)
rm -rf $S /verif/.cache/kani-target-scratch-$tag /verif/.cache/verus/scratch-$tag /verif/.cache/kani-results-scratch-$tag.json /verif/.cache/kani-scratch-$tag.lock 2>/dev/null
