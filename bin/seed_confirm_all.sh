#!/bin/bash
# confirms every not-yet-confirmed seeded change under /tmp/seed_out/<prop>/ (sequentially)
for d in ${SEEDS:-/tmp/seed_out/C*/}; do
  d=${d%/}
  for n in 1 2 3; do
    [ -f $d/change$n.diff ] || continue
    [ -f $d/confirm$n.log ] && continue
    /verif/bin/seed_confirm.sh $d $n $d/confirm$n.log
  done
done
