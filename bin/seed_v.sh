#!/bin/bash
# usage: seed_v.sh <patch.diff> <unit> [<unit>...]  -- Verus units only, against a scratch copy with the patch applied (seconds)
PATCH=$1; shift
S=/tmp/scr_v_$$; rsync -a --exclude target --exclude .git /repo/ $S/
( cd $S && patch -p1 -s < $PATCH ) || { echo "PATCH FAILED"; rm -rf $S; exit 9; }
for u in "$@"; do echo "== $u"; VERIF_REPO=$S python3 /verif/bin/runv.py $u 2>&1 | grep -E "^(ERR|UNDEC|undecided)" | grep -v negative_control | cut -c1-400; done
tag=$(python3 -c "import hashlib,sys;print(hashlib.sha1(sys.argv[1].encode()).hexdigest()[:10])" $S)
rm -rf $S /verif/.cache/verus/scratch-$tag
