// Back end K harnesses for `ogre_sync::lock` / `unlock` (included from /repo/src/ogre_std/ogre_sync.rs).
// Sequential facts only (CBMC has no threads): a free flag is taken and left held, a release frees it, the pair can be repeated. That a HELD flag
// makes `lock` wait, and that `lock` returns only through its own successful compare-exchange, is the A-model Verus unit ogre_sync_a.
// @module ogre_std::ogre_sync
#[allow(unused_imports)] use super::*;

#[cfg(kani)]
pub(crate) mod proofs {
    use super::*;
    pub(crate) fn noop() {}

    // @props C18 C01 C02
    #[kani::proof] #[kani::unwind(2)] #[kani::stub(std::hint::spin_loop, noop)]
    fn lock_takes_a_free_flag_and_unlock_frees_it() {
        let flag = AtomicBool::new(false);
        lock(&flag);
        assert!(flag.load(Relaxed),                                          "lock: a free flag is held after lock() returns");
        unlock(&flag);
        assert!(!flag.load(Relaxed),                                         "unlock: the flag is free again");
        lock(&flag);
        assert!(flag.load(Relaxed),                                          "lock: can be taken again after a release");
        kani::cover!(true, "end of harness reachable (vacuity guard)");
    }
}
