// Back end K harnesses for the log topic `MMapMeta` and its two subscriber kinds (included from
// /repo/src/ogre_std/ogre_queues/log_topics/mmap_meta.rs, so the private fields are reachable).
//
// Kani cannot mmap a file. The harnesses therefore build the REAL `MMapMeta` struct field by field over a leaked heap block that is
// laid out exactly like the mapping (`MMapContents` header immediately followed by the slots); `File` / `MmapMut` are never used by the
// functions under verification (zeroed, never dropped). Everything else -- publish, the subscription constructors, both `consume`s, the
// `UnsafeCell` casts, `get_unchecked`, `slice::from_raw_parts_mut` -- is the real code.
// Inductive step: ANY published prefix length n <= CAP, ANY slot contents, ANY cursor position.
// @module ogre_std::ogre_queues::log_topics::mmap_meta
// @sizes log_proofs: cap2=quick cap4=quick cap8=thorough
#[allow(unused_imports)] use super::*;

/// the real `MMapMeta<u32>` over a fake mapping holding `content[0..n)` as published history (capacity CAP): one zeroed, 8-aligned heap
/// block that starts with the `MMapContents` header; the slots follow `first_buffer_element` contiguously, exactly as in the mapped file
#[allow(dead_code)]
pub(crate) fn fake_topic<const CAP: usize>(n: usize, content: [u32; CAP]) -> Arc<MMapMeta<'static, u32>> {
    let words: &'static mut [[u64; 8]; CAP] = Box::leak(Box::new([[0u64; 8]; CAP]));      // >= 64 bytes: header (32) + CAP slots of 4 bytes, with slack
    let contents: &'static mut MMapContents<u32> = unsafe { &mut *(words.as_mut_ptr() as *mut MMapContents<u32>) };
    contents.publisher_tail.store(n, Relaxed);
    contents.consumer_tail.store(n, Relaxed);
    contents.slice_length.store(CAP, Relaxed);
    let first = &mut contents.first_buffer_element as *mut u32;
    let buffer: &'static mut [u32] = unsafe { std::slice::from_raw_parts_mut(first, CAP) };
    let mut k = 0; while k < CAP { buffer[k] = content[k]; k += 1; }
    let contents: &'static mut MMapContents<u32> = unsafe { &mut *(first.cast::<u8>().sub(std::mem::offset_of!(MMapContents<u32>, first_buffer_element)) as *mut MMapContents<u32>) };
    let topic = Arc::new(MMapMeta { mmap_file_path: String::new(), mmap_file: unsafe { std::mem::zeroed() }, mmap_handle: unsafe { std::mem::zeroed() }, mmap_contents: contents, buffer });
    std::mem::forget(Arc::clone(&topic));       // the fake File / MmapMut must never be dropped
    topic
}
#[allow(dead_code)] pub(crate) fn tails<'a>(t: &MMapMeta<'a, u32>) -> (usize, usize) { (t.mmap_contents.publisher_tail.load(Relaxed), t.mmap_contents.consumer_tail.load(Relaxed)) }
#[allow(dead_code)] pub(crate) fn slot<'a>(t: &MMapMeta<'a, u32>, k: usize) -> u32 { t.buffer[k] }
#[allow(dead_code)] pub(crate) fn slot_addr<'a>(t: &MMapMeta<'a, u32>, k: usize) -> *const u32 { &t.buffer[k] as *const u32 }
#[allow(dead_code)] pub(crate) fn dyn_head<'a>(s: &MMapMetaDynamicSubscriber<'a, u32>) -> usize { s.head.load(Relaxed) }
#[allow(dead_code)] pub(crate) fn fix_state<'a>(s: &MMapMetaFixedSubscriber<'a, u32>) -> (usize, usize) { (s.head.load(Relaxed), s.fixed_tail) }
#[allow(dead_code)] pub(crate) fn set_dyn_head<'a>(s: &MMapMetaDynamicSubscriber<'a, u32>, h: usize) { s.head.store(h, Relaxed) }
#[allow(dead_code)] pub(crate) fn set_fix_head<'a>(s: &MMapMetaFixedSubscriber<'a, u32>, h: usize) { s.head.store(h, Relaxed) }
#[allow(dead_code)] pub(crate) fn sub_state<'a>(s: &MMapMetaSubscriber<'a, u32>) -> (bool, usize, usize) {
    match s { MMapMetaSubscriber::Dynamic(d) => (true, dyn_head(d), usize::MAX), MMapMetaSubscriber::Fixed(f) => (false, fix_state(f).0, fix_state(f).1) }
}

#[cfg(kani)]
pub(crate) mod proofs {
    use super::*;
    pub(crate) fn noop() {}

    // @group log_proofs
    macro_rules! log_proofs { ($($modname:ident: $cap:expr, $unw:expr;)*) => { $( mod $modname {
        use super::*;
        const CAP: usize = $cap;

        fn any_topic(room: bool) -> (Arc<MMapMeta<'static, u32>>, usize, [u32; CAP]) {
            let n: usize = kani::any(); kani::assume(n <= CAP && (!room || n < CAP));
            let content: [u32; CAP] = kani::any();
            (fake_topic::<CAP>(n, content), n, content)
        }

        // @props C09 C03
        #[kani::proof] #[kani::unwind($unw)] #[kani::stub(std::hint::spin_loop, noop)]
        fn publish_appends_one_entry_and_touches_nothing_else() {
            let (t, n, content) = any_topic(true);
            let x: u32 = kani::any();
            let movable: bool = kani::any();
            let (len, rejected) = if movable { let r = t.publish_movable(x); (r.0, r.1.is_some()) } else { let r = t.publish(|slot| *slot = x); (r.0, r.1.is_some()) };
            assert!(!rejected && len == NonZeroU32::new(n as u32 + 1),           "publish: always accepted, reports the new length");
            assert!(tails(&t) == (n + 1, n + 1),                                 "publish: exactly one more entry is visible, no reservation left behind");
            assert!(slot(&t, n) == x,                                            "publish: the new entry carries the payload");
            let k: usize = kani::any();
            if k < CAP && k != n { assert!(slot(&t, k) == content[k],            "publish: no other entry of the log is modified (history is immutable)"); }
            assert!(t.available_elements_count() == n + 1,                       "available_elements_count == |log|");
            kani::cover!(n == 0, "first entry"); kani::cover!(n + 1 == CAP, "last slot");
            kani::cover!(true, "end of harness reachable (vacuity guard)");
        }

        // @props C09 C10
        #[kani::proof] #[kani::unwind($unw)]
        fn subscriptions_start_where_the_statement_says() {
            let (t, n, _content) = any_topic(false);
            let newies = t.subscribe_to_new_events_only();
            assert!(dyn_head(&newies) == n,                                      "new-events-only: starts after everything published so far");
            let joined = t.subscribe_to_joined_old_and_new_events();
            assert!(dyn_head(&joined) == 0,                                      "old+new joined: starts at the first event ever");
            let (old, new) = t.subscribe_to_separated_old_and_new_events();
            assert!(fix_state(&old) == (0, n),                                   "old/new split: the old cursor covers exactly [0, t)");
            assert!(dyn_head(&new) == fix_state(&old).1,                         "old/new split: the new cursor starts exactly where the old one ends (one split point)");
            assert!(tails(&t) == (n, n),                                         "subscribing changes nothing in the log");
            kani::cover!(true, "end of harness reachable (vacuity guard)");
        }

        // @props C09 C03
        #[kani::proof] #[kani::unwind($unw)] #[kani::stub(std::hint::spin_loop, noop)]
        fn dynamic_cursor_yields_the_next_entry_or_nothing() {
            let (t, n, content) = any_topic(false);
            let sub = t.subscribe_to_joined_old_and_new_events();
            let h: usize = kani::any(); kani::assume(h <= n);
            set_dyn_head(&sub, h);
            let empties = std::cell::Cell::new(0u32);
            let got = sub.consume(|s| s as *const u32, || { empties.set(empties.get() + 1); false }, |_| {});
            match got {
                Some(p) => {
                    assert!(h < n,                                               "consume: yields only entries that were published");
                    assert!(p == slot_addr(&t, h) && unsafe { *p } == content[h], "consume: yields a reference to entry #h itself (same address, unchanged content)");
                    assert!(dyn_head(&sub) == h + 1 && empties.get() == 0,       "consume: the cursor advances by exactly one (no entry skipped or repeated)");
                }
                None => {
                    assert!(h == n,                                              "consume: None only if the cursor reached the published end");
                    assert!(dyn_head(&sub) == h && empties.get() == 1,           "consume on empty: cursor restored, emptiness reported once");
                }
            }
            assert!(tails(&t) == (n, n),                                         "consuming changes nothing in the log");
            if h <= n { assert!(sub.remaining_elements_count() == n - dyn_head(&sub), "remaining_elements_count == |log| - cursor"); }
            kani::cover!(h < n, "entry available"); kani::cover!(h == n, "nothing available");
            kani::cover!(true, "end of harness reachable (vacuity guard)");
        }

        // @props C09
        #[kani::proof] #[kani::unwind($unw)] #[kani::stub(std::hint::spin_loop, noop)]
        fn fixed_cursor_stops_at_its_frozen_tail() {
            let (t, n, content) = any_topic(false);
            let ft: usize = kani::any(); kani::assume(ft <= n);
            // a cursor frozen at ft while the log has meanwhile grown to n >= ft
            let (old, _new) = fake_topic::<CAP>(ft, content).subscribe_to_separated_old_and_new_events();
            let old = MMapMetaFixedSubscriber { head: old.head, buffer: t.buffer_as_slice_mut(), fixed_tail: old.fixed_tail };
            let h: usize = kani::any(); kani::assume(h <= ft);
            set_fix_head(&old, h);
            let empties = std::cell::Cell::new(0u32);
            let got = old.consume(|s| s as *const u32, || { empties.set(empties.get() + 1); false }, |_| {});
            match got {
                Some(p) => {
                    assert!(h < ft,                                              "old cursor: yields only entries before the split point, even though newer ones exist");
                    assert!(p == slot_addr(&t, h) && unsafe { *p } == content[h], "old cursor: yields a reference to entry #h itself");
                    assert!(fix_state(&old) == (h + 1, ft) && empties.get() == 0, "old cursor: advances by one, split point frozen");
                }
                None => {
                    assert!(h == ft,                                             "old cursor: None exactly at the split point");
                    assert!(fix_state(&old) == (h, ft) && empties.get() == 1,    "old cursor at its end: restored, emptiness reported once (the channel ends the stream there)");
                }
            }
            assert!(old.remaining_elements_count() == ft - fix_state(&old).0,    "remaining_elements_count == split point - cursor");
            kani::cover!(h < ft && ft < n, "old entry available while newer exist"); kani::cover!(h == ft, "old cursor exhausted");
            kani::cover!(true, "end of harness reachable (vacuity guard)");
        }
    } )* } }
    log_proofs! {
        cap2: 2, 4;
        cap4: 4, 6;
        cap8: 8, 10;
    }
}
