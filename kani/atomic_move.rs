// Back end K harnesses for `AtomicMove` (included from /repo/src/ogre_std/ogre_queues/atomic/atomic_move.rs
// through the `verif_hooks` module; `super::*` is the real module, private fields included).
//
// Pattern: inductive step. The queue is put in an ARBITRARY state satisfying the representation
// invariant (any u32 origin, any fill level, any number of outstanding reservations, any payloads),
// ONE real operation is executed, and the postcondition taken from the property is asserted over
// the whole abstract view + frame.

// @module ogre_std::ogre_queues::atomic::atomic_move
// @sizes ring_proofs: n2=quick n4=quick n8=thorough
// @sizes drop_proofs: d2=quick d4=thorough
#[allow(unused_imports)] use super::*;
use std::sync::atomic::Ordering::Relaxed as Rx;

/// Abstract state of an `AtomicMove` at quiescence (no consumer in progress)
#[allow(dead_code)] #[derive(Clone, Copy)]
pub(crate) struct RingState { pub origin: u32, pub len: u32, pub resv: u32 }

#[allow(dead_code)] pub(crate) fn raw_buffer<T: Debug + Default, const N: usize>(q: &AtomicMove<T, N>) -> *mut [T; N] {
    // same cast the real code uses (ManuallyDrop<T> is repr(transparent))
    let b: *mut Box<[T; N]> = q.buffer.get() as *mut Box<[T; N]>;
    unsafe { (&mut **b) as *mut [T; N] }
}

/// Forces the counters of a (fresh, empty) queue into the state `(origin, len, resv)`
#[allow(dead_code)] pub(crate) fn set_counters<T: Debug + Default, const N: usize>(q: &AtomicMove<T, N>, s: RingState) {
    q.head.store(s.origin, Rx);
    q.dequeuer_head.store(s.origin, Rx);
    q.tail.store(s.origin.wrapping_add(s.len), Rx);
    q.enqueuer_tail.store(s.origin.wrapping_add(s.len).wrapping_add(s.resv), Rx);
}

#[allow(dead_code)] pub(crate) fn counters<T: Debug + Default, const N: usize>(q: &AtomicMove<T, N>) -> (u32, u32, u32, u32) {
    (q.head.load(Rx), q.dequeuer_head.load(Rx), q.tail.load(Rx), q.enqueuer_tail.load(Rx))
}

#[allow(dead_code)] pub(crate) fn head_len<T: Debug + Default, const N: usize>(q: &AtomicMove<T, N>) -> (u32, u32) {
    let (h, _dh, t, _et) = counters(q); (h, t.wrapping_sub(h))
}
#[allow(dead_code)] pub(crate) fn is_quiescent<T: Debug + Default, const N: usize>(q: &AtomicMove<T, N>) -> bool {
    let (h, dh, t, et) = counters(q); h == dh && t == et
}
/// `Inv` + view equality: counters are exactly those of `(origin, len, resv)`
#[allow(dead_code)] pub(crate) fn counters_are<T: Debug + Default, const N: usize>(q: &AtomicMove<T, N>, s: RingState) -> bool {
    let (h, dh, t, et) = counters(q);
    h == s.origin && dh == s.origin && t == s.origin.wrapping_add(s.len) && et == t.wrapping_add(s.resv)
}

/// Uniform access to the abstract state of both ring buffers, used by the harnesses of everything built on top of them
/// (pool allocator free lists, zero-copy queues, channels). `force` puts the ring in the quiescent state
/// "seq = content[(origin+k) % N] for k < len"; `snapshot` reads it back (only meaningful when `quiescent()`).
#[allow(dead_code)] pub(crate) trait RingModel<const N: usize> {
    fn force(&self, origin: u32, len: u32, content: [u32; N]);
    fn snapshot(&self) -> (u32, u32, [u32; N]);
    fn quiescent(&self) -> bool;
    /// k-th element of the abstract sequence
    fn seq_at(&self, k: u32) -> u32 { let (o, _l, c) = self.snapshot(); c[o.wrapping_add(k) as usize % N] }
}
impl<const N: usize> RingModel<N> for AtomicMove<u32, N> {
    fn force(&self, origin: u32, len: u32, content: [u32; N]) {
        set_counters(self, RingState { origin, len, resv: 0 });
        unsafe { *raw_buffer(self) = content; }
    }
    fn snapshot(&self) -> (u32, u32, [u32; N]) {
        let (h, _dh, t, _et) = counters(self);
        (h, t.wrapping_sub(h), unsafe { *raw_buffer(self) })
    }
    fn quiescent(&self) -> bool { let (h, dh, t, et) = counters(self); h == dh && t == et && t.wrapping_sub(h) <= N as u32 }
}

#[cfg(kani)]
pub(crate) mod proofs {
    use super::*;

    fn any_state<const N: usize>() -> RingState {
        let s = RingState { origin: kani::any(), len: kani::any(), resv: kani::any() };
        kani::assume(s.len <= N as u32);
        kani::assume(s.resv <= N as u32);
        kani::assume(s.len + s.resv <= N as u32);
        s
    }

    /// any queue of `u32`s in an arbitrary `Inv` state; returns the queue, its abstract state and a snapshot of the buffer
    fn any_queue<const N: usize>() -> (AtomicMove<u32, N>, RingState, [u32; N]) {
        let q = AtomicMove::<u32, N>::new();
        let s = any_state::<N>();
        set_counters(&q, s);
        let payloads: [u32; N] = kani::any();
        unsafe { *raw_buffer(&q) = payloads; }
        (q, s, payloads)
    }

    /// `_mm_pause` is not modelled by Kani; a spin hint has no effect on program state
    pub(crate) fn noop() {}

    fn buffer_of<const N: usize>(q: &AtomicMove<u32, N>) -> [u32; N] { unsafe { *raw_buffer(q) } }

    // adversarial environment for the overshoot-and-recede path (C16 / C02): at this producer's FIRST receding compare-exchange on the watched
    // `enqueuer_tail`, another producer has reserved a slot after ours (so the recede fails) and a consumer has received the oldest event
    // (so there is room now)
    pub(crate) static mut WATCHED_RING: usize = 0;
    pub(crate) static mut CAS_ATTEMPTS: u32 = 0;
    pub(crate) fn colliding_compare_exchange_weak(a: &AtomicU32, cur: u32, new: u32, _s: std::sync::atomic::Ordering, _f: std::sync::atomic::Ordering) -> Result<u32, u32> {
        unsafe {
            if WATCHED_RING != 0 {
                let q = &*(WATCHED_RING as *const AtomicMove<u32, 2>);     // the counters sit at the same offsets for every BUFFER_SIZE (Box'ed buffer)
                if a as *const AtomicU32 == &*q.enqueuer_tail as *const AtomicU32 {
                    CAS_ATTEMPTS += 1;
                    if CAS_ATTEMPTS == 1 {
                        let et = &*q.enqueuer_tail as *const AtomicU32 as *mut u32; *et = (*et).wrapping_add(1);      // another producer reserved after us
                        let h = &*q.head as *const AtomicU32 as *mut u32; *h = (*h).wrapping_add(1);                  // a consumer received & released the oldest event
                        let dh = &*q.dequeuer_head as *const AtomicU32 as *mut u32; *dh = (*dh).wrapping_add(1);
                    }
                }
            }
            let cell = a as *const AtomicU32 as *mut u32;
            if *cell == cur { *cell = new; Ok(cur) } else { Err(*cell) }
        }
    }

    // @group ring_proofs
    macro_rules! ring_proofs { ($($modname:ident: $n:expr, $unw:expr;)*) => { $( mod $modname {
        use super::*;
        const N: usize = $n;

        // @props C16 C02 spin=violation
        #[kani::proof] #[kani::unwind($unw)] #[kani::stub(std::hint::spin_loop, noop)]
        #[kani::stub(std::sync::atomic::Atomic::<u32>::compare_exchange_weak, colliding_compare_exchange_weak)]
        fn a_send_colliding_at_the_boundary_is_accepted_once_there_is_room() {
            // 'retrying succeeds as soon as a consumer has made room' / 'rejected only if at some instant of the call all slots were taken':
            // the queue is exactly full when we reserve; while we try to recede, another producer reserves behind us (our recede fails) and a
            // consumer frees a slot. The fullness test must be re-evaluated on the CURRENT head: we hold a valid slot now and are accepted --
            // judging from a stale head keeps us receding forever (unwinding assertion = spinning on a condition nobody will make true)
            let q = AtomicMove::<u32, N>::new();
            let origin: u32 = kani::any();
            set_counters(&q, RingState { origin, len: N as u32, resv: 0 });
            unsafe { *raw_buffer(&q) = kani::any(); WATCHED_RING = &q as *const AtomicMove<u32, N> as usize; CAS_ATTEMPTS = 0; }
            let got = q.leak_slot_internal(|| false);
            match got {
                Some((_slot, id, len_before)) => {
                    assert!(id == origin.wrapping_add(N as u32),             "collision: we keep the slot id we reserved");
                    assert!(len_before == N as u32 - 1,                      "collision: the length is judged against the CURRENT head (one slot was freed)");
                }
                None => assert!(false,                                       "collision: there is room by the time the fullness test is repeated -- the send must not be rejected"),
            }
            kani::cover!(unsafe { CAS_ATTEMPTS } >= 1, "the receding compare-exchange was attempted (and lost against the other producer)");
            kani::cover!(true, "end of harness reachable (vacuity guard)");
        }

        // ---- C01/C02/C15/C16: publish_movable -----------------------------------------------------------
        // @props C01 C02 C15 C16
        #[kani::proof] #[kani::unwind($unw)] #[kani::stub(std::hint::spin_loop, noop)]
        fn publish_movable() {
            let (q, s, before) = any_queue::<N>();
            // `publish_movable` is only callable while the caller holds no reservation, unless it is going to be rejected
            kani::assume(s.resv == 0 || s.len + s.resv == N as u32);
            let x: u32 = kani::any();
            let (len_after, rejected) = q.publish_movable(x);
            let after = buffer_of(&q);
            if s.len + s.resv < N as u32 {
                kani::cover!(s.origin > u32::MAX - 2, "accept across the u32 wrap");
                assert!(rejected.is_none(),                                "accepted: nothing handed back");
                assert!(len_after.map(|l| l.get()) == Some(s.len + 1),     "accepted: reports len_after == |seq|+1");
                assert!(counters_are(&q, RingState { len: s.len + 1, ..s }), "accepted: seq' = seq.push(x), counters otherwise unchanged");
                let idx = (s.origin.wrapping_add(s.len)) as usize % N;
                assert!(after[idx] == x,                                   "accepted: payload stored at the tail slot");
                let k: usize = kani::any();
                if k < N && k != idx {
                    assert!(after[k] == before[k],                             "accepted: frame - no other slot written");
                }
            } else {
                kani::cover!(s.resv > 0, "reject with reservations outstanding");
                kani::cover!(s.resv == 0, "reject with a full queue");
                assert!(rejected == Some(x),                               "rejected: payload handed back unchanged");
                assert!(len_after.is_none(),                               "rejected: no length reported");
                assert!(counters_are(&q, s),                               "rejected: all four counters unchanged (C16 frame)");
                let k: usize = kani::any();
                if k < N {
                    assert!(after[k] == before[k],                             "rejected: buffer unchanged");
                }
            }
            kani::cover!(true, "end of harness reachable (vacuity guard)");
        }

        // ---- publish (setter variant) -----------------------------------------------------------------------
        // @props C01 C02 C15 C16
        #[kani::proof] #[kani::unwind($unw)] #[kani::stub(std::hint::spin_loop, noop)]
        fn publish_with_setter() {   // also C04: report-after-publish is what orders the channels' wake-up after the publication
            let (q, s, before) = any_queue::<N>();
            kani::assume(s.resv == 0 || s.len + s.resv == N as u32);
            let x: u32 = kani::any();
            let setter_calls = std::cell::Cell::new(0u32);
            let reported_len = std::cell::Cell::new(0u32);
            let report_calls = std::cell::Cell::new(0u32);
            let full_calls   = std::cell::Cell::new(0u32);
            let visible_at_report = std::cell::Cell::new(u32::MAX);
            let ret = q.publish(|slot| { *slot = x; setter_calls.set(setter_calls.get() + 1); },
                                || { full_calls.set(full_calls.get() + 1); false },
                                |len| { reported_len.set(len); report_calls.set(report_calls.get() + 1); visible_at_report.set(q.available_elements_count() as u32); });
            let after = buffer_of(&q);
            if s.len + s.resv < N as u32 {
                assert!(ret.is_none(),                                      "accepted: setter consumed");
                assert!(setter_calls.get() == 1,                            "accepted: setter applied exactly once");
                assert!(report_calls.get() == 1 && reported_len.get() == s.len + 1, "accepted: len_after reported once");
                assert!(visible_at_report.get() == s.len + 1,                "accepted: the length is reported (channels wake a consumer from this callback) only AFTER the element is visible to consumers");
                assert!(full_calls.get() == 0,                              "accepted: full never reported");
                assert!(counters_are(&q, RingState { len: s.len + 1, ..s }), "accepted: seq' = seq.push(x)");
                let idx = (s.origin.wrapping_add(s.len)) as usize % N;
                assert!(after[idx] == x,                                    "accepted: setter wrote the tail slot");
                let k: usize = kani::any();
                if k < N && k != idx {
                    assert!(after[k] == before[k],                              "accepted: frame");
                }
            } else {
                assert!(ret.is_some(),                                      "rejected: setter handed back");
                assert!(setter_calls.get() == 0,                            "rejected: setter un-invoked");
                assert!(report_calls.get() == 0,                            "rejected: no length reported");
                assert!(full_calls.get() == 1,                              "rejected: full reported once, no retry when it answers false");
                assert!(counters_are(&q, s),                                "rejected: counters unchanged");
                let k: usize = kani::any();
                if k < N {
                    assert!(after[k] == before[k],                              "rejected: buffer unchanged");
                }
            }
            kani::cover!(true, "end of harness reachable (vacuity guard)");
        }

        // ---- C01/C02: consume_movable --------------------------------------------------------------------------
        // @props C01 C02 C15
        #[kani::proof] #[kani::unwind($unw)] #[kani::stub(std::hint::spin_loop, noop)]
        fn consume_movable() {
            let (q, s, before) = any_queue::<N>();
            let got = q.consume_movable();
            let after = buffer_of(&q);
            if s.len > 0 {
                kani::cover!(s.origin == u32::MAX, "consume across the wrap");
                assert!(got == Some(before[s.origin as usize % N]),         "non-empty: yields seq[0] (FIFO)");
                assert!(counters_are(&q, RingState { origin: s.origin.wrapping_add(1), len: s.len - 1, resv: s.resv }),
                                                                             "non-empty: seq' = seq.drop_first()");
            } else {
                kani::cover!(s.resv > 0, "empty with reservations outstanding");
                assert!(got.is_none(),                                       "empty: None");
                assert!(counters_are(&q, s),                                 "empty: counters unchanged");
            }
            let k: usize = kani::any();
            if k < N {
                assert!(after[k] == before[k],                                   "consume never writes the buffer");
            }
            kani::cover!(true, "end of harness reachable (vacuity guard)");
        }

        // ---- C02: length query --------------------------------------------------------------------------------
        // @props C02 C15 C16
        #[kani::proof] #[kani::unwind($unw)] #[kani::stub(std::hint::spin_loop, noop)]
        fn available_elements_count() {
            let (q, s, _) = any_queue::<N>();
            assert!(q.available_elements_count() == s.len as usize,          "pending count == |seq|");
            assert!(q.max_size() == N,                                       "max_size == BUFFER_SIZE");
            assert!(counters_are(&q, s),                                     "query changes nothing");
            kani::cover!(true, "end of harness reachable (vacuity guard)");
        }

        // ---- C08/C15/C16: reserve ----------------------------------------------------------------------------
        // @props C08 C15 C16
        #[kani::proof] #[kani::unwind($unw)] #[kani::stub(std::hint::spin_loop, noop)]
        fn leak_slot_internal() {
            let (q, s, before) = any_queue::<N>();
            let base = raw_buffer(&q) as *mut u32;
            let r = q.leak_slot_internal(|| false);
            if s.len + s.resv < N as u32 {
                let id_expected = s.origin.wrapping_add(s.len).wrapping_add(s.resv);
                match r {
                    Some((slot, id, len_before)) => {
                        assert!(id == id_expected,                           "reserve: id is the old enqueuer_tail");
                        assert!(len_before == s.len + s.resv,                "reserve: len_before == |seq|+resv");
                        assert!(slot as *mut u32 == unsafe { base.add(id as usize % N) }, "reserve: slot is buffer[id % N]");
                    }
                    None => assert!(false,                                   "reserve: must succeed below capacity"),
                }
                assert!(counters_are(&q, RingState { resv: s.resv + 1, ..s }), "reserve: resv' = resv+1, nothing else");
            } else {
                assert!(r.is_none(),                                         "reserve at capacity: None");
                assert!(counters_are(&q, s),                                 "reserve at capacity: counters restored");
            }
            let after = buffer_of(&q);
            let k: usize = kani::any();
            if k < N {
                assert!(after[k] == before[k],                                   "reserve never writes the buffer");
            }
            kani::cover!(true, "end of harness reachable (vacuity guard)");
        }

        // ---- C08/C15: publish a reservation by index (lap reconstruction) ---------------------------------
        // @props C08 C15
        #[kani::proof] #[kani::unwind($unw)] #[kani::stub(std::hint::spin_loop, noop)]
        fn try_publish_leaked_internal_index() {
            let (q, s, before) = any_queue::<N>();
            kani::assume(s.resv >= 1);
            // `j`-th outstanding reservation (0 = oldest)
            let j: u32 = kani::any(); kani::assume(j < s.resv);
            let id    = s.origin.wrapping_add(s.len).wrapping_add(j);
            let index = id % N as u32;
            let r = q.try_publish_leaked_internal_index(index);
            match r {
                Some(reported) => {
                    assert!(j == 0,                                          "index publish: only the oldest reservation can publish");
                    assert!(counters_are(&q, RingState { len: s.len + 1, resv: s.resv - 1, ..s }), "index publish: tail' = id+1");
                    assert!(reported.get() == u32::max(1, s.len),            "index publish: reports max(1, len_before)");
                }
                None => {
                    assert!(j != 0,                                          "index publish: the oldest reservation always publishes (sequentially)");
                    assert!(counters_are(&q, s),                             "index publish refused: state unchanged");
                }
            }
            kani::cover!(j == 0 && s.origin.wrapping_add(s.len) < s.origin, "publish by index right after the wrap");
            kani::cover!(j == 0 && id / (N as u32) > 0, "publish by index on a later lap");
            let after = buffer_of(&q);
            let k: usize = kani::any();
            if k < N {
                assert!(after[k] == before[k],                                   "index publish never writes the buffer");
            }
            kani::cover!(true, "end of harness reachable (vacuity guard)");
        }

        // ---- C08/C15: cancel a reservation by index -----------------------------------------------------------
        // @props C08 C15
        #[kani::proof] #[kani::unwind($unw)] #[kani::stub(std::hint::spin_loop, noop)]
        fn try_unleak_slot_index_internal() {
            let (q, s, before) = any_queue::<N>();
            kani::assume(s.resv >= 1);
            let j: u32 = kani::any(); kani::assume(j < s.resv);
            let id    = s.origin.wrapping_add(s.len).wrapping_add(j);
            let index = id % N as u32;
            let r = q.try_unleak_slot_index_internal(index);
            if r {
                assert!(j == s.resv - 1,                                     "index cancel: only the newest reservation can be cancelled");
                assert!(counters_are(&q, RingState { resv: s.resv - 1, ..s }), "index cancel: enqueuer_tail' = enqueuer_tail-1, seq unchanged");
            } else {
                assert!(j != s.resv - 1,                                     "index cancel: the newest reservation always cancels (sequentially)");
                assert!(counters_are(&q, s),                                 "index cancel refused: state unchanged");
            }
            kani::cover!(j == s.resv - 1 && id == u32::MAX, "cancel the reservation whose id is u32::MAX (enqueuer_tail wrapped to 0)");
            let after = buffer_of(&q);
            let k: usize = kani::any();
            if k < N {
                assert!(after[k] == before[k],                                   "index cancel never writes the buffer");
            }
            kani::cover!(true, "end of harness reachable (vacuity guard)");
        }

        // ---- C08/C13: index <-> reference conversions are inverse ------------------------------------------
        // @props C08
        #[kani::proof] #[kani::unwind($unw)] #[kani::stub(std::hint::spin_loop, noop)]
        fn slot_index_ref_roundtrip() {
            let (q, _s, before) = any_queue::<N>();
            let i: u32 = kani::any(); kani::assume(i < N as u32);
            let r = q.slot_ref_from_slot_index(i);
            assert!(*r == before[i as usize],                                "ref_from_index yields buffer[i]");
            assert!(q.slot_index_from_slot_ref(r) == i,                      "index_from_ref(ref_from_index(i)) == i");
            kani::cover!(true, "end of harness reachable (vacuity guard)");
        }

        // ---- C01: peek_remaining == seq ----------------------------------------------------------------------
        // @props C01 C10
        #[kani::proof] #[kani::unwind($unw)] #[kani::stub(std::hint::spin_loop, noop)]
        fn peek_remaining() {
            let (q, s, before) = any_queue::<N>();
            let [a, b] = unsafe { q.peek_remaining() };
            assert!(a.len() + b.len() == s.len as usize,                     "peek: the two slices hold |seq| elements");
            let k: usize = kani::any(); kani::assume(k < s.len as usize);
            let expected = before[(s.origin.wrapping_add(k as u32)) as usize % N];
            let got = if k < a.len() { a[k] } else { b[k - a.len()] };
            assert!(got == expected,                                         "peek: concatenation equals seq");
            kani::cover!(true, "end of harness reachable (vacuity guard)");
        }
    } )* } }

    ring_proofs! {
        n2: 2, 4;
        n4: 4, 6;
        n8: 8, 10;
    }

    // ---- C05: drop accounting with a destructor-carrying payload ------------------------------------------
    use std::sync::atomic::{AtomicU32 as Ctr, Ordering::SeqCst};
    static DROPS: Ctr = Ctr::new(0);
    #[derive(Debug, Default)]
    struct Droppy(u8);
    impl Drop for Droppy { fn drop(&mut self) { DROPS.fetch_add(1, SeqCst); } }

    // @group drop_proofs
    macro_rules! drop_proofs { ($($modname:ident: $n:expr, $unw:expr;)*) => { $( mod $modname {
        use super::*;
        const N: usize = $n;

        /// any origin; `len` elements published through the real API; then one reject, `c` consumes, teardown with leftovers
        // @props C05 C15
        #[kani::proof] #[kani::unwind($unw)] #[kani::stub(std::hint::spin_loop, noop)]
        fn payload_drop_accounting() {
            let q = AtomicMove::<Droppy, N>::with_initializer(|| Droppy(0));
            let origin: u32 = kani::any();
            set_counters(&q, RingState { origin, len: 0, resv: 0 });
            let base = DROPS.load(SeqCst);
            let len: u32 = kani::any(); kani::assume(len <= N as u32);
            let mut i = 0;
            while i < len { assert!(q.publish_movable(Droppy(i as u8)).1.is_none()); i += 1; }
            assert!(DROPS.load(SeqCst) == base,                              "publishing drops nothing (slot overwritten without drop)");
            if len == N as u32 {
                let (l, back) = q.publish_movable(Droppy(99));
                assert!(l.is_none() && back.is_some(),                       "full: rejected");
                assert!(DROPS.load(SeqCst) == base,                          "a rejected payload is not dropped by the queue");
                std::mem::forget(back);
            }
            let c: u32 = kani::any(); kani::assume(c <= len);
            let mut k = 0;
            while k < c {
                let item = q.consume_movable();
                assert!(DROPS.load(SeqCst) == base + k,                      "consume does not drop: ownership moves out");
                match item { Some(d) => { assert!(d.0 == k as u8, "FIFO"); drop(d); }, None => assert!(false, "must yield") }
                k += 1;
            }
            assert!(DROPS.load(SeqCst) == base + c,                          "each consumed payload dropped once by its owner");
            // a producer may still hold a reservation it never published (a reserve_slot() never sent, an async setter cancelled mid-way): the slot's bytes are
            // NOT a live payload (stale content of an event delivered long ago, or the filler) -- teardown must not run a destructor over them
            let with_reservation: bool = kani::any();
            if with_reservation && len < N as u32 {
                assert!(q.leak_slot_internal(|| false).is_some(),                "room left: a reservation is granted");
            }
            drop(q);
            assert!(DROPS.load(SeqCst) == base + len,                        "teardown drops exactly the leftovers, once each; initial filler slots are never dropped");
            kani::cover!(true, "end of harness reachable (vacuity guard)");
        }
    } )* } }
    drop_proofs! {
        d2: 2, 5;
        d4: 4, 7;
    }
}
