// Back end K: the channel-level harness KIT (included from /repo/src/mutiny_stream.rs, so `MutinyStream`'s private fields are reachable).
// @module mutiny_stream
//
// The obligations of DESIGN §4 that talk about a whole channel (C01 C02 C04 C06 C07 C08 C10 C16 C20 for Uni, C03 C04 C05 C10 for Multi)
// are written ONCE here as generic functions over the crate's own channel traits; every channel file instantiates them on the REAL
// channel type (its harness module builds the struct field by field, because `StreamsManagerBase::new` does not finish under symbolic
// execution) and only supplies the glue of `UniModel` / `MultiModel`: how to put its container into an abstract state and how to read
// it back. Start states are ARBITRARY states satisfying the representation invariants (inductive step), see each function.

#[allow(unused_imports)] use super::*;
#[allow(unused_imports)] use crate::streams_manager::{StreamsManagerBase, verif_hooks as sm};
#[allow(unused_imports)] use crate::types::{ChannelCommon, ChannelConsumer, ChannelProducer, ChannelUni, ChannelMulti};
#[allow(unused_imports)] use std::future::Future;
#[allow(unused_imports)] use std::task::Waker;

/// What a Uni channel's harness module must provide
#[allow(dead_code)]
pub(crate) trait UniModel<const N: usize, const M: usize>: Sized + 'static {
    type Derived: Debug + 'static;
    /// the REAL channel struct whose manager is `manager` and whose container holds `len` pending events with payloads
    /// `payloads[0..len)` (FIFO order), ring counters starting at `origin` / `origin2` (second ring of the zero-copy kinds)
    fn build(manager: StreamsManagerBase<M>, origin: u32, origin2: u32, len: u32, payloads: [u32; N]) -> Arc<Self>;
    fn manager(&self) -> &StreamsManagerBase<M>;
    fn payload_of(d: &Self::Derived) -> u32;
    /// number of pending events and the payload of the k-th one, read from the container's raw state
    fn pending(&self) -> u32;
    fn pending_payload(&self, k: u32) -> u32;
    /// no queue-wide lock held and no reserved-but-unpublished ring slot: the state every operation must leave behind,
    /// and the state required at a suspension point (C20)
    fn quiescent(&self) -> bool;
    /// events the channel can hold == BUFFER_SIZE
    fn capacity_left(&self) -> u32;
    /// whether the kit may start from an ARBITRARY stream-manager state (true), or -- for the channels whose harnesses would
    /// otherwise exhaust CBMC's memory -- from the family "streams 0..s created, parked, running" with s symbolic (false).
    /// The manager state is pure frame for the container-facing obligations, and `StreamsManagerBase` itself is verified from
    /// arbitrary states in kani/streams_manager.rs.
    const SYMBOLIC_MANAGER: bool = true;
}

/// What a Multi channel's harness module must provide
#[allow(dead_code)]
pub(crate) trait MultiModel<const N: usize, const M: usize>: Sized + 'static {
    type Derived: Debug + 'static;
    /// the REAL channel struct whose manager is `manager` and whose per-listener queues are EMPTY with ring counters at `origins[j]`
    /// (for the pooled kinds: pool with all N slots free, free-list ring at `pool_origin`)
    fn build(manager: StreamsManagerBase<M>, origins: [u32; M], pool_origin: u32) -> Arc<Self>;
    fn manager(&self) -> &StreamsManagerBase<M>;
    fn payload_of(d: &Self::Derived) -> u32;
    /// identity of the shared allocation a handle points to
    fn allocation_of(d: &Self::Derived) -> *const ();
    /// handles alive for that allocation, as the handle type reports it
    fn handles_of(d: &Self::Derived) -> u32;
    fn queue_len(&self, listener: usize) -> u32;
    /// the k-th buffered handle of a listener's queue (borrowed from the ring's raw storage)
    fn queue_item(&self, listener: usize, k: u32) -> &Self::Derived;
    fn queues_quiescent(&self) -> bool;
    /// free payload slots (pooled kinds), or u32::MAX for the heap-allocating Arc kinds
    fn free_slots(&self) -> u32;
    /// does this channel implement reserve_slot / try_send_reserved / try_cancel_slot_reserve
    const HAS_RESERVED: bool;
}

/// A setter future for `send_with_async`: answers `Pending` `pending_polls` times, then writes `x` into the slot and completes
#[allow(dead_code)]
pub(crate) struct SetterFut { pub slot: Option<&'static mut u32>, pub x: u32, pub pending_polls: u32 }
impl Future for SetterFut {
    type Output = &'static mut u32;
    fn poll(mut self: Pin<&mut Self>, _cx: &mut Context<'_>) -> Poll<Self::Output> {
        if self.pending_polls > 0 { self.pending_polls -= 1; return Poll::Pending; }
        let slot = self.slot.take().unwrap();
        *slot = self.x;
        Poll::Ready(slot)
    }
}
unsafe impl Send for SetterFut {}

#[allow(dead_code)] #[derive(Clone, Copy, PartialEq)]
pub(crate) enum Entry { Send, SendWith, SendWithAsync, Reserved }

#[allow(dead_code)] #[derive(PartialEq, Clone, Copy)]
pub(crate) enum Outcome { Accepted, RejectedUnchangedInput, RejectedBadInput, Fatal }

/// drives one accepting entry point with payload `x`; for the setter-based ones the setter counts its invocations in `calls`
#[allow(dead_code)]
pub(crate) fn drive<C, D: Debug + 'static>(ch: &'static C, entry: Entry, x: u32, calls: &'static Calls) -> Outcome
where C: ChannelProducer<'static, u32, D> {
    match entry {
        Entry::Send => match ch.send(x) {
            keen_retry::RetryResult::Ok { .. } => Outcome::Accepted,
            keen_retry::RetryResult::Transient { input, .. } => if input == x { Outcome::RejectedUnchangedInput } else { Outcome::RejectedBadInput },
            keen_retry::RetryResult::Fatal { .. } => Outcome::Fatal,
        },
        Entry::SendWith => match ch.send_with(move |slot| { *slot = x; calls.set(calls.get() + 1); }) {
            keen_retry::RetryResult::Ok { .. } => Outcome::Accepted,
            keen_retry::RetryResult::Transient { input, .. } => {
                // handed back un-invoked and unchanged: invoking it now must write x, once
                if calls.get() != 0 { return Outcome::RejectedBadInput; }
                let mut scratch = !x; input(&mut scratch);
                let ok = scratch == x && calls.get() == 1; calls.set(0);
                if ok { Outcome::RejectedUnchangedInput } else { Outcome::RejectedBadInput }
            },
            keen_retry::RetryResult::Fatal { .. } => Outcome::Fatal,
        },
        Entry::SendWithAsync => {
            let waker = sm::counting_waker(7);
            let mut cx = Context::from_waker(&waker);
            let mut fut = Box::pin(ch.send_with_async(move |slot: &'static mut u32| { calls.set(calls.get() + 1); SetterFut { slot: Some(slot), x, pending_polls: 0 } }));
            match fut.as_mut().poll(&mut cx) {
                Poll::Ready(keen_retry::RetryResult::Ok { .. }) => Outcome::Accepted,
                Poll::Ready(keen_retry::RetryResult::Transient { .. }) => if calls.get() == 0 { Outcome::RejectedUnchangedInput } else { Outcome::RejectedBadInput },
                Poll::Ready(keen_retry::RetryResult::Fatal { .. }) => Outcome::Fatal,
                Poll::Pending => Outcome::Fatal,     // a ready setter must not leave the send pending
            }
        },
        Entry::Reserved => match ch.reserve_slot() {
            Some(slot) => { *slot = x; calls.set(calls.get() + 1); if ch.try_send_reserved(slot) { Outcome::Accepted } else { Outcome::Fatal } },
            None => Outcome::RejectedUnchangedInput,
        },
    }
}

#[allow(dead_code)] pub(crate) fn leak_static<T>(a: &Arc<T>) -> &'static T { unsafe { &*Arc::as_ptr(a) } }
/// invocation counter usable from `Send` closures
#[allow(dead_code)] pub(crate) struct Calls(std::sync::atomic::AtomicU32);
#[allow(dead_code)] impl Calls { pub(crate) fn get(&self) -> u32 { self.0.load(std::sync::atomic::Ordering::Relaxed) } pub(crate) fn set(&self, v: u32) { self.0.store(v, std::sync::atomic::Ordering::Relaxed) } }
#[allow(dead_code)] pub(crate) fn static_cell() -> &'static Calls { Box::leak(Box::new(Calls(std::sync::atomic::AtomicU32::new(0)))) }

#[cfg(kani)]
pub(crate) mod kit {
    use super::*;
    use sm::proofs::any_sm_state as any_sm_state_full;

    static PROBE_TARGET: std::sync::atomic::AtomicPtr<()> = std::sync::atomic::AtomicPtr::new(std::ptr::null_mut());
    fn pending_probe<C: UniModel<N, M>, const N: usize, const M: usize>() -> u32 { unsafe { &*(PROBE_TARGET.load(std::sync::atomic::Ordering::Relaxed) as *const C) }.pending() }

    /// the manager start state used by the kit for channel `C` (see `UniModel::SYMBOLIC_MANAGER`)
    fn sm_state_for<const M: usize>(symbolic: bool) -> sm::SmState<M> {
        if symbolic { any_sm_state_full::<M>() } else {
            let live: u32 = kani::any(); kani::assume(live >= 1 && live <= M as u32);
            let mut s = sm::SmState::<M>::first_streams_parked(live);
            let end0: bool = kani::any(); if end0 { s.keep[0] = false; }
            s
        }
    }

    pub(crate) fn any_uni<C: UniModel<N, M>, const N: usize, const M: usize>(s: &sm::SmState<M>) -> (Arc<C>, u32, [u32; N]) {
        let len: u32 = kani::any(); kani::assume(len <= N as u32);
        let payloads: [u32; N] = kani::any();
        let ch = C::build(sm::manager_in_state(s), kani::any(), kani::any(), len, payloads);
        (ch, len, payloads)
    }

    /// C01 / C02 / C16 (and C08 for `Entry::Reserved`): an entry point accepts iff the container has room; on acceptance the event is
    /// appended (whole-view: every earlier pending event untouched); on rejection the input comes back unchanged / un-invoked and
    /// NOTHING observable changed. Start: ANY manager state, ANY container fill level / origin / payloads.
    pub(crate) fn uni_accept_or_reject<C, const N: usize, const M: usize>(entry: Entry)
    where C: UniModel<N, M> + ChannelProducer<'static, u32, C::Derived> + ChannelCommon<u32, C::Derived> {
        let s = sm_state_for::<M>(C::SYMBOLIC_MANAGER);
        let (arc, len, payloads) = any_uni::<C, N, M>(&s);
        let ch = leak_static(&arc);
        let x: u32 = kani::any();
        let calls = static_cell();
        let out = drive::<C, C::Derived>(ch, entry, x, calls);
        assert!(out != Outcome::Fatal,                                       "entry point: never Fatal / never left pending by a ready setter");
        assert!(ch.quiescent(),                                              "entry point: leaves no lock held and no unpublished reservation behind");
        let k: u32 = kani::any();
        if len < N as u32 {
            kani::cover!(len + 1 == N as u32, "accepting the last free slot");
            assert!(out == Outcome::Accepted,                                "below capacity: accepted (a send is rejected only if all BUFFER_SIZE slots were taken)");
            assert!(ch.pending() == len + 1 && ch.pending_items_count() == len + 1, "accepted: pending count +1");
            assert!(ch.pending_payload(len) == x,                            "accepted: the event carries exactly the payload that was sent");
            if k < len { assert!(ch.pending_payload(k) == payloads[k as usize], "accepted: earlier pending events untouched, order kept"); }
            if entry != Entry::Send { assert!(calls.get() == 1,             "accepted: setter applied exactly once"); }
        } else {
            kani::cover!(true, "rejecting at capacity");
            assert!(out == Outcome::RejectedUnchangedInput,                  "at capacity: rejected, payload / setter handed back unchanged and un-invoked");
            assert!(ch.pending() == len && ch.pending_items_count() == len,  "rejected: pending count unchanged (never more than BUFFER_SIZE pending)");
            if k < len { assert!(ch.pending_payload(k) == payloads[k as usize], "rejected: nothing a stream could yield changed"); }
        }
        kani::cover!(true, "end of harness reachable (vacuity guard)");
    }

    /// C01 / C02: `consume` yields the oldest pending event with its payload, or None iff nothing is pending
    pub(crate) fn uni_consume_fifo<C, const N: usize, const M: usize>()
    where C: UniModel<N, M> + ChannelConsumer<'static, C::Derived> + ChannelCommon<u32, C::Derived> {
        let s = sm_state_for::<M>(C::SYMBOLIC_MANAGER);
        let (arc, len, payloads) = any_uni::<C, N, M>(&s);
        let ch = leak_static(&arc);
        let id: u32 = kani::any(); kani::assume(id < M as u32);
        let got = ch.consume(id);
        assert!(ch.quiescent(),                                              "consume: leaves no lock held");
        match got {
            Some(d) => {
                assert!(len > 0,                                             "consume: yields only if something was pending (nothing that was not sent)");
                assert!(C::payload_of(&d) == payloads[0],                    "consume: yields the OLDEST pending event with exactly its payload (FIFO)");
                assert!(ch.pending() == len - 1,                             "consume: that event is gone (delivered once)");
                let k: u32 = kani::any();
                if k < N as u32 && k + 1 < len { assert!(ch.pending_payload(k) == payloads[k as usize + 1], "consume: the rest keeps its order"); }
                std::mem::forget(d);
            }
            None => {
                assert!(len == 0,                                            "consume: None only if the queue is empty");
                assert!(ch.pending() == 0,                                   "consume on empty: unchanged");
            }
        }
        kani::cover!(true, "end of harness reachable (vacuity guard)");
    }

    /// C04 (necessary sequential condition): streams 0..s were created (1 <= s <= MAX_STREAMS), all are parked, the queue is empty;
    /// an accepted event must wake at least one of them -- otherwise it stays stuck until some other send happens.
    pub(crate) fn uni_empty_to_nonempty_wakes<C, const N: usize, const M: usize>(entry: Entry)
    where C: UniModel<N, M> + ChannelProducer<'static, u32, C::Derived> + ChannelCommon<u32, C::Derived> {
        let live: u32 = kani::any(); kani::assume(live >= 1 && live <= M as u32);
        let s = sm::SmState::<M>::first_streams_parked(live);
        let arc = C::build(sm::manager_in_state(&s), kani::any(), kani::any(), 0, kani::any());
        let ch = leak_static(&arc);
        let before = sm::total_wakes(M);
        let calls = static_cell();
        PROBE_TARGET.store(ch as *const C as *mut (), std::sync::atomic::Ordering::Relaxed);
        unsafe { sm::PENDING_PROBE = Some(pending_probe::<C, N, M>); }
        let out = drive::<C, C::Derived>(ch, entry, kani::any(), calls);
        unsafe { sm::PENDING_PROBE = None; }
        assert!(out == Outcome::Accepted,                                    "empty channel: the event is accepted");
        assert!(ch.pending_items_count() == 1,                               "one event pending");
        assert!(sm::total_wakes(M) >= before + 1,                            "empty -> non-empty with every created stream parked: at least one LIVE stream is woken (else the event is stuck)");
        assert!(sm::PENDING_AT_LAST_WAKE.load(std::sync::atomic::Ordering::Relaxed) == 1, "the wake-up is issued AFTER the event became visible to consumers (a stream woken earlier would poll, find nothing and park for good)");
        kani::cover!(true, "end of harness reachable (vacuity guard)");
    }

    /// C06 / C07 / C04: one `poll_next` of the real `MutinyStream` over the real channel, from ANY state
    pub(crate) fn uni_poll_next<C, const N: usize, const M: usize>()
    where C: UniModel<N, M> + ChannelConsumer<'static, C::Derived> + ChannelCommon<u32, C::Derived> {
        let s = sm_state_for::<M>(C::SYMBOLIC_MANAGER);
        let (arc, len, payloads) = any_uni::<C, N, M>(&s);
        let id: u32 = kani::any(); kani::assume(id < M as u32 && s.live[id as usize]);
        let mut stream = std::mem::ManuallyDrop::new(MutinyStream::<u32, C, C::Derived>::new(id, &arc));
        let waker = sm::counting_waker(id as usize + 4);
        let mut cx = Context::from_waker(&waker);
        let running_before = arc.running_streams_count();
        let r = Pin::new(&mut *stream).poll_next(&mut cx);
        let ch = leak_static(&arc);
        let ended = matches!(r, Poll::Ready(None));
        // a poll -- whatever it answers, end-of-stream included -- gives nothing back to the channel: the stream's id stays taken until the stream object is dropped
        // (the pipeline built on top of it may still have items in flight; close() waits for the running-stream count to reach zero)
        assert!(ch.running_streams_count() == running_before,                "poll: the running-stream count changes only when a stream object is dropped, never inside a poll");
        match r {
            Poll::Ready(Some(d)) => {
                assert!(len > 0 && C::payload_of(&d) == payloads[0],          "poll: an item comes from this poll's consume, oldest first -- even when the stream was told to end (buffered events are drained first)");
                std::mem::forget(d);
            }
            Poll::Ready(None) => {
                assert!(len == 0,                                            "poll: end-of-stream is answered only from a poll that found nothing buffered");
                assert!(!s.keep[id as usize],                                "poll: end-of-stream only after the stream was told to end");
            }
            Poll::Pending => {
                assert!(len == 0 && s.keep[id as usize],                     "poll: Pending only if nothing is buffered and the stream is to keep running");
                assert!(sm::waker_is(ch.manager(), id as usize, &waker),     "poll: before answering Pending the task's waker is registered");
                // the same stream object polled again by ANOTHER task (a stream may change hands between polls): the per-call contract holds for every poll,
                // not only for the first one of a stream object -- the waker registered now is the one of the task parking now
                let waker2 = sm::counting_waker(id as usize);
                let mut cx2 = Context::from_waker(&waker2);
                let r2 = Pin::new(&mut *stream).poll_next(&mut cx2);
                assert!(matches!(r2, Poll::Pending),                          "poll: still nothing buffered, still told to keep running: Pending again");
                assert!(sm::waker_is(ch.manager(), id as usize, &waker2),    "poll: EVERY poll that answers Pending registers the waker of the task that polled");
            }
        }
        if len == 0 && !s.keep[id as usize] { assert!(ended, "poll: a stream told to end answers end-of-stream as soon as it finds nothing buffered, needing no further event"); }
        kani::cover!(true, "end of harness reachable (vacuity guard)");
    }

    /// C20 (state form): at the suspension point of `send_with_async` nothing is held that others would have to wait for
    pub(crate) fn uni_suspended_async_send_holds_nothing<C, const N: usize, const M: usize>()
    where C: UniModel<N, M> + ChannelProducer<'static, u32, C::Derived> + ChannelConsumer<'static, C::Derived> + ChannelCommon<u32, C::Derived> {
        let s = sm_state_for::<M>(C::SYMBOLIC_MANAGER);
        let (arc, len, _payloads) = if C::SYMBOLIC_MANAGER { any_uni::<C, N, M>(&s) } else { (C::build(sm::manager_in_state(&s), kani::any(), kani::any(), 0, kani::any()), 0, [0u32; N]) };
        kani::assume(len < N as u32);
        let ch = leak_static(&arc);
        let x: u32 = kani::any();
        let waker = sm::counting_waker(7);
        let mut cx = Context::from_waker(&waker);
        let mut fut = Box::pin(ch.send_with_async(move |slot: &'static mut u32| SetterFut { slot: Some(slot), x, pending_polls: 1 }));
        assert!(fut.as_mut().poll(&mut cx).is_pending(),                     "the setter is suspended, so is the send");
        assert!(ch.quiescent(),                                              "at the .await of send_with_async: no queue-wide lock and no unpublished ring reservation is held");
        assert!(ch.pending_items_count() == len,                             "length query answers while the send is suspended; nothing is deliverable yet");
        kani::cover!(true, "end of harness reachable (vacuity guard)");
    }

    /// C20 (operational form): while the setter stays suspended another producer and the consumer complete their operations (every
    /// loop they enter is bounded: an unwinding-assertion failure here means "spins waiting for the suspended send"), the event
    /// accepted meanwhile is delivered without waiting, and when the suspended send resumes its own event is delivered too.
    pub(crate) fn uni_suspended_async_send_blocks_nobody<C, const N: usize, const M: usize>()
    where C: UniModel<N, M> + ChannelProducer<'static, u32, C::Derived> + ChannelConsumer<'static, C::Derived> + ChannelCommon<u32, C::Derived> {
        let s = sm::SmState::<M>::first_streams_parked(1);
        let arc = C::build(sm::manager_in_state(&s), kani::any(), kani::any(), 0, kani::any());
        let ch = leak_static(&arc);
        let x: u32 = kani::any(); let y: u32 = kani::any();
        let waker = sm::counting_waker(7);
        let mut cx = Context::from_waker(&waker);
        let mut fut = Box::pin(ch.send_with_async(move |slot: &'static mut u32| SetterFut { slot: Some(slot), x, pending_polls: 1 }));
        assert!(fut.as_mut().poll(&mut cx).is_pending(),                     "the setter is suspended, so is the send");
        assert!(matches!(ch.send(y), keen_retry::RetryResult::Ok { .. }),    "a plain send completes (and is accepted: there is room) while the other send is suspended");
        assert!(ch.pending_items_count() == 1,                               "the event accepted meanwhile is pending");
        match ch.consume(0) { Some(d) => { assert!(C::payload_of(&d) == y, "the consumer receives the event accepted meanwhile, without waiting for the suspended send"); std::mem::forget(d); }, None => assert!(false, "the consumer must find the event accepted meanwhile") }
        assert!(matches!(fut.as_mut().poll(&mut cx), Poll::Ready(keen_retry::RetryResult::Ok { .. })), "when the setter completes, the suspended send completes with Ok");
        match ch.consume(0) { Some(d) => { assert!(C::payload_of(&d) == x, "... and its event is delivered as well"); std::mem::forget(d); }, None => assert!(false, "the resumed send's event must be deliverable") }
        kani::cover!(true, "end of harness reachable (vacuity guard)");
    }

    /// C04 / C20 ('when the suspended send finally completes, its event is delivered as well'): a send_with_async that started while `len`
    /// events were pending stays suspended while the consumer drains the channel and parks again; when the send completes into the (now empty)
    /// channel its event must wake a parked stream -- a wake decision taken from a length sampled BEFORE the suspension is stale by then
    pub(crate) fn uni_resumed_async_send_wakes<C, const N: usize, const M: usize>()
    where C: UniModel<N, M> + ChannelProducer<'static, u32, C::Derived> + ChannelConsumer<'static, C::Derived> + ChannelCommon<u32, C::Derived> {
        // ANY number of streams 1..=MAX_STREAMS was created (ids 0..live, none dropped) and all of them are parked: a wake-up aimed at a stream id that
        // was never created wakes nobody (C04 quantifies over every admissible set of live streams, not only over 'all MAX_STREAMS exist')
        let live: u32 = if C::SYMBOLIC_MANAGER { kani::any() } else { M as u32 };
        kani::assume(1 <= live && live <= M as u32);
        let s = sm::SmState::<M>::first_streams_parked(live);
        // the pooled (zero-copy) channels are too heavy for a symbolic fill level here (CBMC ran out of memory): they start with exactly
        // min(MAX_STREAMS, BUFFER_SIZE-1) events pending -- the case in which a length sampled before the suspension says 'nobody to wake'
        let len: u32 = if C::SYMBOLIC_MANAGER { kani::any() } else if M < N { M as u32 } else { N as u32 - 1 };
        kani::assume(len < N as u32);
        let arc = C::build(sm::manager_in_state(&s), kani::any(), kani::any(), len, kani::any());
        let ch = leak_static(&arc);
        let x: u32 = kani::any();
        let waker = sm::counting_waker(7);
        let mut cx = Context::from_waker(&waker);
        let mut fut = Box::pin(ch.send_with_async(move |slot: &'static mut u32| SetterFut { slot: Some(slot), x, pending_polls: 1 }));
        assert!(fut.as_mut().poll(&mut cx).is_pending(),                     "the setter is suspended, so is the send");
        // the consumer drains everything deliverable and finds the channel empty (it then parks: its waker stays registered)
        let mut k = 0; while k < len { match ch.consume(0) { Some(d) => std::mem::forget(d), None => assert!(false, "events accepted before the suspended send are deliverable while it is suspended") } k += 1; }
        assert!(ch.consume(0).is_none(),                                     "drained: nothing deliverable while the send is still suspended");
        let before = sm::total_wakes(M);
        assert!(matches!(fut.as_mut().poll(&mut cx), Poll::Ready(keen_retry::RetryResult::Ok { .. })), "when the setter completes, the suspended send completes with Ok");
        assert!(ch.pending_items_count() == 1,                               "the resumed send's event is pending");
        assert!(sm::total_wakes(M) >= before + 1,                            "the resumed send wakes a parked stream: every stream is parked and the channel was empty, so without a wake-up the event is stuck");
        kani::cover!(len as usize >= M || N <= M, "at least MAX_STREAMS events were pending when the send started (where BUFFER_SIZE allows)");
        kani::cover!(live < M as u32 || M == 1, "fewer streams than MAX_STREAMS exist (where MAX_STREAMS allows)");
        kani::cover!(true, "end of harness reachable (vacuity guard)");
    }

    /// C08: reserve, write, then either send-reserved (delivered with precisely the written content) or cancel (never delivered,
    /// capacity restored)
    pub(crate) fn uni_reserved_slot<C, const N: usize, const M: usize>()
    where C: UniModel<N, M> + ChannelProducer<'static, u32, C::Derived> + ChannelCommon<u32, C::Derived> {
        let s = sm_state_for::<M>(C::SYMBOLIC_MANAGER);
        let (arc, len, payloads) = any_uni::<C, N, M>(&s);
        let ch = leak_static(&arc);
        let x: u32 = kani::any();
        let left = ch.capacity_left();
        match ch.reserve_slot() {
            None => assert!(len == N as u32,                                 "reserve: refused only at capacity"),
            Some(slot) => {
                assert!(len < N as u32,                                      "reserve: granted only below capacity");
                assert!(ch.pending_items_count() == len,                     "reserve: nothing becomes deliverable by reserving");
                *slot = x;
                let k: u32 = kani::any();
                if kani::any() {
                    assert!(ch.try_send_reserved(slot),                      "send reserved: succeeds (sequentially: no earlier reservation is outstanding)");
                    assert!(ch.pending() == len + 1 && ch.pending_payload(len) == x, "send reserved: delivered once, with precisely the content written into the slot");
                    if k < len { assert!(ch.pending_payload(k) == payloads[k as usize], "send reserved: earlier events untouched"); }
                } else {
                    assert!(ch.try_cancel_slot_reserve(slot),                "cancel: succeeds for the newest reservation");
                    assert!(ch.pending() == len,                             "cancel: the slot is never delivered");
                    if k < len { assert!(ch.pending_payload(k) == payloads[k as usize], "cancel: pending events untouched"); }
                    assert!(ch.capacity_left() == left,                      "cancel: no slot leaked -- the channel accepts exactly as many events as before");
                }
                assert!(ch.quiescent(),                                      "reserved-slot API: nothing left held");
            }
        }
        kani::cover!(true, "end of harness reachable (vacuity guard)");
    }

    /// C10 (Uni bookkeeping): creating a stream takes a vacant id, dropping it gives the id back; the running-stream count follows
    pub(crate) fn uni_stream_ids_recycle<C, const N: usize, const M: usize>()
    where C: UniModel<N, M> + ChannelUni<'static, u32, C::Derived> + ChannelConsumer<'static, C::Derived> + ChannelCommon<u32, C::Derived> {
        let s = sm_state_for::<M>(C::SYMBOLIC_MANAGER);
        kani::assume(s.live_count() < M as u32);
        let (arc, _len, _payloads) = any_uni::<C, N, M>(&s);
        let n0 = s.live_count();
        let (stream, id) = arc.create_stream();
        assert!(id < M as u32 && !s.live[id as usize],                       "create_stream: a vacant id is handed out");
        assert!(arc.running_streams_count() == n0 + 1,                       "create_stream: running-stream count == number of live streams");
        drop(stream);
        assert!(arc.running_streams_count() == n0,                           "drop stream: running-stream count == number of live streams");
        let (v, vn) = sm::vacant_of(leak_static(&arc).manager());
        assert!(vn == M as u32 - n0 && v[(vn - 1) as usize] == id,           "drop stream: its id is vacant (reusable) again");
        kani::cover!(true, "end of harness reachable (vacuity guard)");
    }

    // ------------------------------------------------------------------------------------------------------------------------------
    // Multi channels
    // ------------------------------------------------------------------------------------------------------------------------------

    /// any set of live listeners, all parked and running, queues empty at arbitrary ring origins
    pub(crate) fn any_multi<C: MultiModel<N, M>, const N: usize, const M: usize>(all_parked: bool) -> (Arc<C>, sm::SmState<M>) {
        // any set of live listeners; vacant ids in ascending order, vacant ring at origin 0 (StreamsManagerBase is verified from
        // arbitrary states in kani/streams_manager.rs)
        let mut s = sm::SmState::<M>::first_streams_parked(0);
        s.live = kani::any();
        let mut i = 0; while i < M { s.keep[i] = s.live[i]; s.parked[i] = if all_parked { s.live[i] } else { s.live[i] && kani::any::<bool>() }; i += 1; }
        // ring origins are FIXED just below the 32-bit wrap (so the wrap happens inside the scenario): the per-listener queues hold
        // POINTER-valued handles, and a symbolic slot index for a pointer makes every later dereference a case split over all heap
        // objects -- CBMC ran out of memory (> 15 GB per harness) with symbolic origins here. The rings themselves are verified
        // from every origin in kani/atomic_move.rs / kani/full_sync_move.rs.
        let ch = C::build(sm::manager_in_state(&s), [u32::MAX - 1; M], u32::MAX);
        (ch, s)
    }

    /// C03 / C04: one accepted send is fanned out to EXACTLY the live listeners: every live listener's queue gets one more handle, all
    /// handles point to the same allocation carrying the payload sent, no other queue is touched, and every live (parked) listener whose
    /// queue was empty is woken. A second send keeps the per-listener order.
    pub(crate) fn multi_fanout<C, const N: usize, const M: usize>(entry: Entry)
    where C: MultiModel<N, M> + ChannelProducer<'static, u32, C::Derived> + ChannelConsumer<'static, C::Derived> + ChannelCommon<u32, C::Derived> {
        let (arc, s) = any_multi::<C, N, M>(true);
        let ch = leak_static(&arc);
        let x: u32 = kani::any(); let y: u32 = kani::any();
        let mut w0 = [0u32; M]; let mut i = 0; while i < M { w0[i] = sm::wakes(i); i += 1; }
        let calls = static_cell();
        assert!(drive::<C, C::Derived>(ch, entry, x, calls) == Outcome::Accepted, "send: accepted (every queue has room, the pool has free slots)");
        assert!(ch.queues_quiescent(),                                       "send: no lock / reservation left behind");
        let live_n = s.live_count();
        let mut first: *const () = std::ptr::null();
        let mut j = 0;
        while j < M {
            if s.live[j] {
                assert!(ch.queue_len(j) == 1,                                "fan-out: every live listener gets the event exactly once");
                let d = ch.queue_item(j, 0);
                assert!(C::payload_of(d) == x,                               "fan-out: the listener's handle carries the payload that was sent");
                if first.is_null() { first = C::allocation_of(d); }
                assert!(C::allocation_of(d) == first,                        "fan-out: all listeners observe the very same shared allocation");
                assert!(C::handles_of(d) == live_n,                          "fan-out: once the send returned, live handles == number of listeners (the producer's own handle is gone)");
                assert!(sm::wakes(j) >= w0[j] + 1,                           "fan-out: a parked listener whose queue was empty is woken");
            } else {
                assert!(ch.queue_len(j) == 0,                                "fan-out: queues of ids that are not live are not touched");
            }
            j += 1;
        }
        assert!(ch.pending_items_count() == if live_n > 0 { 1 } else { 0 },  "pending_items_count == longest listener queue");
        if ch.free_slots() != u32::MAX { assert!(ch.free_slots() == N as u32 - if live_n > 0 { 1 } else { 0 }, "pooled payload: one slot outstanding while listeners hold it; none if there is no listener"); }
        // second event: order per listener
        assert!(drive::<C, C::Derived>(ch, Entry::Send, y, calls) == Outcome::Accepted, "second send accepted");
        let j: usize = kani::any();
        if j < M && s.live[j] {
            assert!(ch.queue_len(j) == 2,                                    "second event fanned out as well");
            match ch.consume(j as u32) { Some(d) => { assert!(C::payload_of(&d) == x, "listener receives the events in send order (1st)"); std::mem::forget(d); }, None => assert!(false, "must yield") }
            match ch.consume(j as u32) { Some(d) => { assert!(C::payload_of(&d) == y, "listener receives the events in send order (2nd)"); std::mem::forget(d); }, None => assert!(false, "must yield") }
            assert!(ch.consume(j as u32).is_none(),                          "nothing else is yielded (no value that was not sent)");
            // C06: flush / close wait for `pending_items_count() == 0`, so it must be the LONGEST listener queue -- a slower listener's backlog counts
            if live_n >= 2 { assert!(ch.pending_items_count() == 2,           "pending_items_count == longest listener queue (listener j is drained, another one still holds both events)"); }
            else           { assert!(ch.pending_items_count() == 0,           "pending_items_count == 0 once the only listener is drained"); }
        }
        kani::cover!(live_n == M as u32, "all MAX_STREAMS listeners live");
        kani::cover!(live_n == 0, "no listener at all");
        kani::cover!(true, "end of harness reachable (vacuity guard)");
    }

    /// C05 / C14 at channel level: the payload lives until the LAST listener released its handle, then (pooled kinds) its slot is free again
    pub(crate) fn multi_payload_released_after_last_listener<C, const N: usize, const M: usize>()
    where C: MultiModel<N, M> + ChannelProducer<'static, u32, C::Derived> + ChannelConsumer<'static, C::Derived> + ChannelCommon<u32, C::Derived> {
        let (arc, s) = any_multi::<C, N, M>(true);
        let ch = leak_static(&arc);
        let x: u32 = kani::any();
        assert!(matches!(ch.send(x), keen_retry::RetryResult::Ok { .. }),    "send accepted");
        let mut remaining = s.live_count();
        let mut j = 0;
        while j < M {
            if s.live[j] {
                match ch.consume(j as u32) {
                    Some(d) => {
                        assert!(C::payload_of(&d) == x && C::handles_of(&d) == remaining, "each listener's handle is valid and counts the handles still alive");
                        drop(d); remaining -= 1;
                        if ch.free_slots() != u32::MAX { assert!(ch.free_slots() == N as u32 - if remaining > 0 { 1 } else { 0 }, "slot stays outstanding until the last handle is dropped, then it is free again"); }
                    }
                    None => assert!(false, "must yield"),
                }
            }
            j += 1;
        }
        if ch.free_slots() != u32::MAX { assert!(ch.free_slots() == N as u32,  "all handles released: the channel accepts BUFFER_SIZE new events again"); }
        kani::cover!(true, "end of harness reachable (vacuity guard)");
    }

    /// C10: a listener created after some events were left unconsumed by an earlier listener (whose stream was dropped) must not see them
    pub(crate) fn multi_new_listener_sees_nothing_old<C, const N: usize, const M: usize>()
    where C: MultiModel<N, M> + ChannelMulti<'static, u32, C::Derived> + ChannelProducer<'static, u32, C::Derived> + ChannelConsumer<'static, C::Derived> + ChannelCommon<u32, C::Derived> {
        let (arc, s) = any_multi::<C, N, M>(false);
        kani::assume(s.live_count() >= 1);
        let ch = leak_static(&arc);
        // an existing listener `old` ...
        let old: u32 = kani::any(); kani::assume(old < M as u32 && s.live[old as usize]);
        let old_stream = MutinyStream::<u32, C, C::Derived>::new(old, &arc);
        // ... receives an event it never consumes, and goes away
        let x: u32 = kani::any();
        assert!(matches!(ch.send(x), keen_retry::RetryResult::Ok { .. }),    "send accepted");
        assert!(ch.queue_len(old as usize) == 1,                             "the old listener has one unconsumed event");
        drop(old_stream);
        assert!(ch.running_streams_count() == s.live_count() - 1,            "running-stream count == live listeners");
        // a new listener is created: whatever id it gets, nothing sent before its creation may be yielded
        let (new_stream, new_id) = arc.create_stream_for_new_events();
        assert!(ch.running_streams_count() == s.live_count(),                "running-stream count == live listeners");
        let got = ch.consume(new_id);
        let stale = got.is_some();
        if let Some(d) = got { std::mem::forget(d); }
        assert!(!stale,                                                      "a listener created for new events yields nothing that was sent before its creation");
        std::mem::forget(new_stream);
        kani::cover!(new_id == old, "the new listener re-uses the dropped listener's id");
        kani::cover!(true, "end of harness reachable (vacuity guard)");
    }

    /// C16 (pooled Multi kinds): with the pool exhausted a send is rejected, hands the payload back and changes nothing
    pub(crate) fn multi_rejected_send_changes_nothing<C, const N: usize, const M: usize>(entry: Entry)
    where C: MultiModel<N, M> + ChannelProducer<'static, u32, C::Derived> + ChannelConsumer<'static, C::Derived> + ChannelCommon<u32, C::Derived> {
        let (arc, s) = any_multi::<C, N, M>(true);
        kani::assume(s.live_count() >= 1);
        let ch = leak_static(&arc);
        let calls = static_cell();
        // fill: N accepted sends exhaust the pool (each listener keeps its handles buffered)
        let mut i = 0u32;
        while i < N as u32 { assert!(drive::<C, C::Derived>(ch, Entry::Send, i, calls) == Outcome::Accepted, "exactly BUFFER_SIZE events can be outstanding"); i += 1; }
        assert!(ch.free_slots() == 0 && ch.pending_items_count() == N as u32, "pool exhausted, every listener queue holds BUFFER_SIZE events");
        let w = sm::total_wakes(M);
        assert!(drive::<C, C::Derived>(ch, entry, 77, calls) == Outcome::RejectedUnchangedInput, "full: rejected promptly, payload / setter handed back unchanged and un-invoked");
        assert!(ch.free_slots() == 0 && ch.pending_items_count() == N as u32, "rejected: no capacity consumed, pending count unchanged");
        let j: usize = kani::any();
        if j < M { assert!(ch.queue_len(j) == if s.live[j] { N as u32 } else { 0 }, "rejected: no listener queue changed"); }
        let _ = w;
        // a consumer makes room: the retry succeeds
        let mut j = 0; while j < M { if s.live[j] { match ch.consume(j as u32) { Some(d) => drop(d), None => assert!(false, "must yield") } } j += 1; }
        assert!(ch.free_slots() == 1,                                        "one event released by every listener: exactly one slot is free again");
        assert!(drive::<C, C::Derived>(ch, entry, 77, calls) == Outcome::Accepted, "retry succeeds as soon as there is room");
        kani::cover!(true, "end of harness reachable (vacuity guard)");
    }

    /// C05: tearing the channel down with events still buffered touches no freed memory and destroys every payload exactly once.
    /// (Kani's own checks -- dereference of dead objects, double free -- are the obligation; the assertions only pin the accounting.)
    pub(crate) fn multi_teardown_with_buffered_events<C, const N: usize, const M: usize>()
    where C: MultiModel<N, M> + ChannelProducer<'static, u32, C::Derived> + ChannelConsumer<'static, C::Derived> + ChannelCommon<u32, C::Derived> {
        let (arc, s) = any_multi::<C, N, M>(true);
        kani::assume(s.live_count() >= 1);
        {
            let ch = leak_static(&arc);
            assert!(matches!(ch.send(kani::any()), keen_retry::RetryResult::Ok { .. }), "send accepted");
            assert!(ch.pending_items_count() == 1,                           "one event buffered per listener at teardown");
        }
        assert!(Arc::strong_count(&arc) == 1,                                "the harness holds the only reference: dropping it tears the channel down");
        drop(arc);
        kani::cover!(true, "end of harness reachable (vacuity guard)");
    }

    /// C20 (Multi): a suspended send_with_async holds nothing others wait for; a plain send meanwhile is delivered first
    pub(crate) fn multi_suspended_async_send_blocks_nobody<C, const N: usize, const M: usize>()
    where C: MultiModel<N, M> + ChannelProducer<'static, u32, C::Derived> + ChannelConsumer<'static, C::Derived> + ChannelCommon<u32, C::Derived> {
        let (arc, s) = any_multi::<C, N, M>(true);
        kani::assume(s.live_count() >= 1);
        let ch = leak_static(&arc);
        let x: u32 = kani::any(); let y: u32 = kani::any();
        let waker = sm::counting_waker(7);
        let mut cx = Context::from_waker(&waker);
        let mut fut = Box::pin(ch.send_with_async(move |slot: &'static mut u32| SetterFut { slot: Some(slot), x, pending_polls: 1 }));
        assert!(fut.as_mut().poll(&mut cx).is_pending(),                     "the setter is suspended, so is the send");
        assert!(ch.queues_quiescent(),                                       "at the .await of send_with_async: no listener queue is locked or holds an unpublished reservation");
        assert!(ch.pending_items_count() == 0,                               "length query answers; nothing deliverable yet");
        assert!(matches!(ch.send(y), keen_retry::RetryResult::Ok { .. }),    "a plain send completes while the other send is suspended");
        let j: usize = kani::any(); kani::assume(j < M && s.live[j]);
        match ch.consume(j as u32) { Some(d) => { assert!(C::payload_of(&d) == y, "the event accepted meanwhile is delivered without waiting for the suspended send"); drop(d); }, None => assert!(false, "must yield") }
        assert!(matches!(fut.as_mut().poll(&mut cx), Poll::Ready(keen_retry::RetryResult::Ok { .. })), "when the setter completes, the suspended send completes with Ok");
        match ch.consume(j as u32) { Some(d) => { assert!(C::payload_of(&d) == x, "... and its event is delivered as well"); drop(d); }, None => assert!(false, "must yield") }
        kani::cover!(true, "end of harness reachable (vacuity guard)");
    }

    /// C08 (pooled Multi kinds): reserved slot sent -> delivered to every listener with the written content; cancelled -> never delivered, slot free again
    pub(crate) fn multi_reserved_slot<C, const N: usize, const M: usize>()
    where C: MultiModel<N, M> + ChannelProducer<'static, u32, C::Derived> + ChannelConsumer<'static, C::Derived> + ChannelCommon<u32, C::Derived> {
        let (arc, s) = any_multi::<C, N, M>(true);
        let ch = leak_static(&arc);
        let x: u32 = kani::any();
        match ch.reserve_slot() {
            None => assert!(false,                                           "reserve: granted while slots are free"),
            Some(slot) => {
                assert!(ch.free_slots() == N as u32 - 1 && ch.pending_items_count() == 0, "reserve: one slot taken, nothing deliverable");
                *slot = x;
                if kani::any() {
                    assert!(ch.try_send_reserved(slot),                      "send reserved: succeeds");
                    let j: usize = kani::any();
                    if j < M { if s.live[j] { assert!(ch.queue_len(j) == 1 && C::payload_of(ch.queue_item(j, 0)) == x, "send reserved: every listener gets precisely the content written into the slot, once"); }
                               else { assert!(ch.queue_len(j) == 0, "send reserved: non-live queues untouched"); } }
                    if s.live_count() == 0 { assert!(ch.free_slots() == N as u32, "send reserved with no listener: the slot is released, not leaked"); }
                } else {
                    assert!(ch.try_cancel_slot_reserve(slot),                "cancel: succeeds");
                    assert!(ch.free_slots() == N as u32 && ch.pending_items_count() == 0, "cancel: never delivered, slot free again");
                }
            }
        }
        kani::cover!(true, "end of harness reachable (vacuity guard)");
    }
}
