// Back end K harnesses for `OgreArc` (included from /repo/src/ogre_std/ogre_alloc/ogre_arc.rs; the private `InnerOgreArc` is reachable).
//
// Inductive state: a control block with `references_count == k` (ANY k in 1..u32::MAX), standing for k live handles to pool slot
// `data_id`, which is outstanding in a pool whose free list is in an ARBITRARY state (origin, fill level, permutation).
// One real operation, then: count, payload-destructor count, pool free list, control-block liveness (Kani's own memory checks
// flag a double free / use after free of the Box or of the pool).

// @module ogre_std::ogre_alloc::ogre_arc
// @sizes arc_proofs: atomic_p2=quick fullsync_p2=quick atomic_p4=thorough
#[allow(unused_imports)] use super::*;
#[allow(unused_imports)] use crate::ogre_std::ogre_queues::atomic::atomic_move::AtomicMove;
#[allow(unused_imports)] use crate::ogre_std::ogre_queues::full_sync::full_sync_move::FullSyncMove;
#[allow(unused_imports)] use crate::ogre_std::ogre_alloc::ogre_array_pool_allocator::{OgreArrayPoolAllocator, verif_hooks as pa};

/// the raw control-block pointer -- "the very same shared allocation" (C03) is equality of this pointer
#[allow(dead_code)] pub(crate) fn inner_ptr<D: Debug + Send + Sync, A: BoundedOgreAllocator<D> + Send + Sync>(a: &OgreArc<D, A>) -> *const () { a.inner.as_ptr() as *const () }
/// puts the control block in the state "k live handles" without creating them
#[allow(dead_code)] pub(crate) fn set_references<D: Debug + Send + Sync, A: BoundedOgreAllocator<D> + Send + Sync>(a: &OgreArc<D, A>, k: u32) {
    unsafe { a.inner.as_ref() }.references_count.store(k, Relaxed);
}
#[allow(dead_code)] pub(crate) fn data_id<D: Debug + Send + Sync, A: BoundedOgreAllocator<D> + Send + Sync>(a: &OgreArc<D, A>) -> u32 { unsafe { a.inner.as_ref() }.data_id }

#[cfg(kani)]
pub(crate) mod proofs {
    use super::*;
    use pa::proofs::{Droppy, DROPS};
    use std::sync::atomic::Ordering::SeqCst;
    /// `_mm_pause` is not modelled by Kani; a spin hint has no effect on program state
    pub(crate) fn noop() {}

    // adversarial environment (A-model inside Kani): right after THIS thread's decrement of the watched counter, another thread may drop its own
    // handle too (its decrement returning 1 makes IT the last owner, responsible for the release -- which is not executed here)
    pub(crate) static mut WATCHED_COUNTER: usize = 0;
    pub(crate) fn racing_fetch_sub(a: &AtomicU32, d: u32, _o: std::sync::atomic::Ordering) -> u32 {
        let cell = a as *const AtomicU32 as *mut u32;
        unsafe {
            let prev = *cell;
            *cell = prev.wrapping_sub(d);
            if cell as usize == WATCHED_COUNTER && *cell >= 1 && kani::any() { *cell -= 1; }
            prev
        }
    }

    // @group arc_proofs
    macro_rules! arc_proofs { ($($modname:ident: $fl:ident, $p:expr, $unw:expr;)*) => { $( mod $modname {
        use super::*;
        const P: usize = $p;
        type Pool = OgreArrayPoolAllocator<Droppy, $fl<u32, P>, P>;
        type Arc_ = OgreArc<Droppy, Pool>;

        /// pool in an arbitrary state with >= 1 free slot, one value `v` allocated through the real `new_with`, counter forced to `k`
        fn any_shared(pool: &Pool) -> (std::mem::ManuallyDrop<Arc_>, pa::PoolState<P>, u32, u8) {
            let s = pa::proofs::any_pool_state::<P>();
            kani::assume(s.free > 0);
            pa::force_pool(pool, &s);
            let v: u8 = kani::any();
            let a = Arc_::new_with(|slot| unsafe { std::ptr::write(slot, Droppy(v)) }, pool).unwrap();
            assert!(a.references_count() == 1,                               "new_with: one handle, count == 1");
            assert!(data_id(&a) == s.perm[0],                                "new_with: takes pool slot free[0]");
            let k: u32 = kani::any(); kani::assume(k >= 1 && k < u32::MAX);
            set_references(&a, k);
            (std::mem::ManuallyDrop::new(a), s, k, v)
        }

        // @props C14 C03 C05
        #[kani::proof] #[kani::unwind($unw)] #[kani::stub(std::hint::spin_loop, noop)]
        fn clone_shares_and_counts() {
            let pool = Pool::new();
            let (a, s, k, v) = any_shared(&pool);
            let d0 = DROPS.load(SeqCst);
            let b = std::mem::ManuallyDrop::new((*a).clone());
            assert!(a.references_count() == k + 1 && b.references_count() == k + 1, "clone: count' = count+1");
            assert!(inner_ptr(&a) == inner_ptr(&b),                          "clone: same control block (the very same allocation)");
            assert!((&**a) as *const Droppy == (&**b) as *const Droppy,      "clone: both dereference to the same pool slot");
            assert!(b.0 == v,                                                "deref: the value written at creation");
            assert!(DROPS.load(SeqCst) == d0,                                "clone: nothing destroyed");
            assert!(pa::free_count(&pool) == s.free - 1,                     "clone: pool untouched");
            kani::cover!(true, "end of harness reachable (vacuity guard)");
        }

        // @props C14 C05 C03
        #[kani::proof] #[kani::unwind($unw)] #[kani::stub(std::hint::spin_loop, noop)]
        fn drop_releases_exactly_at_last_handle() {
            let pool = Pool::new();
            let (a, s, k, v) = any_shared(&pool);
            let d0 = DROPS.load(SeqCst);
            // a second view on the same control block, used to observe the state after the drop when the block must still be alive
            let observer = std::mem::ManuallyDrop::new(unsafe { a.raw_copy() });
            assert!(a.0 == v,                                                "deref: the value written at creation, for every reachable count");
            drop(std::mem::ManuallyDrop::into_inner(a));
            if k > 1 {
                kani::cover!(k == 2, "drop of the second-to-last handle");
                assert!(observer.references_count() == k - 1,                "drop (not last): count' = count-1");
                assert!(DROPS.load(SeqCst) == d0,                            "drop (not last): payload NOT destroyed while other handles live");
                assert!(pa::free_count(&pool) == s.free - 1,                 "drop (not last): slot still outstanding (not reusable)");
                assert!(observer.0 == v,                                     "drop (not last): remaining handles still see the value");
            } else {
                kani::cover!(true, "drop of the last handle");
                assert!(DROPS.load(SeqCst) == d0 + 1,                        "drop (last): payload destroyed exactly once");
                let mut expected = [0u32; P]; let mut i = 1; while i < P { expected[i - 1] = s.perm[i]; i += 1; }
                expected[(s.free - 1) as usize] = s.perm[0];
                assert!(pa::free_list_is(&pool, s.origin.wrapping_add(1), &expected, s.free), "drop (last): slot returned to the pool exactly once (free' = free.push(id))");
            }
            kani::cover!(true, "end of harness reachable (vacuity guard)");
        }

        // @props C14 C05
        #[kani::proof] #[kani::unwind($unw)] #[kani::stub(std::hint::spin_loop, noop)]
        #[kani::stub(std::sync::atomic::Atomic::<u32>::fetch_sub, racing_fetch_sub)]
        fn drop_decides_from_its_own_decrement() {
            // 'destroyed exactly when the last handle is dropped -- whichever thread drops it': with k >= 2 handles, THIS drop is not the
            // last one (its decrement returns k >= 2), so it must not release anything, even if another thread's drop brings the counter to
            // zero right after our decrement (that thread is the last owner and releases). Deciding from a re-read of the counter fails here
            let pool = Pool::new();
            let (a, s, k, _v) = any_shared(&pool);
            kani::assume(k >= 2);
            let d0 = DROPS.load(SeqCst);
            unsafe { WATCHED_COUNTER = &a.inner.as_ref().references_count as *const AtomicU32 as usize; }
            drop(std::mem::ManuallyDrop::into_inner(a));
            assert!(DROPS.load(SeqCst) == d0,                                "drop (own decrement returned >= 2): payload NOT destroyed by this thread, whatever other threads do meanwhile");
            assert!(pa::free_count(&pool) == s.free - 1,                     "drop (own decrement returned >= 2): slot NOT returned by this thread");
            kani::cover!(k == 2, "another thread may bring the counter to 0 right after us");
            kani::cover!(true, "end of harness reachable (vacuity guard)");
        }

        // @props C14 C03
        #[kani::proof] #[kani::unwind($unw)] #[kani::stub(std::hint::spin_loop, noop)]
        fn bulk_increment_and_raw_copies() {
            let pool = Pool::new();
            let (a, _s, k, _v) = any_shared(&pool);
            let c: u32 = kani::any(); kani::assume(c <= 3 && k < u32::MAX - 3);
            unsafe { a.increment_references(c); }
            let mut i = 0;
            while i < c { let copy = std::mem::ManuallyDrop::new(unsafe { a.raw_copy() }); assert!(inner_ptr(&copy) == inner_ptr(&a), "raw_copy: same control block"); i += 1; }
            assert!(a.references_count() == k + c,                           "increment_references(c) + c raw copies: count == number of live handles");
            kani::cover!(true, "end of harness reachable (vacuity guard)");
        }

        // @props C14 C03 C05
        #[kani::proof] #[kani::unwind($unw)] #[kani::stub(std::hint::spin_loop, noop)]
        fn with_clones_preloads_counter() {
            let pool = Pool::new();
            let s = pa::proofs::any_pool_state::<P>();
            kani::assume(s.free > 0);
            pa::force_pool(&pool, &s);
            let d0 = DROPS.load(SeqCst);
            let [a, b, c] = Arc_::new_with_clones::<3, _>(|slot| unsafe { std::ptr::write(slot, Droppy(9)) }, &pool).unwrap();
            assert!(a.references_count() == 3,                               "new_with_clones::<3>: count == 3 == handles returned");
            assert!(inner_ptr(&a) == inner_ptr(&b) && inner_ptr(&b) == inner_ptr(&c), "new_with_clones: all handles share one control block");
            drop(a); drop(b);
            assert!(DROPS.load(SeqCst) == d0 && c.references_count() == 1 && c.0 == 9, "two of three dropped: value alive");
            drop(c);
            assert!(DROPS.load(SeqCst) == d0 + 1,                            "third dropped: destroyed exactly once");
            assert!(pa::free_count(&pool) == s.free,                         "pool free count restored");
            kani::cover!(true, "end of harness reachable (vacuity guard)");
        }

        // @props C14 C08
        #[kani::proof] #[kani::unwind($unw)] #[kani::stub(std::hint::spin_loop, noop)]
        fn new_hands_out_the_slot_reference() {
            let pool = Pool::new();
            let s = pa::proofs::any_pool_state::<P>();
            pa::force_pool(&pool, &s);
            match Arc_::new(&pool) {
                Some((arc, slot)) => {
                    assert!(s.free > 0,                                      "new: Some only if a slot was free");
                    unsafe { std::ptr::write(slot, Droppy(5)); }
                    assert!(arc.0 == 5 && arc.references_count() == 1,       "new: the handle dereferences to the slot that was handed out");
                    std::mem::forget(arc);
                }
                None => assert!(s.free == 0,                                 "new: None iff the pool is exhausted"),
            }
            kani::cover!(true, "end of harness reachable (vacuity guard)");
        }
    } )* } }
    arc_proofs! {
        atomic_p2: AtomicMove, 2, 5;
        fullsync_p2: FullSyncMove, 2, 5;
        atomic_p4: AtomicMove, 4, 7;
    }
}
