// Back end K harnesses for the log (mmap) Multi channel `MmapLog` (included from /repo/src/multi/channels/reference/mmap_log.rs).
// The REAL channel struct is built field by field over the fake mapping of kani/mmap_meta.rs (Kani cannot mmap) and a stream manager in
// an ARBITRARY Inv_SM state; every listener's cursor is arbitrary. One call of the real entry point is checked against the log model.
// reserve_slot / try_send_reserved / send_with_async start with `leak_slot()`, which is todo!() upstream: not harnessed (outside C08/C20).
// @module multi::channels::reference::mmap_log
// @sizes mlog_proofs: cap2m2=thorough cap4m2=extended cap4m4=extended
// @jobs 5 thorough=2
#[allow(unused_imports)] use super::*;
#[allow(unused_imports)] use crate::streams_manager::verif_hooks as sm;
#[allow(unused_imports)] use crate::ogre_std::ogre_queues::log_topics::mmap_meta::{verif_hooks as mm, MMapMetaSubscriber};

#[cfg(kani)]
pub(crate) mod proofs {
    use super::*;
    use std::task::{Context, Poll};
    use futures::Stream;
    pub(crate) fn noop() {}

    // @group mlog_proofs
    macro_rules! mlog_proofs { ($($modname:ident: $cap:expr, $m:expr, $unw:expr;)*) => { $( mod $modname {
        use super::*;
        const CAP: usize = $cap;
        const M: usize = $m;
        type Ch = MmapLog<'static, u32, M>;

        /// the channel over a log holding content[0..n), manager in state `s`, listener j a Dynamic cursor at heads[j] (<= n)
        fn build(s: &sm::SmState<M>, n: usize, content: [u32; CAP], heads: [usize; M]) -> Arc<Ch> {
            let log_queue = mm::fake_topic::<CAP>(n, content);
            let subscribers: [MMapMetaSubscriber<'static, u32>; M] = std::array::from_fn(|j| {
                let d = log_queue.subscribe_to_joined_old_and_new_events();
                mm::set_dyn_head(&d, heads[j]);
                MMapMetaSubscriber::Dynamic(d)
            });
            Arc::new(MmapLog { streams_manager: sm::manager_in_state(s), log_queue, subscribers })
        }
        fn any_channel(room: bool) -> (Arc<Ch>, sm::SmState<M>, usize, [u32; CAP], [usize; M]) {
            // manager states: "streams 0..live created in order, none dropped, all parked" with `live` symbolic and stream #0 possibly told to
            // end (the arbitrary-Inv_SM start state of kani/streams_manager.rs makes these channel-level harnesses exceed the CBMC budget;
            // StreamsManagerBase itself is verified from arbitrary states there)
            let live: u32 = kani::any(); kani::assume(live <= M as u32);
            let mut s = sm::SmState::<M>::first_streams_parked(live);
            let end0: bool = kani::any(); if end0 && live > 0 { s.keep[0] = false; }
            let n: usize = kani::any(); kani::assume(n <= CAP && (!room || n < CAP));
            let content: [u32; CAP] = kani::any();
            let heads: [usize; M] = kani::any();
            let mut j = 0; while j < M { kani::assume(heads[j] <= n); j += 1; }
            (build(&s, n, content, heads), s, n, content, heads)
        }

        // @props C03 C04 C09
        #[kani::proof] #[kani::unwind($unw)] #[kani::stub(std::hint::spin_loop, noop)]
        fn send_appends_once_and_wakes_every_live_listener() {
            let (ch, s, n, content, heads) = any_channel(true);
            let x: u32 = kani::any();
            let with_setter: bool = kani::any();
            let w0: [u32; M] = std::array::from_fn(|i| sm::wakes(i));
            let accepted = if with_setter { ch.send_with(|slot| *slot = x).is_ok() } else { ch.send(x).is_ok() };
            assert!(accepted,                                                    "log channel: a send is always accepted");
            assert!(mm::tails(&ch.log_queue) == (n + 1, n + 1) && mm::slot(&ch.log_queue, n) == x, "send: exactly one entry appended, carrying the payload");
            let k: usize = kani::any();
            if k < n { assert!(mm::slot(&ch.log_queue, k) == content[k],         "send: the existing history is untouched"); }
            let j: usize = kani::any();
            if j < M {
                assert!(mm::sub_state(&ch.subscribers[j]).1 == heads[j],         "send: no listener's cursor moves (each will see the event exactly once, in order)");
                if s.live[j] && s.parked[j] { assert!(sm::wakes(j) > w0[j],      "send: every live, parked listener is woken"); }
            }
            kani::cover!(s.live_count() == M as u32, "all listeners live"); kani::cover!(s.live_count() == 0, "no listener");
            kani::cover!(true, "end of harness reachable (vacuity guard)");
        }

        // @props C06 C09 tier=thorough
        #[kani::proof] #[kani::unwind($unw)] #[kani::stub(std::hint::spin_loop, noop)]
        fn pending_items_count_is_the_largest_backlog() {
            let (ch, s, n, _content, heads) = any_channel(false);
            assert!(ch.pending_items_count() as usize == { let mut mx = 0; let mut i = 0; while i < M { if s.live[i] && n - heads[i] > mx { mx = n - heads[i]; } i += 1; } mx }, "pending_items_count == the largest backlog among the live listeners");
            kani::cover!(true, "end of harness reachable (vacuity guard)");
        }

        // @props C09 C03 C07
        #[kani::proof] #[kani::unwind($unw)] #[kani::stub(std::hint::spin_loop, noop)]
        fn consume_yields_the_listeners_next_entry() {
            let (ch, s, n, content, heads) = any_channel(false);
            let id: u32 = kani::any(); kani::assume((id as usize) < M);
            let keep0 = sm::keep_of(&ch.streams_manager);
            match ch.consume(id) {
                Some(r) => {
                    assert!(heads[id as usize] < n,                              "consume: yields only published entries");
                    assert!(r as *const u32 == mm::slot_addr(&ch.log_queue, heads[id as usize]) && *r == content[heads[id as usize]], "consume: a reference to THE entry at the listener's cursor (stable address, unchanged content)");
                    assert!(mm::sub_state(&ch.subscribers[id as usize]).1 == heads[id as usize] + 1, "consume: that listener's cursor advances by one");
                }
                None => {
                    assert!(heads[id as usize] == n,                             "consume: None only at the end of the log");
                    assert!(mm::sub_state(&ch.subscribers[id as usize]).1 == n,  "consume on empty: cursor unchanged");
                }
            }
            let j: usize = kani::any();
            if j < M && j != id as usize { assert!(mm::sub_state(&ch.subscribers[j]).1 == heads[j], "consume: other listeners' cursors untouched"); }
            assert!(sm::arr_eq(&sm::keep_of(&ch.streams_manager), &keep0),        "a 'new events' listener is never ended by consume");
            let _ = s;
            kani::cover!(true, "end of harness reachable (vacuity guard)");
        }

        // @props C09 C07
        #[kani::proof] #[kani::unwind($unw)] #[kani::stub(std::hint::spin_loop, noop)]
        #[kani::stub(crate::streams_manager::StreamsManagerBase::sync_vacant_and_used_streams, sm::sync_model)]
        fn old_and_new_streams_partition_the_history() {
            let (ch, s, n, content, _heads) = any_channel(true);
            kani::assume(s.live_count() + 2 <= M as u32);
            if M < 2 { return; }
            let ((old_stream, old_id), (new_stream, new_id)) = ch.create_streams_for_old_and_new_events();
            assert!(old_id != new_id && (old_id as usize) < M && (new_id as usize) < M && !s.live[old_id as usize] && !s.live[new_id as usize], "two fresh, distinct stream ids");
            let (old_dyn, old_head, old_tail) = mm::sub_state(&ch.subscribers[old_id as usize]);
            let (new_dyn, new_head, _) = mm::sub_state(&ch.subscribers[new_id as usize]);
            assert!(!old_dyn && old_head == 0 && old_tail == n,                  "old stream: exactly the events before the split point [0, n)");
            assert!(new_dyn && new_head == n,                                    "new stream: exactly the events from the split point on -- none missing, none in both");
            // one more event arrives: the old stream must not see it, the new stream must
            let x: u32 = kani::any();
            assert!(ch.send(x).is_ok(),                                          "send accepted");
            let k: usize = kani::any(); kani::assume(k <= n);
            mm::set_fix_head(match &ch.subscribers[old_id as usize] { MMapMetaSubscriber::Fixed(f) => f, _ => unreachable!() }, k);
            match ch.consume(old_id) {
                Some(r) => { assert!(k < n && *r == content[k],                  "old stream yields old event #k"); }
                None => {
                    assert!(k == n,                                              "old stream finds nothing only after ALL old events, although a newer one exists");
                    assert!(!sm::keep_of(&ch.streams_manager)[old_id as usize],  "old stream ends itself on its first empty answer (no further event needed)");
                    assert!(sm::keep_of(&ch.streams_manager)[new_id as usize],   "the new stream is not ended by that");
                }
            }
            match ch.consume(new_id) { Some(r) => assert!(*r == x,               "new stream yields the event sent after the split"), None => assert!(false, "new stream must see the new event") }
            std::mem::forget(old_stream); std::mem::forget(new_stream);
            kani::cover!(true, "end of harness reachable (vacuity guard)");
        }

        // @props C10 C09
        #[kani::proof] #[kani::unwind($unw)] #[kani::stub(std::hint::spin_loop, noop)]
        #[kani::stub(crate::streams_manager::StreamsManagerBase::sync_vacant_and_used_streams, sm::sync_model)]
        fn new_events_listener_sees_nothing_sent_before() {
            let (ch, s, n, _content, _heads) = any_channel(true);
            kani::assume(s.live_count() < M as u32);
            let joined: bool = kani::any();
            let (stream, id) = if joined { ch.create_stream_for_old_and_new_events() } else { ch.create_stream_for_new_events() };
            assert!((id as usize) < M && !s.live[id as usize],                   "a fresh stream id");
            let (is_dyn, head, _) = mm::sub_state(&ch.subscribers[id as usize]);
            assert!(is_dyn && head == if joined { 0 } else { n },                "new-events listener starts after everything sent so far (a stale cursor of an earlier owner of the id is replaced); old+new starts at 0");
            if !joined { assert!(ch.consume(id).is_none(),                      "a listener created for new events yields nothing that was sent before its creation"); }
            std::mem::forget(stream);
            kani::cover!(true, "end of harness reachable (vacuity guard)");
        }

        // @props C06 C07 C04
        #[kani::proof] #[kani::unwind($unw)] #[kani::stub(std::hint::spin_loop, noop)]
        fn poll_next_drains_before_ending_and_parks_otherwise() {
            let (ch, s, n, content, heads) = any_channel(false);
            let id: u32 = kani::any(); kani::assume((id as usize) < M && s.live[id as usize]);
            let mut stream = MutinyStream::<u32, Ch, &'static u32>::new(id, &ch);
            let waker = sm::counting_waker(id as usize);
            let mut cx = Context::from_waker(&waker);
            match std::pin::Pin::new(&mut stream).poll_next(&mut cx) {
                Poll::Ready(Some(r)) => assert!(heads[id as usize] < n && *r == content[heads[id as usize]], "poll: yields the listener's next entry (even after a cancel: buffered events first)"),
                Poll::Ready(None)    => assert!(heads[id as usize] == n && !s.keep[id as usize], "poll: end-of-stream only from a poll that found nothing AND after the stream was told to end"),
                Poll::Pending        => { assert!(heads[id as usize] == n && s.keep[id as usize], "poll: Pending only if nothing is buffered and the stream was not told to end");
                                          assert!(sm::waker_is(&ch.streams_manager, id as usize, &waker), "poll: the waker is registered before Pending is answered"); }
            }
            std::mem::forget(stream);
            kani::cover!(true, "end of harness reachable (vacuity guard)");
        }
    } )* } }
    mlog_proofs! {
        cap2m2: 2, 2, 6;
        cap4m2: 4, 2, 8;
        cap4m4: 4, 4, 8;
    }
}
