// Back end K harnesses for `AtomicIncrementalAverage64` (included from /repo/src/incremental_averages.rs, so the private
// `split_joined` / `join_split` / `atomic_compute` / the union fields are reachable). All harnesses are loop-free over FULL-domain
// symbolic inputs (every u64 word, every u32 counter, every f32 bit pattern incl. NaNs / infinities where stated) => complete proofs.
// @module incremental_averages
#[allow(unused_imports)] use super::*;

#[cfg(kani)]
pub(crate) mod proofs {
    use super::*;

    /// an instance whose 64-bit word is `word` (ANY state the metric can be in)
    fn with_word(word: u64) -> AtomicIncrementalAverage64 {
        let m = AtomicIncrementalAverage64::new();
        unsafe { m.joined.store(word, Relaxed); }
        m
    }

    // ---- in-place function contracts (cfg_attr(kani, kani::ensures(..)) lines on the REAL split_joined / join_split in /repo) ----
    // @props C19 contract
    #[kani::proof_for_contract(AtomicIncrementalAverage64::split_joined)]
    fn contract_split_joined() {
        // ensures: counter == low 32 bits, average bits == high 32 bits -- for EVERY 64-bit word
        let _ = AtomicIncrementalAverage64::split_joined(kani::any());
    }

    // @props C19 contract
    #[kani::proof_for_contract(AtomicIncrementalAverage64::join_split)]
    fn contract_join_split() {
        // ensures: low 32 bits == counter, high 32 bits == average's bit pattern -- for EVERY (u32, f32 bit pattern incl. NaN / inf)
        let bits: u32 = kani::any();
        let _ = AtomicIncrementalAverage64::join_split(kani::any(), f32::from_bits(bits));
    }

    // @props C19 contract
    #[kani::proof] #[kani::unwind(2)]
    #[kani::stub_verified(AtomicIncrementalAverage64::split_joined)]
    #[kani::stub_verified(AtomicIncrementalAverage64::join_split)]
    fn atomic_compute_against_the_contracts_only() {
        // MODULAR: atomic_compute and probe are checked against the CONTRACTS of split_joined / join_split (their bodies are replaced by
        // 'any value satisfying the ensures clause'): new word = join(f(split(current word))), one successful compare-exchange, nothing else
        let w: u64 = kani::any();
        let m = with_word(w);
        let add: u32 = kani::any();
        m.atomic_compute(Relaxed, Relaxed, |c, a| (c.wrapping_add(add), a));
        let w2 = unsafe { m.joined.load(Relaxed) };
        assert!(w2 % (1u64 << 32) == ((w % (1u64 << 32)) as u32).wrapping_add(add) as u64, "atomic_compute (modular): count' = f(count) in the low half");
        assert!(w2 >> 32 == w >> 32,                                         "atomic_compute (modular): the average's bits are carried over unchanged in the high half");
        let (c, a) = m.probe();
        assert!(c as u64 == w2 % (1u64 << 32) && a.to_bits() as u64 == w2 >> 32, "probe (modular): count and average are the two halves of ONE word");
        kani::cover!(true, "end of harness reachable (vacuity guard)");
    }

    // ---- adversarial-environment harnesses (A-model inside Kani): the atomic operations of `joined` are stubbed by versions that let ANOTHER
    //      thread replace the word right before this thread's compare-exchange / that count the atomic loads ----
    static mut CAS_CALLS: u32 = 0;
    static mut CAS_OK_CUR: u64 = 0;
    static mut LOADS: u32 = 0;
    /// compare_exchange with one interfering update: before the FIRST attempt the environment may store an arbitrary word
    fn interfering_compare_exchange(a: &AtomicU64, cur: u64, new: u64, _s: Ordering, _f: Ordering) -> Result<u64, u64> {
        let cell = a as *const AtomicU64 as *mut u64;
        unsafe {
            CAS_CALLS += 1;
            if CAS_CALLS == 1 && kani::any() { *cell = kani::any(); }
            let v = *cell;
            if v == cur { *cell = new; CAS_OK_CUR = cur; Ok(v) } else { Err(v) }
        }
    }
    fn counting_load(a: &AtomicU64, _o: Ordering) -> u64 {
        unsafe { LOADS += 1; *(a as *const AtomicU64 as *const u64) }
    }

    // @props C19
    #[kani::proof] #[kani::unwind(3)]
    #[kani::stub(std::sync::atomic::Atomic::<u64>::compare_exchange, interfering_compare_exchange)]
    fn update_lost_to_nobody_when_another_thread_interferes_once() {
        // no lost update, no mixed pair: whatever word another thread installs between this thread's load and its compare-exchange, the
        // word finally installed is join(f(split(w))) for the word w that the SUCCESSFUL compare-exchange replaced -- both halves
        // recomputed from that same w (a retry that keeps a stale count or a stale average fails here)
        let w: u64 = kani::any();
        let m = with_word(w);
        m.atomic_compute(Relaxed, Relaxed, |c, a| (c.wrapping_add(1), f32::from_bits(a.to_bits() ^ 1)));
        let w2 = unsafe { *(&m.joined as *const _ as *const u64) };
        let at = unsafe { CAS_OK_CUR };
        assert!(w2 % (1u64 << 32) == ((at % (1u64 << 32)) as u32).wrapping_add(1) as u64, "retry: the count is computed from the word the successful compare-exchange replaced");
        assert!(w2 >> 32 == (at >> 32) ^ 1,                                   "retry: the average is computed from the word the successful compare-exchange replaced");
        kani::cover!(unsafe { CAS_CALLS } == 2, "the first attempt failed, the retry succeeded");
        kani::cover!(unsafe { CAS_CALLS } == 1, "no interference");
        kani::cover!(true, "end of harness reachable (vacuity guard)");
    }

    // @props C19
    #[kani::proof] #[kani::unwind(2)]
    #[kani::stub(std::sync::atomic::Atomic::<u64>::load, counting_load)]
    fn probe_is_one_atomic_load() {
        // MECHANISM: 'any reading returns a count together with the average that belonged to that same count' rests on probe() reading
        // the pair with ONE atomic 64-bit load (two 32-bit reads of the union's split view can straddle an update)
        let w: u64 = kani::any();
        let m = with_word(w);
        unsafe { LOADS = 0; }
        let (c, a) = m.probe();
        assert!(unsafe { LOADS } == 1,                                        "probe: exactly one atomic load of the joined word");
        assert!(c as u64 == w % (1u64 << 32) && a.to_bits() as u64 == w >> 32, "probe: the pair is that word's two halves");
        kani::cover!(true, "end of harness reachable (vacuity guard)");
    }

    // @props C19
    #[kani::proof]
    fn split_then_join_is_identity_on_every_word() {
        let w: u64 = kani::any();
        let (c, a) = AtomicIncrementalAverage64::split_joined(w);
        assert!(c == (w & 0xffff_ffff) as u32,                               "split: counter is the low 32 bits");
        assert!(a.to_bits() == (w >> 32) as u32,                             "split: average is the high 32 bits, bit-exact");
        assert!(AtomicIncrementalAverage64::join_split(c, a) == w,           "join(split(w)) == w for EVERY 64-bit word (no bit of either half leaks into the other)");
        kani::cover!(true, "end of harness reachable (vacuity guard)");
    }

    // @props C19
    #[kani::proof]
    fn join_then_split_is_identity_on_every_pair() {
        let c: u32 = kani::any();
        let bits: u32 = kani::any();
        let a = f32::from_bits(bits);
        let (c2, a2) = AtomicIncrementalAverage64::split_joined(AtomicIncrementalAverage64::join_split(c, a));
        assert!(c2 == c,                                                     "split(join(c, a)).counter == c for every counter");
        assert!(a2.to_bits() == bits,                                        "split(join(c, a)).average is bit-identical to a (incl. negative sentinels, NaN, inf)");
        kani::cover!(true, "end of harness reachable (vacuity guard)");
    }

    // @props C19
    #[kani::proof] #[kani::unwind(2)]
    fn probe_reads_one_word() {
        // a reading returns the count together with the average that is stored in the SAME word
        let w: u64 = kani::any();
        let m = with_word(w);
        let (c, a) = m.probe();
        assert!(c == (w & 0xffff_ffff) as u32 && a.to_bits() == (w >> 32) as u32, "probe: both halves come from one 64-bit load of the current word");
        assert!(unsafe { m.joined.load(Relaxed) } == w,                      "probe: changes nothing");
        kani::cover!(true, "end of harness reachable (vacuity guard)");
    }

    // @props C19 C11
    #[kani::proof] #[kani::unwind(2)]
    fn inc_counts_exactly_one_from_any_count() {
        // inductive step for "every recorded measurement is counted exactly once": from ANY count (all 2^32) one inc() moves the count
        // by exactly one (or to 101 at the documented u32::MAX reset); the loop runs once when nobody interferes (unwinding assertion).
        // The measurement / previous average range over a small set incl. the -1.0 "no timing" sentinel (symbolic f32 division is
        // beyond CBMC's float solver within the time budget: measured > 900 s)
        let c: u32 = kani::any();
        let avgs = [0.0f32, -1.0, 0.5, 1024.0];
        let xs = [-1.0f32, 0.0, 0.25, 3.0e6];
        let i: usize = kani::any(); let j: usize = kani::any();
        kani::assume(i < 4 && j < 4);
        let (avg, x) = (avgs[i], xs[j]);
        let m = with_word(AtomicIncrementalAverage64::join_split(c, avg));
        m.inc(x);
        let (c2, a2) = m.probe();
        if c != u32::MAX {
            assert!(c2 == c + 1,                                             "inc: count + 1, exactly");
            if c == 0 { assert!(a2 == x,                                     "inc: the first measurement IS the average"); }
        } else {
            assert!(c2 == 101,                                               "inc at the documented u32::MAX reset: count restarts at 100 + 1");
        }
        assert!(!a2.is_nan(),                                                "inc: finite inputs never produce NaN");
        kani::cover!(c == 0, "first measurement");
        kani::cover!(c == u32::MAX, "reset");
        kani::cover!(true, "end of harness reachable (vacuity guard)");
    }

    // @props C19
    #[kani::proof] #[kani::unwind(2)]
    fn inc_average_step_is_the_incremental_mean() {
        // average' = (n/(n+1))*average + x/(n+1), stored in the same word as n+1 -- for small n and quarter-integer values where every
        // f32 operation involved is exact enough to compare with the closed form (n*average + x)/(n+1) at a tolerance of 1e-3
        let n: u8 = kani::any(); kani::assume(n < 8);
        let a4: i8 = kani::any(); let x4: i8 = kani::any();
        kani::assume(a4 >= -40 && a4 <= 40 && x4 >= -40 && x4 <= 40);
        let (avg, x) = (a4 as f32 / 4.0, x4 as f32 / 4.0);
        let m = with_word(AtomicIncrementalAverage64::join_split(n as u32, avg));
        m.inc(x);
        let (c2, a2) = m.probe();
        let mean = (n as f32 * avg + x) / (n as f32 + 1.0);
        assert!(c2 == n as u32 + 1,                                          "count + 1");
        assert!((a2 - mean).abs() <= 1.0e-3,                                 "average' equals the arithmetic-mean update (n*average + x)/(n+1) within 1e-3");
        kani::cover!(true, "end of harness reachable (vacuity guard)");
    }

    // @props C19
    #[kani::proof] #[kani::unwind(2)]
    fn inc_average_step_is_the_incremental_mean_at_large_counts() {
        // the same step where the count no longer fits f32's 24-bit mantissa ("counts below the documented u32::MAX reset"): the weight of
        // the new measurement must still be 1/(n+1) -- compared with the closed form evaluated in f64, relative tolerance 1e-3.
        // Counts / values range over small sets (symbolic f32 division: see inc_counts_exactly_one_from_any_count)
        let ns = [(1u32 << 24) - 1, 1 << 24, (1 << 24) + 3, 1 << 30, u32::MAX - 1];
        let avgs = [0.0f32, 1.0];
        let xs = [-1.0f32, 0.0, 3.0e6, 1073741824.0];
        let k: usize = kani::any(); let i: usize = kani::any(); let j: usize = kani::any();
        kani::assume(k < 5 && i < 2 && j < 4);
        let (n, avg, x) = (ns[k], avgs[i], xs[j]);
        let m = with_word(AtomicIncrementalAverage64::join_split(n, avg));
        m.inc(x);
        let (c2, a2) = m.probe();
        let mean = (n as f64 * avg as f64 + x as f64) / (n as f64 + 1.0);
        let tolerance = if mean.abs() > 1.0 { mean.abs() * 1.0e-3 } else { 1.0e-3 };
        assert!(c2 == n + 1,                                                 "count + 1");
        assert!((a2 as f64 - mean).abs() <= tolerance,                       "large counts: average' equals (n*average + x)/(n+1) within 1e-3 (relative)");
        kani::cover!(k == 3 && j == 3, "count 2^30, measurement 2^30");
        kani::cover!(true, "end of harness reachable (vacuity guard)");
    }

    // @props C19
    #[kani::proof] #[kani::unwind(2)]
    fn mean_of_two_and_three_is_exact_on_small_integers() {
        // sanity anchor for the "arithmetic mean" reading on inputs where f32 is exact: two / four equal-weight integer measurements
        let m = AtomicIncrementalAverage64::new();
        let x: i8 = kani::any(); let y: i8 = kani::any();
        m.inc(x as f32);
        m.inc(y as f32);
        let (c, a) = m.probe();
        assert!(c == 2,                                                      "two measurements counted");
        assert!(a == (x as f32 + y as f32) / 2.0,                            "average of two small integers is their exact mean");
        kani::cover!(true, "end of harness reachable (vacuity guard)");
    }

    // @props C19
    #[kani::proof] #[kani::unwind(2)]
    fn atomic_compute_applies_the_computation_to_the_current_pair_once() {
        let w: u64 = kani::any();
        let m = with_word(w);
        let add: u32 = kani::any();
        let (c0, a0) = AtomicIncrementalAverage64::split_joined(w);
        m.atomic_compute(Relaxed, Relaxed, |c, a| (c.wrapping_add(add), a));
        let (c1, a1) = m.probe();
        assert!(c1 == c0.wrapping_add(add) && a1.to_bits() == a0.to_bits(),  "atomic_compute: new word = join(f(split(current word))), applied exactly once");
        kani::cover!(true, "end of harness reachable (vacuity guard)");
    }
}
