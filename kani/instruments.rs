// Back end K harnesses for `Instruments` (included from /repo/src/instruments.rs). Loop-free over EVERY usize => complete proofs.
// @module instruments
#[allow(unused_imports)] use super::*;

#[cfg(kani)]
pub(crate) mod proofs {
    use super::*;

    // @props C11
    #[kani::proof]
    fn metrics_iff_cheap_profiling() {
        // the executors guard their counters with cheap_profiling() while the property speaks of "metrics enabled": the two predicates
        // must coincide for every instrumentation value (this is the fact the V unit executor_items assumes)
        let bits: usize = kani::any();
        let i = Instruments::from(bits);
        assert!(i.into() == bits,                                           "from/into round trip on every usize");
        assert!(i.metrics() == i.cheap_profiling(),                          "metrics() == cheap_profiling() for every instrumentation value");
        assert!(i.metrics() == (bits & 0b1111 != 0),                         "metrics <=> any of COUNTERS|SATURATION|CHEAP_PROFILING|EXPENSIVE_PROFILING");
        assert!(!i.tracing() || i.logging(),                                 "tracing implies logging");
        kani::cover!(i.metrics(), "metrics on"); kani::cover!(!i.metrics(), "metrics off");
        kani::cover!(true, "end of harness reachable (vacuity guard)");
    }

    // @props C11
    #[kani::proof]
    fn named_variants_enable_what_they_say() {
        assert!(!Instruments::NoInstruments.metrics() && !Instruments::NoInstruments.logging(), "NoInstruments: nothing");
        assert!(Instruments::LogsWithMetrics.metrics() && Instruments::LogsWithMetrics.logging(), "LogsWithMetrics: both");
        assert!(Instruments::MetricsWithoutLogs.metrics() && !Instruments::MetricsWithoutLogs.logging(), "MetricsWithoutLogs");
        assert!(!Instruments::LogsWithoutMetrics.metrics() && Instruments::LogsWithoutMetrics.logging(), "LogsWithoutMetrics");
        kani::cover!(true, "end of harness reachable (vacuity guard)");
    }
}
