// Back end K cannot compile harnesses that reach `parking_lot::RawMutex` (kani-compiler 0.68 ICE in intrinsics.rs:243 on an intrinsic
// used by parking_lot_core); the parking-lot stack is therefore decided by back end V only (unit `stacks`), where the mutex is a shim
// with the lock contract of DESIGN §3.4. This file is intentionally empty of harnesses.
