import sys
# NOTE: /verif/kani/non_blocking_atomic_stack.rs has since been extended BY HAND (pop_result_is_fixed_inside_the_critical_section); re-running this generator would drop that harness
def gen(kind):
    mod = f"ogre_std::ogre_stacks::{kind}"
    lockfree = "!s.flag.load(std::sync::atomic::Ordering::SeqCst)" if kind=="non_blocking_atomic_stack" else "!s.concurrency_guard.is_locked()"
    return f'''// Back end K harnesses for the stand-alone `{kind}::Stack` (included from /repo/src/ogre_std/ogre_stacks/{kind}.rs).
// Inductive step from an ARBITRARY state (any head <= N, any buffer content): one push / pop of the REAL code against the LIFO model.
// @module {mod}
// @sizes stack_proofs: n2=quick n4=quick n8=thorough
#[allow(unused_imports)] use super::*;

#[cfg(kani)]
pub(crate) mod proofs {{
    use super::*;
    /// `_mm_pause` is not modelled by Kani; a spin hint has no effect on program state
    pub(crate) fn noop() {{}}

    // @group stack_proofs
    macro_rules! stack_proofs {{ ($($modname:ident: $n:expr;)*) => {{ $( mod $modname {{
        use super::*;
        const N: usize = $n;
        type S = Stack<u32, N, true, false>;

        /// the real constructor, then ANY abstract state: `h` elements `content[0..h)` (bottom..top); slots above are arbitrary garbage
        fn any_stack() -> (S, u32, [u32; N]) {{
            let mut s = S::new(String::new());
            let h: u32 = kani::any(); kani::assume(h <= N as u32);
            let content: [u32; N] = kani::any();
            s.head = h;
            s.buffer = content;
            (s, h, content)
        }}

        // @props C18
        #[kani::proof] #[kani::unwind(3)] #[kani::stub(std::hint::spin_loop, noop)]
        fn push_is_lifo_push() {{
            let (s, h, content) = any_stack();
            let x: u32 = kani::any();
            let ok = s.push(x);
            assert!({lockfree},                                               "push: the lock is released on every exit");
            let k: usize = kani::any();
            if h < N as u32 {{
                assert!(ok,                                                  "push below capacity: accepted ('full' only if all slots are taken)");
                assert!(s.head == h + 1 && s.len() == h as usize + 1,        "push: exactly one more element");
                assert!(s.buffer[h as usize] == x,                           "push: the element is on top");
                if k < h as usize {{ assert!(s.buffer[k] == content[k],      "push: elements below untouched (nothing lost)"); }}
            }} else {{
                assert!(!ok,                                                 "push at capacity: answers full");
                assert!(s.head == h,                                         "push refused: size unchanged");
                if k < N {{ assert!(s.buffer[k] == content[k],               "push refused: content unchanged"); }}
            }}
            kani::cover!(h == 0, "push on empty"); kani::cover!(h == N as u32, "push on full");
            kani::cover!(true, "end of harness reachable (vacuity guard)");
        }}

        // @props C18
        #[kani::proof] #[kani::unwind(3)] #[kani::stub(std::hint::spin_loop, noop)]
        fn pop_is_lifo_pop() {{
            let (s, h, content) = any_stack();
            let got = s.pop();
            assert!({lockfree},                                               "pop: the lock is released on every exit");
            let k: usize = kani::any();
            match got {{
                Some(v) => {{
                    assert!(h > 0,                                           "pop: yields only if something was pushed");
                    assert!(v == content[h as usize - 1],                    "pop: yields the LAST pushed element (LIFO), nothing that was not pushed");
                    assert!(s.head == h - 1 && s.len() == h as usize - 1,    "pop: that element is gone (not returned twice)");
                    if k < N && k + 1 < h as usize {{ assert!(s.buffer[k] == content[k], "pop: elements below untouched"); }}
                }}
                None => {{
                    assert!(h == 0,                                          "pop: 'empty' only if the stack is empty");
                    assert!(s.head == 0 && s.is_empty(),                     "pop on empty: unchanged");
                }}
            }}
            kani::cover!(h == 0, "pop on empty"); kani::cover!(h == N as u32, "pop on full");
            kani::cover!(true, "end of harness reachable (vacuity guard)");
        }}

        // @props C18
        #[kani::proof] #[kani::unwind(3)] #[kani::stub(std::hint::spin_loop, noop)]
        fn push_then_pop_returns_it_and_restores() {{
            let (s, h, content) = any_stack();
            kani::assume(h < N as u32);
            let x: u32 = kani::any();
            assert!(s.push(x),                                               "push below capacity accepted");
            assert!(s.pop() == Some(x),                                      "pop right after push returns that element");
            assert!(s.head == h,                                             "size restored");
            let k: usize = kani::any();
            if k < h as usize {{ assert!(s.buffer[k] == content[k],          "content below restored"); }}
            kani::cover!(true, "end of harness reachable (vacuity guard)");
        }}

        // @props C18
        #[kani::proof] #[kani::unwind(12)] #[kani::stub(std::hint::spin_loop, noop)]
        fn fresh_stack_is_empty_and_holds_exactly_n() {{
            let s = S::new(String::new());
            assert!(s.is_empty() && s.len() == 0 && s.pop().is_none(),       "new: empty");
            let mut i = 0u32;
            while i < N as u32 {{ assert!(s.push(i),                          "new: accepts N elements"); i += 1; }}
            assert!(!s.push(99),                                             "new: the (N+1)-th push answers full");
            assert!(s.pop() == Some(N as u32 - 1),                           "LIFO");
            kani::cover!(true, "end of harness reachable (vacuity guard)");
        }}
    }} )* }} }}
    stack_proofs! {{
        n2: 2;
        n4: 4;
        n8: 8;
    }}
}}
'''
for k in ("non_blocking_atomic_stack",):
    open(f"/verif/kani/{k}.rs","w").write(gen(k))
