#!/usr/bin/env python3
"""Generates /verif/kani/multi_*.rs (the four non-crossbeam, non-log Multi channel harness files) from one template; see gen_uni.py."""
import os
HERE = os.path.dirname(os.path.abspath(__file__))

def glue(kind, ring):
    """kind: arc | ogre_arc ; ring: atomic | full_sync"""
    Ring = "AtomicMove" if ring == "atomic" else "FullSyncMove"
    rh = "am" if ring == "atomic" else "fs"
    Ch = "Atomic" if ring == "atomic" else "FullSync"
    setc = "am::set_counters(&q, am::RingState { origin: origins[j], len: 0, resv: 0 });" if ring == "atomic" else "fs::set_counters(&q, fs::FsState { origin: origins[j], len: 0 });"
    quiescent = "am::is_quiescent(q)" if ring == "atomic" else "!fs::locked(q)"
    uses = ("#[allow(unused_imports)] use crate::ogre_std::ogre_queues::atomic::atomic_move::{AtomicMove, verif_hooks as am};\n"
            "#[allow(unused_imports)] use crate::ogre_std::ogre_queues::full_sync::full_sync_move::{FullSyncMove, verif_hooks as fs};\n"
            "#[allow(unused_imports)] use crate::ogre_std::ogre_alloc::ogre_array_pool_allocator::{OgreArrayPoolAllocator, verif_hooks as pa};\n"
            "#[allow(unused_imports)] use crate::ogre_std::ogre_alloc::ogre_arc::verif_hooks as oa;")
    if kind == "arc":
        ty, tyc = f"{Ch}<'static, u32, N, M>", f"{Ch}<'static, u32, $n, $m>"
        handle = "Arc<u32>"
        field = "channels"
        build = f"""        let _ = pool_origin;
        let channels: [{Ring}<Arc<u32>, N>; M] = std::array::from_fn(|j| {{
            let q = {Ring}::<Arc<u32>, N>::with_initializer(|| unsafe {{ let mut slot = MaybeUninit::<Arc<u32>>::uninit(); slot.as_mut_ptr().write_bytes(1u8, 1); slot.assume_init() }});   // same filler as the real `new()`
            {setc}
            q
        }});
        Arc::new(Self {{ streams_manager: manager, channels, _phanrom: PhantomData }})"""
        allocation_of = "Arc::as_ptr(d) as *const ()"; handles_of = "Arc::strong_count(d) as u32"; free_slots = "u32::MAX"; reserved = "false"
        pooltype = ""
    else:
        pooltype = f"#[allow(dead_code)] pub(crate) type Pool<const N: usize> = OgreArrayPoolAllocator<u32, {Ring}<u32, N>, N>;\n"
        ty, tyc = f"{Ch}<'static, u32, Pool<N>, N, M>", f"{Ch}<'static, u32, Pool<$n>, $n, $m>"
        handle = "OgreArc<u32, Pool<N>>"
        field = "dispatcher_managers"
        build = f"""        let allocator = Pool::<N>::new();
        let mut perm = [0u32; N]; let mut i = 0; while i < N {{ perm[i] = i as u32; i += 1; }}
        pa::force_pool(&allocator, &pa::PoolState {{ origin: pool_origin, free: N as u32, perm }});
        let dispatcher_managers: [{Ring}<OgreArc<u32, Pool<N>>, N>; M] = std::array::from_fn(|j| {{
            let q = {Ring}::<OgreArc<u32, Pool<N>>, N>::with_initializer(|| unsafe {{ let mut slot = MaybeUninit::<OgreArc<u32, Pool<N>>>::uninit(); slot.as_mut_ptr().write_bytes(1u8, 1); slot.assume_init() }});   // same filler as the real `new()`
            {setc}
            q
        }});
        Arc::new(Self {{ streams_manager: manager, allocator, dispatcher_managers, _phanrom: PhantomData }})"""
        allocation_of = "oa::inner_ptr(d)"; handles_of = "d.references_count()"; free_slots = "pa::free_count(&self.allocator)"; reserved = "true"
    return dict(module=f"multi::channels::{kind}::{ring}", ty=ty, tyc=tyc, handle=handle, uses=uses, pooltype=pooltype, build=build, field=field, rh=rh,
                allocation_of=allocation_of, handles_of=handles_of, free_slots=free_slots, reserved=reserved, quiescent=quiescent, kind=kind)

CHANNELS = {f"multi_{k}_{r}": glue(k, r) for k in ("arc", "ogre_arc") for r in ("atomic", "full_sync")}

HARNESSES = [  # (fn, props, call, pooled_only, stub_sync, thorough_only)
 ("send_fanout",                       "C03 C04 C06",       "kit::multi_fanout::<Ch, $n, $m>(Entry::Send)", False, False),
 ("send_with_fanout",                  "C03 C04 tier=thorough",       "kit::multi_fanout::<Ch, $n, $m>(Entry::SendWith)", False, False),
 ("send_with_async_fanout",            "C03 C04 tier=thorough",       "kit::multi_fanout::<Ch, $n, $m>(Entry::SendWithAsync)", False, False),
 ("try_send_reserved_fanout",          "C03 C04 C08",   "kit::multi_fanout::<Ch, $n, $m>(Entry::Reserved)", True, False),
 ("payload_released_after_last_listener", "C05 C14 C03", "kit::multi_payload_released_after_last_listener::<Ch, $n, $m>()", False, False),
 ("new_listener_sees_nothing_old",     "C10",           "kit::multi_new_listener_sees_nothing_old::<Ch, $n, $m>()", False, True),
 ("rejected_send_changes_nothing",     "C16",           "kit::multi_rejected_send_changes_nothing::<Ch, $n, $m>(Entry::Send)", True, False),
 ("rejected_send_with_changes_nothing","C16 tier=thorough",           "kit::multi_rejected_send_changes_nothing::<Ch, $n, $m>(Entry::SendWith)", True, False),
 ("teardown_with_buffered_events",     "C05",           "kit::multi_teardown_with_buffered_events::<Ch, $n, $m>()", False, False),
 ("suspended_async_send_blocks_nobody","C20 spin=violation tier=thorough", "kit::multi_suspended_async_send_blocks_nobody::<Ch, $n, $m>()", False, False),
 ("reserved_slot",                     "C08",           "kit::multi_reserved_slot::<Ch, $n, $m>()", True, False),
]

def gen(name, g):
    hs = []
    for fn, props, call, pooled_only, stub_sync in HARNESSES:
        if pooled_only and g["kind"] != "ogre_arc":
            continue
        stub = "\n        #[kani::stub(crate::streams_manager::StreamsManagerBase::sync_vacant_and_used_streams, sm::sync_model)]" if stub_sync else ""
        hs.append(f"        // @props {props}\n        #[kani::proof] #[kani::unwind($unw)] #[kani::stub(std::hint::spin_loop, noop)]{stub}\n        fn {fn}() {{ {call} }}")
    return f"""// GENERATED by /verif/kani/gen/gen_multi.py -- do not edit by hand.
// Back end K harnesses for the Multi channel `{g['module']}` (REAL struct, built field by field: per-listener queues empty at arbitrary
// ring origins, any set of live listeners). The obligations are the generic ones of /verif/kani/mutiny_stream.rs (`kit`).
{'// reserve_slot / try_send_reserved / try_cancel_slot_reserve `panic!` upstream for this channel (not implemented): no reserved-slot harnesses.' if g['kind'] == 'arc' else ''}
// @module {g['module']}
// @sizes multi_proofs: n2m1={'quick' if g['kind'] == 'arc' else 'thorough'} n2m2={'thorough' if g['kind'] == 'arc' else 'extended'} n4m2=extended
// @jobs 5 thorough=2
#[allow(unused_imports)] use super::*;
#[allow(unused_imports)] use crate::mutiny_stream::verif_hooks::{{self as ms, MultiModel, Entry}};
#[allow(unused_imports)] use crate::streams_manager::verif_hooks as sm;
{g['uses']}
{g['pooltype']}
impl<const N: usize, const M: usize> MultiModel<N, M> for {g['ty']} {{
    type Derived = {g['handle']};
    fn build(manager: StreamsManagerBase<M>, origins: [u32; M], pool_origin: u32) -> Arc<Self> {{
{g['build']}
    }}
    fn manager(&self) -> &StreamsManagerBase<M> {{ &self.streams_manager }}
    fn payload_of(d: &Self::Derived) -> u32 {{ **d }}
    fn allocation_of(d: &Self::Derived) -> *const () {{ {g['allocation_of']} }}
    fn handles_of(d: &Self::Derived) -> u32 {{ {g['handles_of']} }}
    fn queue_len(&self, listener: usize) -> u32 {{ {g['rh']}::head_len(&self.{g['field']}[listener]).1 }}
    fn queue_item(&self, listener: usize, k: u32) -> &Self::Derived {{
        let q = &self.{g['field']}[listener];
        let (head, _len) = {g['rh']}::head_len(q);
        unsafe {{ &(*{g['rh']}::raw_buffer(q))[head.wrapping_add(k) as usize % N] }}
    }}
    fn queues_quiescent(&self) -> bool {{ let mut j = 0; while j < M {{ let q = &self.{g['field']}[j]; if !({g['quiescent']}) {{ return false; }} j += 1; }} true }}
    fn free_slots(&self) -> u32 {{ {g['free_slots']} }}
    const HAS_RESERVED: bool = {g['reserved']};
}}

#[cfg(kani)]
pub(crate) mod proofs {{
    use super::*;
    use ms::kit;
    /// `_mm_pause` is not modelled by Kani; a spin hint has no effect on program state
    pub(crate) fn noop() {{}}

    // @group multi_proofs
    macro_rules! multi_proofs {{ ($($modname:ident: $n:expr, $m:expr, $unw:expr;)*) => {{ $( mod $modname {{
        use super::*;
        type Ch = {g['tyc']};

{chr(10).join(hs)}
    }} )* }} }}
    multi_proofs! {{
        n2m1: 2, 1, 6;
        n2m2: 2, 2, 6;
        n4m2: 4, 2, 8;
    }}
}}
"""

for name, g in CHANNELS.items():
    with open(os.path.join(HERE, "..", name + ".rs"), "w") as f:
        f.write(gen(name, g))
    print("wrote", name)
