#!/usr/bin/env python3
"""Generates /verif/kani/uni_*.rs (the four non-crossbeam Uni channel harness files) from one template: the harness list is
identical for every channel (the obligations are the generic `kit` functions of kani/mutiny_stream.rs); only the glue that builds
the REAL channel struct in a given abstract state differs. Re-run after editing; the generated files are committed."""
import os
HERE = os.path.dirname(os.path.abspath(__file__))

GLUE = {
 "uni_movable_atomic": dict(
   module="uni::channels::movable::atomic", ty="Atomic<'static, u32, N, M>", tyc="Atomic<'static, u32, $n, $m>", derived="u32", reserved=True,
   uses="#[allow(unused_imports)] use crate::ogre_std::ogre_queues::atomic::atomic_move::verif_hooks::{self as am, RingModel};",
   build="""        let channel = AtomicMove::<u32, N>::new();
        let mut content = [0u32; N];
        let mut k = 0; while k < N { content[(origin as usize).wrapping_add(k) % N] = payloads[k]; k += 1; }
        let _ = origin2;
        channel.force(origin, len, content);
        Arc::new(Self { streams_manager: manager, channel, _phantom: PhantomData })""",
   manager="&self.streams_manager", payload_of="*d",
   pending="self.channel.snapshot().1", pending_payload="self.channel.seq_at(k)", quiescent="self.channel.quiescent()",
   capacity_left="{ let (h, _dh, _t, et) = am::counters(&self.channel); N as u32 - et.wrapping_sub(h) }"),
 "uni_movable_full_sync": dict(
   module="uni::channels::movable::full_sync", ty="FullSync<'static, u32, N, M>", tyc="FullSync<'static, u32, $n, $m>", derived="u32", reserved=False,
   uses="#[allow(unused_imports)] use crate::ogre_std::ogre_queues::atomic::atomic_move::verif_hooks::RingModel;",
   build="""        let container = FullSyncMove::<u32, N>::new();
        let mut content = [0u32; N];
        let mut k = 0; while k < N { content[(origin as usize).wrapping_add(k) % N] = payloads[k]; k += 1; }
        let _ = origin2;
        container.force(origin, len, content);
        Arc::new(Self { streams_manager: Arc::new(manager), container: Box::pin(container), _phanrom: PhantomData })""",
   manager="&self.streams_manager", payload_of="*d",
   pending="self.container.snapshot().1", pending_payload="self.container.seq_at(k)", quiescent="self.container.quiescent()",
   capacity_left="N as u32 - self.container.snapshot().1"),
 "uni_zero_copy_atomic": dict(
   module="uni::channels::zero_copy::atomic", ty="Atomic<'static, u32, zc::Pool<N>, N, M>", tyc="Atomic<'static, u32, zc::Pool<$n>, $n, $m>", derived="OgreUnique<u32, zc::Pool<N>>", reserved=True,
   uses="#[allow(unused_imports)] use crate::ogre_std::ogre_queues::atomic::atomic_zero_copy::verif_hooks as zc;\n#[allow(unused_imports)] use crate::ogre_std::ogre_alloc::ogre_array_pool_allocator::verif_hooks as pa;\n#[allow(unused_imports)] use crate::ogre_std::ogre_queues::atomic::atomic_move::verif_hooks::RingModel;",
   build="""        // Channel level: the pending events are pool ids 0..len (in order), the free list holds ids len..N (in order); both ring
        // origins are FIXED just below the 32-bit wrap (the container level, kani/*_zero_copy.rs, is verified for EVERY origin and EVERY
        // permutation; keeping them symbolic here as well made CBMC exhaust memory)
        let _ = (origin, origin2);
        let channel = zc::Zc::<N>::new();
        let mut perm = [0u32; N]; let mut i = 0; while i < N { perm[i] = (len + i as u32) % N as u32; i += 1; }
        let s = zc::ZcState::<N> { pool: pa::PoolState { origin: u32::MAX, free: N as u32 - len, perm }, q_origin: u32::MAX - 1, qn: len };
        zc::force_zc(&channel, &s);
        unsafe { *(pa::pool_base(&*channel.allocator) as *mut [u32; N]) = payloads; }
        Arc::new(Self { streams_manager: manager, channel, _phantom: PhantomData })""",
   manager="&self.streams_manager", payload_of="**d",
   pending="zc::pending(&self.channel)", pending_payload="zc::pending_payload(&self.channel, k)", quiescent="zc::quiescent(&self.channel)",
   capacity_left="pa::free_count(&*self.channel.allocator)"),
}
GLUE["uni_zero_copy_full_sync"] = dict(GLUE["uni_zero_copy_atomic"],
   module="uni::channels::zero_copy::full_sync", ty="FullSync<'static, u32, zc::Pool<N>, N, M>", tyc="FullSync<'static, u32, zc::Pool<$n>, $n, $m>",
   uses=GLUE["uni_zero_copy_atomic"]["uses"].replace("atomic::atomic_zero_copy", "full_sync::full_sync_zero_copy"),
   build=GLUE["uni_zero_copy_atomic"]["build"].replace("Arc::new(Self { streams_manager: manager, channel, _phantom: PhantomData })",
                                                      "Arc::new(Self { streams_manager: Arc::new(manager), channel, _phantom: PhantomData })"))

HARNESSES = [  # (fn name, props tags, kit call, needs reserved-slot API)
 ("send_accept_or_reject",                 "C01 C02 C16 C15",  "kit::uni_accept_or_reject::<Ch, $n, $m>(Entry::Send)", False),
 ("send_with_accept_or_reject",            "C01 C02 C16 C15",  "kit::uni_accept_or_reject::<Ch, $n, $m>(Entry::SendWith)", False),
 ("send_with_async_accept_or_reject",      "C01 C16",          "kit::uni_accept_or_reject::<Ch, $n, $m>(Entry::SendWithAsync)", False),
 ("reserved_accept_or_reject",             "C01 C08 C16",      "kit::uni_accept_or_reject::<Ch, $n, $m>(Entry::Reserved)", True),
 ("consume_fifo",                          "C01 C02",          "kit::uni_consume_fifo::<Ch, $n, $m>()", False),
 ("send_wakes_parked_stream",              "C04",              "kit::uni_empty_to_nonempty_wakes::<Ch, $n, $m>(Entry::Send)", False),
 ("send_with_wakes_parked_stream",         "C04",              "kit::uni_empty_to_nonempty_wakes::<Ch, $n, $m>(Entry::SendWith)", False),
 ("send_with_async_wakes_parked_stream",   "C04",              "kit::uni_empty_to_nonempty_wakes::<Ch, $n, $m>(Entry::SendWithAsync)", False),
 ("try_send_reserved_wakes_parked_stream", "C04",              "kit::uni_empty_to_nonempty_wakes::<Ch, $n, $m>(Entry::Reserved)", True),
 ("poll_next",                             "C06 C07 C04",      "kit::uni_poll_next::<Ch, $n, $m>()", False),
 ("suspended_async_send_holds_nothing",    "C20",              "kit::uni_suspended_async_send_holds_nothing::<Ch, $n, $m>()", False),
 ("suspended_async_send_blocks_nobody",    "C20 spin=violation", "kit::uni_suspended_async_send_blocks_nobody::<Ch, $n, $m>()", False),
 ("resumed_async_send_wakes",              "C04 C20",          "kit::uni_resumed_async_send_wakes::<Ch, $n, $m>()", False),
 ("reserved_slot",                         "C08",              "kit::uni_reserved_slot::<Ch, $n, $m>()", True),
 ("stream_ids_recycle",                    "C10",              "kit::uni_stream_ids_recycle::<Ch, $n, $m>()", False),
]

MOVABLE_SIZES = dict(sizes_tag="// @sizes uni_proofs: n2m1=quick n4m2=quick n8m2=thorough n4m4=thorough",
                     sizes="        n2m1: 2, 1, 5;\n        n4m2: 4, 2, 7;\n        n8m2: 8, 2, 11;\n        n4m4: 4, 4, 7;")
# the zero-copy channels (pool + id ring + manager + wakers in one harness) cost CBMC 200-700 s and 3-6 GB per harness:
# one small instantiation with MAX_STREAMS = 2 in the quick tier, run with limited parallelism
ZC_SIZES = dict(sizes_tag="// @sizes uni_proofs: n2m2=quick n2m1=thorough n4m2=thorough\n// @jobs 4",
                sizes="        n2m2: 2, 2, 5;\n        n2m1: 2, 1, 5;\n        n4m2: 4, 2, 7;")
for _n, _g in GLUE.items():
    _g.update(ZC_SIZES if "zero_copy" in _n else MOVABLE_SIZES)
    _g["symbolic_manager"] = "false" if "zero_copy" in _n else "true"

def gen(name, g):
    hs = []
    for fn, props, call, needs_reserved in HARNESSES:
        if needs_reserved and not g["reserved"]:
            continue
        if fn == "resumed_async_send_wakes" and name == "uni_movable_full_sync":
            continue     # the consumer cannot even run while that channel's send is suspended (queue-wide lock held: the recorded C20 finding)
        stub = "\n        #[kani::stub(crate::streams_manager::StreamsManagerBase::sync_vacant_and_used_streams, sm::sync_model)]" if fn == "stream_ids_recycle" else ""
        if "zero_copy" in name and fn not in ("send_wakes_parked_stream", "send_with_wakes_parked_stream", "send_with_async_wakes_parked_stream",
                                              "try_send_reserved_wakes_parked_stream", "suspended_async_send_holds_nothing", "suspended_async_send_blocks_nobody"):
            props += " tier=thorough"
        hs.append(f"        // @props {props}\n        #[kani::proof] #[kani::unwind($unw)] #[kani::stub(std::hint::spin_loop, noop)]{stub}\n        fn {fn}() {{ {call} }}")
    return f"""// GENERATED by /verif/kani/gen/gen_uni.py -- do not edit by hand.
// Back end K harnesses for the Uni channel `{g['module']}` (REAL struct, built field by field in an arbitrary abstract state).
// The obligations are the generic ones of /verif/kani/mutiny_stream.rs (`kit`); this file only supplies the state glue.
{'// `reserve_slot` / `try_send_reserved` / `try_cancel_slot_reserve` are `unimplemented!()` upstream for this channel: no reserved-slot harnesses.' if not g['reserved'] else ''}
// @module {g['module']}
{g['sizes_tag']}
#[allow(unused_imports)] use super::*;
#[allow(unused_imports)] use crate::mutiny_stream::verif_hooks::{{self as ms, UniModel, Entry}};
#[allow(unused_imports)] use crate::streams_manager::verif_hooks as sm;
{g['uses']}

impl<const N: usize, const M: usize> UniModel<N, M> for {g['ty']} {{
    type Derived = {g['derived']};
    fn build(manager: StreamsManagerBase<M>, origin: u32, origin2: u32, len: u32, payloads: [u32; N]) -> Arc<Self> {{
{g['build']}
    }}
    fn manager(&self) -> &StreamsManagerBase<M> {{ {g['manager']} }}
    fn payload_of(d: &Self::Derived) -> u32 {{ {g['payload_of']} }}
    fn pending(&self) -> u32 {{ {g['pending']} }}
    fn pending_payload(&self, k: u32) -> u32 {{ {g['pending_payload']} }}
    fn quiescent(&self) -> bool {{ {g['quiescent']} }}
    fn capacity_left(&self) -> u32 {{ {g['capacity_left']} }}
    const SYMBOLIC_MANAGER: bool = {g['symbolic_manager']};
}}

#[cfg(kani)]
pub(crate) mod proofs {{
    use super::*;
    use ms::kit;
    /// `_mm_pause` is not modelled by Kani; a spin hint has no effect on program state
    pub(crate) fn noop() {{}}

    // @group uni_proofs
    macro_rules! uni_proofs {{ ($($modname:ident: $n:expr, $m:expr, $unw:expr;)*) => {{ $( mod $modname {{
        use super::*;
        type Ch = {g['tyc']};

{chr(10).join(hs)}
    }} )* }} }}
    uni_proofs! {{
{g['sizes']}
    }}
}}
"""

for name, g in GLUE.items():
    with open(os.path.join(HERE, "..", name + ".rs"), "w") as f:
        f.write(gen(name, g))
    print("wrote", name)
