// Back end K harnesses for `FullSyncMove` (included from /repo/src/ogre_std/ogre_queues/full_sync/full_sync_move.rs
// through the `verif_hooks` module; `super::*` is the real module, private fields included).
//
// Inductive step over the representation invariant
//     Inv(q):  tail (-) head == |seq| <= N ;  concurrency_guard == false (no critical section in progress)
// from ANY u32 origin, any fill level, any payloads. Every harness also asserts the lock state the operation leaves
// behind (LK obligations of DESIGN §3.4: "unlock on every exit" / "leak leaves the lock held").

// @module ogre_std::ogre_queues::full_sync::full_sync_move
// @sizes fs_ring_proofs: n2=quick n4=quick n8=thorough
// @sizes fs_drop_proofs: d2=quick d4=thorough
#[allow(unused_imports)] use super::*;

#[allow(dead_code)] #[derive(Clone, Copy)]
pub(crate) struct FsState { pub origin: u32, pub len: u32 }

#[allow(dead_code)] pub(crate) fn raw_buffer<T: Debug + Default, const N: usize>(q: &FullSyncMove<T, N>) -> *mut [T; N] {
    let b: *mut Box<[T; N]> = q.buffer.get() as *mut Box<[T; N]>;
    unsafe { (&mut **b) as *mut [T; N] }
}
#[allow(dead_code)] pub(crate) fn set_counters<T: Debug + Default, const N: usize>(q: &FullSyncMove<T, N>, s: FsState) {
    unsafe { *q.head.get() = s.origin; *q.tail.get() = s.origin.wrapping_add(s.len); }
}
#[allow(dead_code)] pub(crate) fn counters_are<T: Debug + Default, const N: usize>(q: &FullSyncMove<T, N>, s: FsState) -> bool {
    unsafe { *q.head.get() == s.origin && *q.tail.get() == s.origin.wrapping_add(s.len) }
}
#[allow(dead_code)] pub(crate) fn head_len<T: Debug + Default, const N: usize>(q: &FullSyncMove<T, N>) -> (u32, u32) {
    let (h, t) = unsafe { (*q.head.get(), *q.tail.get()) }; (h, t.wrapping_sub(h))
}
#[allow(dead_code)] pub(crate) fn locked<T: Debug + Default, const N: usize>(q: &FullSyncMove<T, N>) -> bool {
    q.concurrency_guard.load(Relaxed)
}

impl<const N: usize> crate::ogre_std::ogre_queues::atomic::atomic_move::verif_hooks::RingModel<N> for FullSyncMove<u32, N> {
    fn force(&self, origin: u32, len: u32, content: [u32; N]) {
        set_counters(self, FsState { origin, len });
        unsafe { *raw_buffer(self) = content; }
    }
    fn snapshot(&self) -> (u32, u32, [u32; N]) {
        let (h, t) = unsafe { (*self.head.get(), *self.tail.get()) };
        (h, t.wrapping_sub(h), unsafe { *raw_buffer(self) })
    }
    fn quiescent(&self) -> bool { let (_o, l, _c) = self.snapshot(); !locked(self) && l <= N as u32 }
}

#[cfg(kani)]
pub(crate) mod proofs {
    use super::*;

    fn any_state<const N: usize>() -> FsState {
        let s = FsState { origin: kani::any(), len: kani::any() };
        kani::assume(s.len <= N as u32);
        s
    }
    fn any_queue<const N: usize>() -> (FullSyncMove<u32, N>, FsState, [u32; N]) {
        let q = FullSyncMove::<u32, N>::new();
        let s = any_state::<N>();
        set_counters(&q, s);
        let payloads: [u32; N] = kani::any();
        unsafe { *raw_buffer(&q) = payloads; }
        (q, s, payloads)
    }
    /// `_mm_pause` is not modelled by Kani; a spin hint has no effect on program state
    pub(crate) fn noop() {}
    fn buffer_of<const N: usize>(q: &FullSyncMove<u32, N>) -> [u32; N] { unsafe { *raw_buffer(q) } }

    // @group fs_ring_proofs
    macro_rules! fs_ring_proofs { ($($modname:ident: $n:expr, $unw:expr;)*) => { $( mod $modname {
        use super::*;
        const N: usize = $n;

        // @props C01 C02 C15 C16 C13
        #[kani::proof] #[kani::unwind($unw)] #[kani::stub(std::hint::spin_loop, noop)]
        fn publish_movable() {
            let (q, s, before) = any_queue::<N>();
            let x: u32 = kani::any();
            let (len_after, rejected) = q.publish_movable(x);
            let after = buffer_of(&q);
            assert!(!locked(&q),                                             "lock released on every exit of publish_movable");
            if s.len < N as u32 {
                kani::cover!(s.origin.wrapping_add(s.len) == u32::MAX, "accept across the u32 wrap");
                assert!(rejected.is_none(),                                  "accepted: nothing handed back");
                assert!(len_after.map(|l| l.get()) == Some(s.len + 1),       "accepted: reports len_after == |seq|+1");
                assert!(counters_are(&q, FsState { len: s.len + 1, ..s }),   "accepted: seq' = seq.push(x), head unchanged");
                let idx = (s.origin.wrapping_add(s.len)) as usize % N;
                assert!(after[idx] == x,                                     "accepted: payload stored at the tail slot");
                let k: usize = kani::any();
                if k < N && k != idx {
                    assert!(after[k] == before[k],                               "accepted: frame - no other slot written");
                }
            } else {
                kani::cover!(true, "reject with a full queue");
                assert!(rejected == Some(x),                                 "rejected: payload handed back unchanged");
                assert!(len_after.is_none(),                                 "rejected: no length reported");
                assert!(counters_are(&q, s),                                 "rejected: head and tail unchanged (C16 frame)");
                let k: usize = kani::any();
                if k < N {
                    assert!(after[k] == before[k],                               "rejected: buffer unchanged");
                }
            }
            kani::cover!(true, "end of harness reachable (vacuity guard)");
        }

        // @props C01 C02 C15 C16
        #[kani::proof] #[kani::unwind($unw)] #[kani::stub(std::hint::spin_loop, noop)]
        fn publish_with_setter() {   // also C04: report-after-publish is what orders the channels' wake-up after the publication
            let (q, s, before) = any_queue::<N>();
            let x: u32 = kani::any();
            let setter_calls = std::cell::Cell::new(0u32);
            let reported_len = std::cell::Cell::new(0u32);
            let report_calls = std::cell::Cell::new(0u32);
            let full_calls   = std::cell::Cell::new(0u32);
            let visible_at_report = std::cell::Cell::new(u32::MAX);
            let ret = q.publish(|slot| { *slot = x; setter_calls.set(setter_calls.get() + 1); },
                                || { full_calls.set(full_calls.get() + 1); false },
                                |len| { reported_len.set(len); report_calls.set(report_calls.get() + 1); visible_at_report.set(q.available_elements_count() as u32 + if locked(&q) { 1000 } else { 0 }); });
            let after = buffer_of(&q);
            assert!(!locked(&q),                                             "lock released on every exit of publish");
            if s.len < N as u32 {
                assert!(ret.is_none(),                                       "accepted: setter consumed");
                assert!(setter_calls.get() == 1,                             "accepted: setter applied exactly once");
                assert!(report_calls.get() == 1 && reported_len.get() == s.len + 1, "accepted: len_after reported once");
                assert!(visible_at_report.get() == s.len + 1,                "accepted: the length is reported (channels wake a consumer from this callback) only AFTER the element is visible to consumers and the lock released");
                assert!(full_calls.get() == 0,                               "accepted: full never reported");
                assert!(counters_are(&q, FsState { len: s.len + 1, ..s }),   "accepted: seq' = seq.push(x)");
                let idx = (s.origin.wrapping_add(s.len)) as usize % N;
                assert!(after[idx] == x,                                     "accepted: setter wrote the tail slot");
                let k: usize = kani::any();
                if k < N && k != idx {
                    assert!(after[k] == before[k],                               "accepted: frame");
                }
            } else {
                assert!(ret.is_some(),                                       "rejected: setter handed back");
                assert!(setter_calls.get() == 0,                             "rejected: setter un-invoked");
                assert!(report_calls.get() == 0,                             "rejected: no length reported");
                assert!(full_calls.get() == 1,                               "rejected: full reported once, no retry when it answers false");
                assert!(counters_are(&q, s),                                 "rejected: counters unchanged");
                let k: usize = kani::any();
                if k < N {
                    assert!(after[k] == before[k],                               "rejected: buffer unchanged");
                }
            }
            kani::cover!(true, "end of harness reachable (vacuity guard)");
        }

        // @props C01 C02 C15 C13 C10
        #[kani::proof] #[kani::unwind($unw)] #[kani::stub(std::hint::spin_loop, noop)]
        fn consume_movable() {
            let (q, s, before) = any_queue::<N>();
            let got = q.consume_movable();
            let after = buffer_of(&q);
            assert!(!locked(&q),                                             "lock released on every exit of consume_movable");
            if s.len > 0 {
                kani::cover!(s.origin == u32::MAX, "consume across the wrap");
                assert!(got == Some(before[s.origin as usize % N]),          "non-empty: yields seq[0] (FIFO)");
                assert!(counters_are(&q, FsState { origin: s.origin.wrapping_add(1), len: s.len - 1 }), "non-empty: seq' = seq.drop_first()");
            } else {
                assert!(got.is_none(),                                       "empty: None");
                assert!(counters_are(&q, s),                                 "empty: counters unchanged");
            }
            let k: usize = kani::any();
            if k < N {
                assert!(after[k] == before[k],                                   "consume never writes the buffer");
            }
            kani::cover!(true, "end of harness reachable (vacuity guard)");
        }

        // @props C02 C15 C16
        #[kani::proof] #[kani::unwind($unw)] #[kani::stub(std::hint::spin_loop, noop)]
        fn available_elements_count() {
            let (q, s, _) = any_queue::<N>();
            assert!(q.available_elements_count() == s.len as usize,          "pending count == |seq|");
            assert!(q.max_size() == N,                                       "max_size == BUFFER_SIZE");
            assert!(counters_are(&q, s) && !locked(&q),                      "query changes nothing");
            kani::cover!(true, "end of harness reachable (vacuity guard)");
        }

        // @props C01 C15 C16 C20
        #[kani::proof] #[kani::unwind($unw)] #[kani::stub(std::hint::spin_loop, noop)]
        fn leak_then_publish() {
            let (q, s, before) = any_queue::<N>();
            let base = raw_buffer(&q) as *mut u32;
            let r = q.leak_slot_internal(|| false);
            if s.len < N as u32 {
                match r {
                    Some((slot, id, len_before)) => {
                        assert!(id == s.origin.wrapping_add(s.len),          "leak: id is the tail");
                        assert!(len_before == s.len,                         "leak: len_before == |seq|");
                        assert!(slot as *mut u32 == unsafe { base.add(id as usize % N) }, "leak: slot is buffer[tail % N]");
                    }
                    None => assert!(false,                                   "leak: must succeed below capacity"),
                }
                assert!(locked(&q),                                          "leak (Some): the lock is left HELD (resv == 1 <=> lock held)");
                assert!(counters_are(&q, s),                                 "leak: head/tail unchanged until publication");
                q.publish_leaked_internal();
                assert!(!locked(&q),                                         "publish_leaked: releases the lock");
                assert!(counters_are(&q, FsState { len: s.len + 1, ..s }),   "publish_leaked: tail' = tail+1");
            } else {
                assert!(r.is_none(),                                         "leak at capacity: None");
                assert!(!locked(&q),                                         "leak (None): lock released");
                assert!(counters_are(&q, s),                                 "leak at capacity: unchanged");
            }
            let after = buffer_of(&q);
            let k: usize = kani::any();
            if k < N {
                assert!(after[k] == before[k],                                   "leak/publish_leaked never write the buffer");
            }
            kani::cover!(true, "end of harness reachable (vacuity guard)");
        }

        // @props C13
        #[kani::proof] #[kani::unwind($unw)] #[kani::stub(std::hint::spin_loop, noop)]
        fn slot_index_ref_roundtrip() {
            let (q, _s, before) = any_queue::<N>();
            let i: u32 = kani::any(); kani::assume(i < N as u32);
            let r = q.slot_ref_from_slot_index(i);
            assert!(*r == before[i as usize],                                "ref_from_index yields buffer[i]");
            assert!(q.slot_index_from_slot_ref(r) == i,                      "index_from_ref(ref_from_index(i)) == i");
            kani::cover!(true, "end of harness reachable (vacuity guard)");
        }

        // @props C01 C10
        #[kani::proof] #[kani::unwind($unw)] #[kani::stub(std::hint::spin_loop, noop)]
        fn peek_remaining() {
            let (q, s, before) = any_queue::<N>();
            let [a, b] = unsafe { q.peek_remaining() };
            assert!(a.len() + b.len() == s.len as usize,                     "peek: the two slices hold |seq| elements");
            let k: usize = kani::any(); kani::assume(k < s.len as usize);
            let expected = before[(s.origin.wrapping_add(k as u32)) as usize % N];
            let got = if k < a.len() { a[k] } else { b[k - a.len()] };
            assert!(got == expected,                                         "peek: concatenation equals seq");
            kani::cover!(true, "end of harness reachable (vacuity guard)");
        }
    } )* } }

    fs_ring_proofs! {
        n2: 2, 4;
        n4: 4, 6;
        n8: 8, 10;
    }

    use std::sync::atomic::{AtomicU32 as Ctr, Ordering::SeqCst};
    static DROPS: Ctr = Ctr::new(0);
    #[derive(Debug, Default)]
    struct Droppy(u8);
    impl Drop for Droppy { fn drop(&mut self) { DROPS.fetch_add(1, SeqCst); } }

    // @group fs_drop_proofs
    macro_rules! fs_drop_proofs { ($($modname:ident: $n:expr, $unw:expr;)*) => { $( mod $modname {
        use super::*;
        const N: usize = $n;

        // @props C05 C15
        #[kani::proof] #[kani::unwind($unw)] #[kani::stub(std::hint::spin_loop, noop)]
        fn payload_drop_accounting() {
            let q = FullSyncMove::<Droppy, N>::with_initializer(|| Droppy(0));
            let origin: u32 = kani::any();
            set_counters(&q, FsState { origin, len: 0 });
            let base = DROPS.load(SeqCst);
            let len: u32 = kani::any(); kani::assume(len <= N as u32);
            let mut i = 0;
            while i < len { assert!(q.publish_movable(Droppy(i as u8)).1.is_none()); i += 1; }
            assert!(DROPS.load(SeqCst) == base,                              "publishing drops nothing (slot overwritten without drop)");
            if len == N as u32 {
                let (l, back) = q.publish_movable(Droppy(99));
                assert!(l.is_none() && back.is_some(),                       "full: rejected");
                assert!(DROPS.load(SeqCst) == base,                          "a rejected payload is not dropped by the queue");
                std::mem::forget(back);
            }
            let c: u32 = kani::any(); kani::assume(c <= len);
            let mut k = 0;
            while k < c {
                let item = q.consume_movable();
                assert!(DROPS.load(SeqCst) == base + k,                      "consume does not drop: ownership moves out");
                match item { Some(d) => { assert!(d.0 == k as u8, "FIFO"); drop(d); }, None => assert!(false, "must yield") }
                k += 1;
            }
            assert!(DROPS.load(SeqCst) == base + c,                          "each consumed payload dropped once by its owner");
            drop(q);
            assert!(DROPS.load(SeqCst) == base + len,                        "teardown drops exactly the leftovers, once each; initial filler slots are never dropped");
            kani::cover!(true, "end of harness reachable (vacuity guard)");
        }
    } )* } }
    fs_drop_proofs! {
        d2: 2, 5;
        d4: 4, 7;
    }
}
