// Back end K harnesses for `OgreArrayPoolAllocator` (included from /repo/src/ogre_std/ogre_alloc/ogre_array_pool_allocator.rs).
//
// Abstract state: free: Seq<u32> (the free list's sequence), out = {0..P} \ free (outstanding ids).
// Inv: the free list is quiescent, |free| <= P, every element < P, no duplicates.
// Inductive step: ARBITRARY free-list origin (all u32, so the free list's counter wrap is included), ARBITRARY fill level,
// ARBITRARY permutation of the ids -- one real operation -- whole-view postcondition + Inv again.

// @module ogre_std::ogre_alloc::ogre_array_pool_allocator
// @sizes pool_proofs: atomic_p2=quick atomic_p4=quick fullsync_p2=quick fullsync_p4=quick atomic_p8=thorough fullsync_p8=thorough
// @sizes pool_order_proofs: atomic_o2=quick fullsync_o2=quick
// @sizes pool_drop_proofs: atomic_d2=quick fullsync_d2=quick atomic_d4=thorough
#[allow(unused_imports)] use super::*;
#[allow(unused_imports)] use crate::ogre_std::ogre_queues::atomic::atomic_move::{AtomicMove, verif_hooks::RingModel};
#[allow(unused_imports)] use crate::ogre_std::ogre_queues::full_sync::full_sync_move::FullSyncMove;

/// Abstract pool state: `perm[0..free)` is the free list (in order), the rest is outstanding
#[allow(dead_code)] #[derive(Clone, Copy)]
pub(crate) struct PoolState<const P: usize> { pub origin: u32, pub free: u32, pub perm: [u32; P] }

#[allow(dead_code)] pub(crate) fn is_permutation<const P: usize>(perm: &[u32; P]) -> bool {
    let mut i = 0;
    while i < P {
        if perm[i] >= P as u32 { return false; }
        let mut j = i + 1;
        while j < P { if perm[i] == perm[j] { return false; } j += 1; }
        i += 1;
    }
    true
}

/// forces the free list of `pool` into the abstract state `s`
#[allow(dead_code)] pub(crate) fn force_pool<T: Debug + Send + Sync, FL: MoveContainer<u32> + RingModel<P>, const P: usize>(pool: &OgreArrayPoolAllocator<T, FL, P>, s: &PoolState<P>) {
    let mut content = [0u32; P];
    let mut k = 0;
    while k < P { content[(s.origin as usize).wrapping_add(k) % P] = s.perm[k]; k += 1; }
    pool.free_list.force(s.origin, s.free, content);
}

/// `Inv` + view equality: the free list is exactly `perm[from..from+len)` starting at ring origin `origin`
#[allow(dead_code)] pub(crate) fn free_list_is<T: Debug + Send + Sync, FL: MoveContainer<u32> + RingModel<P>, const P: usize>(pool: &OgreArrayPoolAllocator<T, FL, P>, origin: u32, expected: &[u32; P], len: u32) -> bool {
    if !pool.free_list.quiescent() { return false; }
    let (o, l, _c) = pool.free_list.snapshot();
    if o != origin || l != len { return false; }
    let mut k = 0;
    while k < len { if pool.free_list.seq_at(k) != expected[k as usize] { return false; } k += 1; }
    true
}
#[allow(dead_code)] pub(crate) fn pool_base<T: Debug + Send + Sync, FL: MoveContainer<u32>, const P: usize>(pool: &OgreArrayPoolAllocator<T, FL, P>) -> *mut T {
    let b: *mut Box<[T; P]> = pool.pool.get() as *mut Box<[T; P]>;
    unsafe { (&mut **b) as *mut [T; P] as *mut T }
}
#[allow(dead_code)] pub(crate) fn free_count<T: Debug + Send + Sync, FL: MoveContainer<u32> + RingModel<P>, const P: usize>(pool: &OgreArrayPoolAllocator<T, FL, P>) -> u32 {
    pool.free_list.snapshot().1
}

impl<T: Debug + Send + Sync, FL: MoveContainer<u32> + RingModel<P>, const P: usize> OgreArrayPoolAllocator<T, FL, P> {
    #[allow(dead_code)] pub(crate) fn free_list_quiescent(&self) -> bool { self.free_list.quiescent() }
}

#[cfg(kani)]
pub(crate) mod proofs {
    use super::*;
    /// `_mm_pause` is not modelled by Kani; a spin hint has no effect on program state
    pub(crate) fn noop() {}

    pub(crate) fn any_pool_state<const P: usize>() -> PoolState<P> {
        let s = PoolState::<P> { origin: kani::any(), free: kani::any(), perm: kani::any() };
        kani::assume(s.free <= P as u32);
        kani::assume(is_permutation(&s.perm));
        s
    }

    // @group pool_proofs
    macro_rules! pool_proofs { ($($modname:ident: $fl:ident, $p:expr, $unw:expr;)*) => { $( mod $modname {
        use super::*;
        const P: usize = $p;
        type FL = $fl<u32, P>;
        type Pool = OgreArrayPoolAllocator<u32, FL, P>;

        // @props C13 C05
        #[kani::proof] #[kani::unwind($unw)] #[kani::stub(std::hint::spin_loop, noop)]
        fn new_pool() {
            let pool = Pool::new();
            let mut ids = [0u32; P]; let mut i = 0; while i < P { ids[i] = i as u32; i += 1; }
            assert!(free_list_is(&pool, 0, &ids, P as u32),                  "new(): free = [0..P), nothing outstanding");
            kani::cover!(true, "end of harness reachable (vacuity guard)");
        }

        // @props C13 C05 C16 C15
        #[kani::proof] #[kani::unwind($unw)] #[kani::stub(std::hint::spin_loop, noop)]
        fn alloc_ref() {
            let pool = Pool::new();
            let s = any_pool_state::<P>();
            force_pool(&pool, &s);
            let base = pool_base(&pool);
            let r = pool.alloc_ref();
            if s.free > 0 {
                kani::cover!(s.origin == u32::MAX, "alloc across the free list's counter wrap");
                kani::cover!(s.free == 1, "alloc of the last free slot");
                match r {
                    Some((slot, id)) => {
                        assert!(id == s.perm[0],                             "alloc: hands out free[0]");
                        assert!(id < P as u32,                               "alloc: id within the pool");
                        assert!(slot as *mut u32 == unsafe { base.add(id as usize) }, "alloc: the reference is &pool[id]");
                        // exclusive ownership: `id` is not handed out again until deallocated == it is no longer in the free list
                        let k: u32 = kani::any();
                        if k >= 1 && k < s.free {
                            assert!(s.perm[k as usize] != id,                    "alloc: id no longer in the free list (out' = out + {id})");
                        }
                    }
                    None => assert!(false,                                   "alloc: must succeed while a slot is free"),
                }
                let mut rest = [0u32; P]; let mut i = 1; while i < P { rest[i - 1] = s.perm[i]; i += 1; }
                assert!(free_list_is(&pool, s.origin.wrapping_add(1), &rest, s.free - 1), "alloc: free' = free.drop_first()");
            } else {
                kani::cover!(true, "alloc from an exhausted pool");
                assert!(r.is_none(),                                         "alloc: None iff all P slots are outstanding");
                assert!(free_list_is(&pool, s.origin, &s.perm, 0),           "alloc (exhausted): state unchanged");
            }
            kani::cover!(true, "end of harness reachable (vacuity guard)");
        }

        // @props C13 C05 C15
        #[kani::proof] #[kani::unwind($unw)] #[kani::stub(std::hint::spin_loop, noop)]
        fn dealloc_id() {
            let pool = Pool::new();
            let s = any_pool_state::<P>();
            kani::assume(s.free < P as u32);
            force_pool(&pool, &s);
            // any OUTSTANDING id
            let j: u32 = kani::any(); kani::assume(j >= s.free && j < P as u32);
            let id = s.perm[j as usize];
            let by_ref: bool = kani::any();
            if by_ref { pool.dealloc_ref(pool.ref_from_id(id)); } else { pool.dealloc_id(id); }
            // expected: free' = free.push(id)
            let mut expected = s.perm; expected[s.free as usize] = id;
            assert!(free_list_is(&pool, s.origin, &expected, s.free + 1),    "dealloc: free' = free.push(id) -- the slot becomes allocatable again, nothing else changes");
            kani::cover!(s.free == P as u32 - 1, "dealloc refills the pool completely");
            kani::cover!(true, "end of harness reachable (vacuity guard)");
        }

        // @props C13 C08
        #[kani::proof] #[kani::unwind($unw)] #[kani::stub(std::hint::spin_loop, noop)]
        fn id_ref_bijection() {
            let pool = Pool::new();
            let base = pool_base(&pool);
            let id: u32 = kani::any(); kani::assume(id < P as u32);
            let r = pool.ref_from_id(id);
            assert!(r as *mut u32 == unsafe { base.add(id as usize) },       "ref_from_id(id) == &pool[id]");
            assert!(pool.id_from_ref(r) == id,                               "id_from_ref(ref_from_id(id)) == id");
            let id2: u32 = kani::any();
            if id2 < P as u32 && id2 != id {
                assert!(pool.ref_from_id(id2) as *mut u32 != r as *mut u32,      "distinct ids map to distinct slots");
            }
            kani::cover!(true, "end of harness reachable (vacuity guard)");
        }
    } )* } }
    pool_proofs! {
        atomic_p2: AtomicMove, 2, 5;
        atomic_p4: AtomicMove, 4, 7;
        atomic_p8: AtomicMove, 8, 11;
        fullsync_p2: FullSyncMove, 2, 5;
        fullsync_p4: FullSyncMove, 4, 7;
        fullsync_p8: FullSyncMove, 8, 11;
    }

    use std::sync::atomic::{AtomicU32 as Ctr, Ordering::SeqCst};
    pub(crate) static DROPS: Ctr = Ctr::new(0);
    #[derive(Debug, Default)]
    pub(crate) struct Droppy(pub u8);
    impl Drop for Droppy { fn drop(&mut self) { DROPS.fetch_add(1, SeqCst); } }

    // @group pool_drop_proofs
    macro_rules! pool_drop_proofs { ($($modname:ident: $fl:ident, $p:expr, $unw:expr;)*) => { $( mod $modname {
        use super::*;
        const P: usize = $p;
        type Pool = OgreArrayPoolAllocator<Droppy, $fl<u32, P>, P>;

        // @props C05 C13 C14
        #[kani::proof] #[kani::unwind($unw)] #[kani::stub(std::hint::spin_loop, noop)]
        fn dealloc_drops_exactly_once() {
            let pool = Pool::new();
            let s = any_pool_state::<P>();
            kani::assume(s.free > 0);
            force_pool(&pool, &s);
            let d0 = DROPS.load(SeqCst);
            let (slot, id) = pool.alloc_ref().unwrap();
            unsafe { std::ptr::write(slot, Droppy(7)); }
            assert!(DROPS.load(SeqCst) == d0,                                "alloc + write drop nothing");
            pool.dealloc_id(id);
            assert!(DROPS.load(SeqCst) == d0 + 1,                            "dealloc: payload destructor runs exactly once");
            assert!(free_count(&pool) == s.free,                             "alloc + dealloc: free count restored");
            drop(pool);
            assert!(DROPS.load(SeqCst) == d0 + 1,                            "dropping the allocator never drops pool slots (ManuallyDrop)");
            kani::cover!(true, "end of harness reachable (vacuity guard)");
        }
    } )* } }
    pool_drop_proofs! {
        atomic_d2: AtomicMove, 2, 5;
        fullsync_d2: FullSyncMove, 2, 5;
        atomic_d4: AtomicMove, 4, 7;
    }

    // @group pool_order_proofs
    macro_rules! pool_order_proofs { ($($modname:ident: $fl:ident, $p:expr, $unw:expr;)*) => { $( mod $modname {
        use super::*;
        const P: usize = $p;
        type Pool = OgreArrayPoolAllocator<Watcher, $fl<u32, P>, P>;
        static PROBE: std::sync::atomic::AtomicPtr<Pool> = std::sync::atomic::AtomicPtr::new(std::ptr::null_mut());
        static FREE_AT_DROP: Ctr = Ctr::new(u32::MAX);
        /// a payload whose destructor observes the pool it lives in
        #[derive(Debug, Default)]
        pub(crate) struct Watcher(pub u8);
        impl Drop for Watcher { fn drop(&mut self) { let p = PROBE.load(SeqCst); if !p.is_null() { FREE_AT_DROP.store(free_count(unsafe { &*p }), SeqCst); } } }

        // @props C05 C13 C01 C14
        #[kani::proof] #[kani::unwind($unw)] #[kani::stub(std::hint::spin_loop, noop)]
        fn destructor_runs_before_the_slot_is_allocatable_again() {
            // mechanism obligation: sequentially the order "destroy, then put the id on the free list" is unobservable from outside, but it is
            // what keeps a concurrent alloc from being handed a slot whose old payload is still being destroyed -- so it is observed from INSIDE
            let pool = Pool::new();
            let s = any_pool_state::<P>();
            kani::assume(s.free > 0);
            force_pool(&pool, &s);
            let (slot, id) = pool.alloc_ref().unwrap();
            unsafe { std::ptr::write(slot, Watcher(1)); }
            PROBE.store(&pool as *const Pool as *mut Pool, SeqCst);
            pool.dealloc_id(id);
            PROBE.store(std::ptr::null_mut(), SeqCst);
            assert!(FREE_AT_DROP.load(SeqCst) == s.free - 1,                 "dealloc: while the payload's destructor runs, its slot is NOT yet on the free list (not allocatable)");
            assert!(free_count(&pool) == s.free,                             "dealloc: afterwards it is");
            kani::cover!(true, "end of harness reachable (vacuity guard)");
        }
    } )* } }
    pool_order_proofs! {
        atomic_o2: AtomicMove, 2, 5;
        fullsync_o2: FullSyncMove, 2, 5;
    }
}
