// Back end K harnesses for `OgreUnique` (included from /repo/src/ogre_std/ogre_alloc/ogre_unique.rs).
// @module ogre_std::ogre_alloc::ogre_unique
// @sizes unique_proofs: atomic_p2=quick fullsync_p2=quick atomic_p4=thorough
#[allow(unused_imports)] use super::*;
#[allow(unused_imports)] use crate::ogre_std::ogre_queues::atomic::atomic_move::AtomicMove;
#[allow(unused_imports)] use crate::ogre_std::ogre_queues::full_sync::full_sync_move::FullSyncMove;
#[allow(unused_imports)] use crate::ogre_std::ogre_alloc::ogre_array_pool_allocator::{OgreArrayPoolAllocator, verif_hooks as pa};

#[cfg(kani)]
pub(crate) mod proofs {
    use super::*;
    use pa::proofs::{Droppy, DROPS};
    use std::sync::atomic::Ordering::SeqCst;
    /// `_mm_pause` is not modelled by Kani; a spin hint has no effect on program state
    pub(crate) fn noop() {}

    // @group unique_proofs
    macro_rules! unique_proofs { ($($modname:ident: $fl:ident, $p:expr, $unw:expr;)*) => { $( mod $modname {
        use super::*;
        const P: usize = $p;
        type Pool = OgreArrayPoolAllocator<Droppy, $fl<u32, P>, P>;
        type Unique = OgreUnique<Droppy, Pool>;

        // @props C14 C05 C01 C13 C08
        #[kani::proof] #[kani::unwind($unw)] #[kani::stub(std::hint::spin_loop, noop)]
        fn unique_owns_and_releases_once() {
            let pool = Pool::new();
            let s = pa::proofs::any_pool_state::<P>();
            pa::force_pool(&pool, &s);
            let d0 = DROPS.load(SeqCst);
            let v: u8 = kani::any();
            match Unique::new(|slot| unsafe { std::ptr::write(slot, Droppy(v)) }, &pool) {
                Some(u) => {
                    assert!(s.free > 0,                                      "new: Some only if a slot was free");
                    assert!(u.0 == v,                                        "deref: the value written at creation");
                    assert!((&*u) as *const Droppy == pool.ref_from_id(s.perm[0]) as *const Droppy, "new: owns pool slot free[0]");
                    assert!(pa::free_count(&pool) == s.free - 1 && DROPS.load(SeqCst) == d0, "alive: slot outstanding, nothing destroyed");
                    drop(u);
                    assert!(DROPS.load(SeqCst) == d0 + 1,                    "drop: value destroyed exactly once");
                    assert!(pa::free_count(&pool) == s.free,                 "drop: slot returned to the pool exactly once");
                }
                None => assert!(s.free == 0,                                 "new: None iff the pool is exhausted"),
            }
            kani::cover!(true, "end of harness reachable (vacuity guard)");
        }

        // @props C14 C05 C03 C01 C13 C08
        #[kani::proof] #[kani::unwind($unw)] #[kani::stub(std::hint::spin_loop, noop)]
        fn into_ogre_arc_transfers_ownership() {
            let pool = Pool::new();
            let s = pa::proofs::any_pool_state::<P>();
            kani::assume(s.free > 0);
            pa::force_pool(&pool, &s);
            let d0 = DROPS.load(SeqCst);
            let v: u8 = kani::any();
            // every way of creating the unique handle ...
            let route: u8 = kani::any(); kani::assume(route < 3);
            let u = if route == 0 {
                let (slot, id) = pool.alloc_ref().unwrap();
                unsafe { std::ptr::write(slot, Droppy(v)); }
                Unique::from_allocated_id(id, &pool)
            } else if route == 1 {
                let (slot, _id) = pool.alloc_ref().unwrap();
                unsafe { std::ptr::write(slot, Droppy(v)); }
                Unique::from_allocated_ref(slot, &pool)
            } else {
                Unique::new(|slot| unsafe { std::ptr::write(slot, Droppy(v)) }, &pool).unwrap()
            };
            let addr = (&*u) as *const Droppy;
            assert!(addr == pool.ref_from_id(s.perm[0]) as *const Droppy,    "unique: owns pool slot free[0] whichever way it was created");
            assert!(std::convert::AsRef::<Droppy>::as_ref(&u) as *const Droppy == addr && std::borrow::Borrow::<Droppy>::borrow(&u) as *const Droppy == addr, "unique: as_ref / borrow give the very same slot as deref");
            // ... and every way of converting it into a shared one (the inherent method and the `From` impl)
            let via_from: bool = kani::any();
            let arc: OgreArc<Droppy, Pool> = if via_from { OgreArc::from(u) } else { u.into_ogre_arc() };
            assert!(DROPS.load(SeqCst) == d0,                                "into_ogre_arc: the value is NOT destroyed by the conversion");
            assert!(pa::free_count(&pool) == s.free - 1,                     "into_ogre_arc: the slot is NOT returned to the pool (no duplicate, no release)");
            assert!(arc.references_count() == 1,                             "into_ogre_arc: exactly one shared handle");
            assert!((&*arc) as *const Droppy == addr && arc.0 == v,          "into_ogre_arc: same slot, same value");
            drop(arc);
            assert!(DROPS.load(SeqCst) == d0 + 1 && pa::free_count(&pool) == s.free, "last shared handle dropped: destroyed once, slot back in the pool");
            kani::cover!(true, "end of harness reachable (vacuity guard)");
        }
    } )* } }
    unique_proofs! {
        atomic_p2: AtomicMove, 2, 5;
        fullsync_p2: FullSyncMove, 2, 5;
        atomic_p4: AtomicMove, 4, 7;
    }
}
