// @module uni::channels::movable::atomic
#[allow(unused_imports)] use super::*;
#[cfg(kani)]
pub(crate) mod proofs {
    use super::*;
    use crate::streams_manager::verif_hooks as sm;
    use crate::ogre_std::ogre_queues::atomic::atomic_move::verif_hooks as am;
    pub(crate) fn noop() {}

    // @props C04
    #[kani::proof] #[kani::unwind(6)] #[kani::stub(std::hint::spin_loop, noop)]
    fn probe_send() {
        #[allow(unused)] use crate::streams_manager::verif_hooks as sm;
        const N: usize = 4; const M: usize = 2;
        let live: u32 = kani::any(); kani::assume(live >= 1 && live <= M as u32);
        let ch = Atomic::<u32, N, M> { streams_manager: sm::manager_with_streams::<M>(live, true), channel: AtomicMove::<u32, N>::new(), _phantom: PhantomData };
        let origin: u32 = kani::any();
        am::set_counters(&ch.channel, am::RingState { origin, len: 0, resv: 0 });
        let w0 = sm::wakes(0);
        let x: u32 = kani::any();
        let r = ch.send(x);
        assert!(matches!(r, keen_retry::RetryResult::Ok { .. }), "accepted");
        assert!(sm::wakes(0) == w0 + 1, "empty -> non-empty: stream 0 woken");
        assert!(ch.pending_items_count() == 1, "one pending");
        kani::cover!(true, "end of harness reachable (vacuity guard)");
    }
}
