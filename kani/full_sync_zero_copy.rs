// Back end K harnesses for `FullSyncZeroCopy` (included from /repo/src/ogre_std/ogre_queues/full_sync/full_sync_zero_copy.rs).
//
// Abstract state: a permutation `perm` of the pool ids split in three: free = perm[0..f) (the allocator's free list, in order),
// queue = perm[f..f+qn) (ids published and not yet consumed, in order), held = the rest (leaked to a producer, or consumed and not
// yet released). Coupling invariant (DESIGN §3.2): queue ids are outstanding in the pool, no duplicates anywhere, so |queue| <= |out|.
// Inductive step from ARBITRARY ring origins of both rings (u32 wrap included), arbitrary split, arbitrary payloads.

// @module ogre_std::ogre_queues::full_sync::full_sync_zero_copy
// @sizes fszc_proofs: n2=quick n4=quick n8=thorough
#[allow(unused_imports)] use super::*;
#[allow(unused_imports)] use crate::ogre_std::ogre_queues::atomic::atomic_move::verif_hooks::RingModel;
#[allow(unused_imports)] use crate::ogre_std::ogre_alloc::ogre_array_pool_allocator::{OgreArrayPoolAllocator, verif_hooks as pa};

#[allow(dead_code)] pub(crate) type Ring<const N: usize> = FullSyncMove<u32, N>;
#[allow(dead_code)] pub(crate) type Pool<const N: usize> = OgreArrayPoolAllocator<u32, Ring<N>, N>;
#[allow(dead_code)] pub(crate) type Zc<const N: usize>   = FullSyncZeroCopy<u32, Pool<N>, N>;

#[allow(dead_code)] #[derive(Clone, Copy)]
pub(crate) struct ZcState<const N: usize> { pub pool: pa::PoolState<N>, pub q_origin: u32, pub qn: u32 }

/// forces both rings of `q` into the abstract state `s`
#[allow(dead_code)] pub(crate) fn force_zc<const N: usize>(q: &Zc<N>, s: &ZcState<N>) {
    pa::force_pool(&*q.allocator, &s.pool);
    let mut content = [0u32; N];
    let mut k = 0;
    while k < N { content[(s.q_origin as usize).wrapping_add(k) % N] = s.pool.perm[(s.pool.free as usize + k) % N]; k += 1; }
    q.queue.force(s.q_origin, s.qn, content);
}
/// view equality for the id queue: it is exactly `perm[from..from+len)` at ring origin `origin`
#[allow(dead_code)] pub(crate) fn queue_is<const N: usize>(q: &Zc<N>, origin: u32, perm: &[u32; N], from: u32, len: u32) -> bool {
    if !q.queue.quiescent() { return false; }
    let (o, l, _c) = q.queue.snapshot();
    if o != origin || l != len { return false; }
    let mut k = 0;
    while k < len { if q.queue.seq_at(k) != perm[(from + k) as usize % N] { return false; } k += 1; }
    true
}
#[allow(dead_code)] pub(crate) fn payloads<const N: usize>(q: &Zc<N>) -> [u32; N] { unsafe { *(pa::pool_base(&*q.allocator) as *mut [u32; N]) } }

/// channel-level observers
#[allow(dead_code)] pub(crate) fn pending<const N: usize>(q: &Zc<N>) -> u32 { q.queue.snapshot().1 }
#[allow(dead_code)] pub(crate) fn pending_payload<const N: usize>(q: &Zc<N>, k: u32) -> u32 { payloads(q)[q.queue.seq_at(k) as usize % N] }
#[allow(dead_code)] pub(crate) fn quiescent<const N: usize>(q: &Zc<N>) -> bool { q.queue.quiescent() && q.allocator.free_list_quiescent() }

#[cfg(kani)]
pub(crate) mod proofs {
    use super::*;
    /// `_mm_pause` is not modelled by Kani; a spin hint has no effect on program state
    pub(crate) fn noop() {}

    pub(crate) fn any_zc<const N: usize>() -> (Zc<N>, ZcState<N>, [u32; N]) {
        let q = Zc::<N>::new();
        let s = ZcState::<N> { pool: pa::proofs::any_pool_state::<N>(), q_origin: kani::any(), qn: kani::any() };
        kani::assume(s.qn <= N as u32 && s.pool.free + s.qn <= N as u32);
        force_zc(&q, &s);
        let vals: [u32; N] = kani::any();
        unsafe { *(pa::pool_base(&*q.allocator) as *mut [u32; N]) = vals; }
        (q, s, vals)
    }
    fn shifted<const N: usize>(perm: &[u32; N]) -> [u32; N] { let mut r = [0u32; N]; let mut i = 1; while i < N { r[i - 1] = perm[i]; i += 1; } r }

    // @group fszc_proofs
    macro_rules! fszc_proofs { ($($modname:ident: $n:expr, $unw:expr;)*) => { $( mod $modname {
        use super::*;
        const N: usize = $n;

        // @props C01 C02 C16 C15 C05
        #[kani::proof] #[kani::unwind($unw)] #[kani::stub(std::hint::spin_loop, noop)]
        fn publish_movable() {
            let (q, s, before) = any_zc::<N>();
            let x: u32 = kani::any();
            let (len_after, rejected) = q.publish_movable(x);
            let after = payloads(&q);
            if s.pool.free > 0 {
                let id = s.pool.perm[0];
                kani::cover!(s.qn + 1 == N as u32, "accept the last slot");
                assert!(rejected.is_none(),                                  "accepted: nothing handed back");
                assert!(len_after.map(|l| l.get()) == Some(s.qn + 1),        "accepted: reports len_after == |queue|+1 (the id ring can never be full when the pool had a free slot)");
                assert!(after[id as usize] == x,                             "accepted: payload written into pool slot free[0]");
                let k: usize = kani::any();
                if k < N && k != id as usize {
                    assert!(after[k] == before[k],                               "accepted: no other payload slot written (slots held by consumers are not overwritten)");
                    assert!(pa::free_list_is(&*q.allocator, s.pool.origin.wrapping_add(1), &shifted(&s.pool.perm), s.pool.free - 1), "accepted: free' = free.drop_first()");
                }
                // queue' = queue.push(id): perm rotated so that id follows the old queue
                let mut expect = [0u32; N]; let mut i = 0;
                while i < s.qn as usize { expect[i] = s.pool.perm[(s.pool.free as usize + i) % N]; i += 1; }
                expect[s.qn as usize % N] = id;
                assert!(queue_is(&q, s.q_origin, &expect, 0, s.qn + 1),      "accepted: queue' = queue.push(id)");
            } else {
                kani::cover!(s.qn < N as u32, "rejected although the id ring has room: every slot is still held (zero-copy capacity rule)");
                assert!(rejected == Some(x),                                 "rejected: payload handed back unchanged");
                assert!(len_after.is_none(),                                 "rejected: no length reported");
                assert!(pa::free_list_is(&*q.allocator, s.pool.origin, &s.pool.perm, 0), "rejected: free list unchanged (no slot leaked)");
                assert!(queue_is(&q, s.q_origin, &s.pool.perm, s.pool.free, s.qn), "rejected: queue unchanged");
                let k: usize = kani::any();
                if k < N {
                    assert!(after[k] == before[k],                               "rejected: payload storage unchanged");
                }
            }
            kani::cover!(true, "end of harness reachable (vacuity guard)");
        }

        // @props C01 C16
        #[kani::proof] #[kani::unwind($unw)] #[kani::stub(std::hint::spin_loop, noop)]
        fn publish_with_setter() {
            let (q, s, _before) = any_zc::<N>();
            let x: u32 = kani::any();
            let calls = std::cell::Cell::new(0u32);
            let (len_after, back) = q.publish(|slot| { *slot = x; calls.set(calls.get() + 1); });
            if s.pool.free > 0 {
                assert!(back.is_none() && calls.get() == 1,                  "accepted: setter applied exactly once");
                assert!(len_after.map(|l| l.get()) == Some(s.qn + 1),        "accepted: len_after == |queue|+1");
                assert!(payloads(&q)[s.pool.perm[0] as usize] == x,          "accepted: setter wrote pool slot free[0]");
                assert!(q.available_elements_count() == s.qn as usize + 1,   "accepted: one more pending");
            } else {
                assert!(back.is_some() && calls.get() == 0,                  "rejected: setter handed back un-invoked");
                assert!(len_after.is_none(),                                 "rejected: no length");
                assert!(pa::free_list_is(&*q.allocator, s.pool.origin, &s.pool.perm, 0) && queue_is(&q, s.q_origin, &s.pool.perm, s.pool.free, s.qn), "rejected: nothing changed");
            }
            kani::cover!(true, "end of harness reachable (vacuity guard)");
        }

        // @props C01 C02 C05 C15
        #[kani::proof] #[kani::unwind($unw)] #[kani::stub(std::hint::spin_loop, noop)]
        fn consume_leaking_then_release() {
            let (q, s, before) = any_zc::<N>();
            let base = pa::pool_base(&*q.allocator);
            let r = q.consume_leaking();
            if s.qn > 0 {
                let id_expected = s.pool.perm[s.pool.free as usize % N];
                match r {
                    Some((slot, id)) => {
                        assert!(id == id_expected,                           "consume: yields queue[0] (FIFO)");
                        assert!(slot as *const u32 == unsafe { base.add(id as usize) } as *const u32, "consume: the reference is the pool slot that id names");
                        assert!(*slot == before[id as usize],                "consume: payload is what was stored");
                    }
                    None => assert!(false,                                   "consume: non-empty queue must yield"),
                }
                assert!(queue_is(&q, s.q_origin.wrapping_add(1), &s.pool.perm, s.pool.free + 1, s.qn - 1), "consume: queue' = queue.drop_first()");
                assert!(pa::free_list_is(&*q.allocator, s.pool.origin, &s.pool.perm, s.pool.free), "consume: the slot stays OUTSTANDING while the consumer holds it (free list unchanged)");
                // ... and the release puts exactly that id back
                let by_ref: bool = kani::any();
                if by_ref { q.release_leaked_ref(q.allocator.ref_from_id(id_expected)); } else { q.release_leaked_id(id_expected); }
                let mut expected = s.pool.perm; 
                // free' = free.push(id): expected[f] = id (only compared on the first f+1 entries)
                expected[s.pool.free as usize % N] = id_expected;
                assert!(pa::free_list_is(&*q.allocator, s.pool.origin, &expected, s.pool.free + 1), "release: free' = free.push(id)");
            } else {
                assert!(r.is_none(),                                         "consume: None iff the queue is empty");
                assert!(queue_is(&q, s.q_origin, &s.pool.perm, s.pool.free, 0) && pa::free_list_is(&*q.allocator, s.pool.origin, &s.pool.perm, s.pool.free), "consume (empty): nothing changed");
            }
            let after = payloads(&q);
            let k: usize = kani::any();
            if k < N {
                assert!(after[k] == before[k],                                   "consume/release never write payload storage (u32 has no destructor)");
            }
            kani::cover!(true, "end of harness reachable (vacuity guard)");
        }

        // @props C08 C16 C01
        #[kani::proof] #[kani::unwind($unw)] #[kani::stub(std::hint::spin_loop, noop)]
        fn leak_then_publish_or_unleak() {
            let (q, s, _before) = any_zc::<N>();
            let base = pa::pool_base(&*q.allocator);
            let r = q.leak_slot();
            if s.pool.free > 0 {
                let id = s.pool.perm[0];
                let slot = match r { Some((slot, rid)) => { assert!(rid == id, "reserve: id == free[0]"); slot }, None => { assert!(false, "reserve: must succeed while a slot is free"); return } };
                assert!(slot as *mut u32 == unsafe { base.add(id as usize) }, "reserve: the reference is &pool[id]");
                assert!(queue_is(&q, s.q_origin, &s.pool.perm, s.pool.free, s.qn), "reserve: queue untouched (nothing deliverable yet)");
                let x: u32 = kani::any();
                *slot = x;
                if kani::any() {
                    let by_ref: bool = kani::any();
                    let len_after = if by_ref { q.publish_leaked_ref(slot) } else { q.publish_leaked_id(id) };
                    assert!(len_after.map(|l| l.get()) == Some(s.qn + 1),    "send reserved: accepted, len_after == |queue|+1 (never refused: |queue| <= |out|-1 < N)");
                    let mut expect = [0u32; N]; let mut i = 0;
                    while i < s.qn as usize { expect[i] = s.pool.perm[(s.pool.free as usize + i) % N]; i += 1; }
                    expect[s.qn as usize % N] = id;
                    assert!(queue_is(&q, s.q_origin, &expect, 0, s.qn + 1),  "send reserved: queue' = queue.push(id)");
                    assert!(payloads(&q)[id as usize] == x,                  "send reserved: delivers precisely the content written into the slot");
                    assert!(pa::free_list_is(&*q.allocator, s.pool.origin.wrapping_add(1), &shifted(&s.pool.perm), s.pool.free - 1), "send reserved: slot stays outstanding");
                } else {
                    let by_ref: bool = kani::any();
                    if by_ref { q.unleak_slot_ref(slot) } else { q.unleak_slot_id(id) };
                    assert!(queue_is(&q, s.q_origin, &s.pool.perm, s.pool.free, s.qn), "cancel: queue untouched -- the slot is never delivered");
                    let mut expected = shifted(&s.pool.perm); expected[(s.pool.free - 1) as usize] = id;
                    assert!(pa::free_list_is(&*q.allocator, s.pool.origin.wrapping_add(1), &expected, s.pool.free), "cancel: the slot is back in the free list (capacity restored)");
                }
            } else {
                assert!(r.is_none(),                                         "reserve: None iff the pool is exhausted");
                assert!(pa::free_list_is(&*q.allocator, s.pool.origin, &s.pool.perm, 0) && queue_is(&q, s.q_origin, &s.pool.perm, s.pool.free, s.qn), "reserve refused: nothing changed");
            }
            kani::cover!(true, "end of harness reachable (vacuity guard)");
        }

        // @props C01 C02 C05 C18
        #[kani::proof] #[kani::unwind($unw)] #[kani::stub(std::hint::spin_loop, noop)]
        fn consume_with_getter() {
            let (q, s, before) = any_zc::<N>();
            let empties = std::cell::Cell::new(0u32);
            let reported = std::cell::Cell::new(-1i32);
            let free_at_getter = std::cell::Cell::new(u32::MAX);
            let got = q.consume(|v| { free_at_getter.set(pa::free_count(&*q.allocator)); *v }, || { empties.set(empties.get() + 1); false }, |len| reported.set(len));
            if s.qn > 0 {
                assert!(free_at_getter.get() == s.pool.free,                 "consume(getter): while the getter reads the payload its slot is still outstanding (not yet allocatable by a producer)");
                let id = s.pool.perm[s.pool.free as usize % N];
                assert!(got == Some(before[id as usize]),                    "consume(getter): getter sees the payload of queue[0]");
                assert!(reported.get() == s.qn as i32 - 1 && empties.get() == 0, "consume(getter): reports len after dequeueing");
                assert!(pa::free_count(&*q.allocator) == s.pool.free + 1,    "consume(getter): slot released after the getter ran");
                assert!(q.available_elements_count() == s.qn as usize - 1,   "consume(getter): one less pending");
            } else {
                assert!(got.is_none() && empties.get() == 1,                 "consume(getter): None + empty reported once");
                assert!(pa::free_count(&*q.allocator) == s.pool.free,        "consume(getter) on empty: pool untouched");
            }
            kani::cover!(true, "end of harness reachable (vacuity guard)");
        }

        // @props C02 C16
        #[kani::proof] #[kani::unwind($unw)] #[kani::stub(std::hint::spin_loop, noop)]
        fn available_elements_count() {
            let (q, s, _) = any_zc::<N>();
            assert!(q.available_elements_count() == s.qn as usize && q.remaining_elements_count() == s.qn as usize, "pending count == |queue|");
            assert!(q.max_size() == N,                                       "max_size == BUFFER_SIZE");
            kani::cover!(true, "end of harness reachable (vacuity guard)");
        }
    } )* } }
    fszc_proofs! {
        n2: 2, 5;
        n4: 4, 7;
        n8: 8, 11;
    }
}
