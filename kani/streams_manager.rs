// Back end K support + harnesses for `StreamsManagerBase` (included from /repo/src/streams_manager.rs; private fields reachable).
//
// Abstract state (DESIGN §3.3): live ⊆ 0..M, vacant: FIFO sequence of the complement, keep: [bool; M], parked: which live
// streams have a waker registered. Inv_SM: used_streams = ascending(live) padded with u32::MAX; used_streams_count == |live|;
// wakers[i] == None for vacant i; vacant ring quiescent, duplicate-free.
// Inductive step: ARBITRARY Inv_SM state (every subset, every vacant order, every vacant-ring origin) -- one real operation.
//
// `StreamsManagerBase::new()` is NOT used (its String / Vec / try_into plumbing is irrelevant to every property and does not
// finish under symbolic execution); the struct is built field by field instead. `sync_vacant_and_used_streams()` (Vec::concat +
// sort_unstable, unbounded loop) is replaced in the callers' harnesses by the functional model `sync_model` below: the real function is
// verified against that same contract for every MAX_STREAMS by back end V (unit `streams_sync`).

// @module streams_manager
// @sizes sm_proofs: m1=quick m2=quick m4=quick
// @sizes sm_sync_proofs: s1=thorough s2=thorough
#[allow(unused_imports)] use super::*;
#[allow(unused_imports)] use crate::ogre_std::ogre_queues::atomic::atomic_move::verif_hooks::RingModel;
use std::task::{RawWaker, RawWakerVTable};

/// A waker whose wake-ups are counted in `WAKES[data]` -- `data` is the stream id the harness registered it for.
/// At every wake it also snapshots the keep-running flag of that stream (through `KEEP_PROBE`), so "flag first, wake second" is observable.
pub(crate) static WAKES: [AtomicU32; 8] = [AtomicU32::new(0), AtomicU32::new(0), AtomicU32::new(0), AtomicU32::new(0), AtomicU32::new(0), AtomicU32::new(0), AtomicU32::new(0), AtomicU32::new(0)];
pub(crate) static KEEP_AT_LAST_WAKE: [AtomicBool; 8] = [AtomicBool::new(true), AtomicBool::new(true), AtomicBool::new(true), AtomicBool::new(true), AtomicBool::new(true), AtomicBool::new(true), AtomicBool::new(true), AtomicBool::new(true)];
pub(crate) static KEEP_PROBE: std::sync::atomic::AtomicPtr<bool> = std::sync::atomic::AtomicPtr::new(std::ptr::null_mut());
/// C04 mechanism probe: what a consumer would find if it polled at the very instant of a wake-up (set by the channel-level kit)
pub(crate) static mut PENDING_PROBE: Option<fn() -> u32> = None;
pub(crate) static PENDING_AT_LAST_WAKE: AtomicU32 = AtomicU32::new(u32::MAX);
fn w_clone(p: *const ()) -> RawWaker { RawWaker::new(p, &VTABLE) }
fn w_wake(p: *const ()) {
    WAKES[p as usize].fetch_add(1, Relaxed);
    if let Some(f) = unsafe { PENDING_PROBE } { PENDING_AT_LAST_WAKE.store(f(), Relaxed); }
    let probe = KEEP_PROBE.load(Relaxed);
    if !probe.is_null() && (p as usize) < 4 { KEEP_AT_LAST_WAKE[p as usize].store(unsafe { *probe.add(p as usize) }, Relaxed); }
}
fn w_drop(_p: *const ()) {}
static VTABLE: RawWakerVTable = RawWakerVTable::new(w_clone, w_wake, w_wake, w_drop);
/// slots 0..3: the waker registered for stream i; slots 4..7: a *different* waker for stream i-4 (used to test waker replacement)
#[allow(dead_code)] pub(crate) fn counting_waker(slot: usize) -> Waker { unsafe { Waker::from_raw(RawWaker::new(slot as *const (), &VTABLE)) } }
#[allow(dead_code)] pub(crate) fn wakes(slot: usize) -> u32 { WAKES[slot].load(Relaxed) }
#[allow(dead_code)] pub(crate) fn total_wakes(upto: usize) -> u32 { let mut s = 0; let mut i = 0; while i < upto { s += wakes(i); i += 1; } s }

#[allow(dead_code)] #[derive(Clone, Copy)]
pub(crate) struct SmState<const M: usize> {
    pub live: [bool; M], pub order: [u32; M], pub keep: [bool; M], pub parked: [bool; M], pub v_origin: u32,
}
impl<const M: usize> SmState<M> {
    #[allow(dead_code)] pub(crate) fn live_count(&self) -> u32 { let mut c = 0; let mut i = 0; while i < M { if self.live[i] { c += 1; } i += 1; } c }
    /// the vacant FIFO: `order` (a permutation of 0..M) filtered by !live
    #[allow(dead_code)] pub(crate) fn vacant_seq(&self) -> ([u32; M], u32) {
        let mut v = [u32::MAX; M]; let mut n = 0usize; let mut i = 0;
        while i < M { let id = self.order[i]; if !self.live[id as usize] { v[n] = id; n += 1; } i += 1; }
        (v, n as u32)
    }
    #[allow(dead_code)] pub(crate) fn used_list(&self) -> [u32; M] {
        let mut u = [u32::MAX; M]; let mut n = 0usize; let mut i = 0;
        while i < M { if self.live[i] { u[n] = i as u32; n += 1; } i += 1; }
        u
    }
    /// "streams 0..s created in order, none dropped, all parked, all told to keep running" (the C04 scenario)
    #[allow(dead_code)] pub(crate) fn first_streams_parked(s: u32) -> Self {
        let mut st = SmState { live: [false; M], order: [0; M], keep: [false; M], parked: [false; M], v_origin: 0 };
        let mut i = 0; while i < M { st.order[i] = i as u32; if (i as u32) < s { st.live[i] = true; st.keep[i] = true; st.parked[i] = true; } i += 1; }
        st
    }
}

/// Builds a manager in the abstract state `s` WITHOUT going through `new()`
#[allow(dead_code)] pub(crate) fn manager_in_state<const MAX_STREAMS: usize>(s: &SmState<MAX_STREAMS>) -> StreamsManagerBase<MAX_STREAMS> {
    let vacant_streams = FullSyncMove::<u32, MAX_STREAMS>::new();
    let (vseq, vn) = s.vacant_seq();
    let mut content = [u32::MAX; MAX_STREAMS];
    let mut k = 0; while k < MAX_STREAMS { content[(s.v_origin as usize).wrapping_add(k) % MAX_STREAMS] = vseq[k]; k += 1; }
    vacant_streams.force(s.v_origin, vn, content);
    let live = s.live; let parked = s.parked;
    let wakers: [Option<Waker>; MAX_STREAMS] = std::array::from_fn(|i| if live[i] && parked[i] { Some(counting_waker(i)) } else { None });
    let n = s.live_count();
    let m = StreamsManagerBase {
        vacant_streams,
        used_streams:           UnsafeCell::new(Box::pin(s.used_list())),
        used_streams_count:     AtomicU32::new(n),
        created_streams_count:  AtomicU32::new(n),
        finished_streams_count: AtomicU32::new(0),
        wakers:                 UnsafeCell::new(Box::pin(wakers)),
        wakers_lock:            AtomicBool::new(false),
        keep_streams_running:   UnsafeCell::new(Box::pin(s.keep)),
        streams_lock:           AtomicBool::new(false),
        streams_manager_name:   String::new(),
    };
    KEEP_PROBE.store(unsafe { (&mut **m.keep_streams_running.get()).as_mut_ptr() }, Relaxed);
    m
}
#[allow(dead_code)] pub(crate) fn manager_with_streams<const MAX_STREAMS: usize>(live: u32, parked: bool) -> StreamsManagerBase<MAX_STREAMS> {
    let mut s = SmState::<MAX_STREAMS>::first_streams_parked(live);
    if !parked { s.parked = [false; MAX_STREAMS]; }
    manager_in_state(&s)
}

/// observers
#[allow(dead_code)] pub(crate) fn keep_of<const M: usize>(m: &StreamsManagerBase<M>) -> [bool; M] { unsafe { **m.keep_streams_running.get() } }
#[allow(dead_code)] pub(crate) fn used_of<const M: usize>(m: &StreamsManagerBase<M>) -> [u32; M] { unsafe { **m.used_streams.get() } }
#[allow(dead_code)] pub(crate) fn has_waker<const M: usize>(m: &StreamsManagerBase<M>, id: usize) -> bool { unsafe { (&**m.wakers.get())[id].is_some() } }
#[allow(dead_code)] pub(crate) fn waker_is<const M: usize>(m: &StreamsManagerBase<M>, id: usize, w: &Waker) -> bool { unsafe { (&**m.wakers.get())[id].as_ref().map(|x| x.will_wake(w)).unwrap_or(false) } }
#[allow(dead_code)] pub(crate) fn locks_free<const M: usize>(m: &StreamsManagerBase<M>) -> bool { !m.wakers_lock.load(Relaxed) && !m.streams_lock.load(Relaxed) }
/// the vacant FIFO as (sequence, length)
#[allow(dead_code)] pub(crate) fn vacant_of<const M: usize>(m: &StreamsManagerBase<M>) -> ([u32; M], u32) {
    let (_o, l, _c) = m.vacant_streams.snapshot();
    let mut v = [u32::MAX; M]; let mut k = 0; while k < l && (k as usize) < M { v[k as usize] = m.vacant_streams.seq_at(k); k += 1; }
    (v, l)
}

/// element-wise array equality (`==` on arrays compiles to memcmp, whose byte loop would need its own unwinding bound)
#[allow(dead_code)] pub(crate) fn arr_eq<T: PartialEq + Copy, const M: usize>(a: &[T; M], b: &[T; M]) -> bool { let mut i = 0; while i < M { if a[i] != b[i] { return false; } i += 1; } true }

/// functional model (== the contract) of `sync_vacant_and_used_streams`:
/// used_streams := ascending complement of the vacant ids within 0..MAX_STREAMS, padded with u32::MAX; takes and releases `streams_lock`
#[allow(dead_code)] pub(crate) fn sync_model<const MAX_STREAMS: usize>(this: &StreamsManagerBase<MAX_STREAMS>) {
    let used = unsafe { &mut * this.used_streams.get() };
    let [a, b] = unsafe { this.vacant_streams.peek_remaining() };
    let mut k = 0usize;
    let mut id = 0u32;
    while id < MAX_STREAMS as u32 {
        let mut vacant = false;
        let mut j = 0; while j < a.len() { if a[j] == id { vacant = true; } j += 1; }
        let mut j = 0; while j < b.len() { if b[j] == id { vacant = true; } j += 1; }
        if !vacant { used[k] = id; k += 1; }
        id += 1;
    }
    while k < MAX_STREAMS { used[k] = u32::MAX; k += 1; }
}

#[cfg(kani)]
pub(crate) mod proofs {
    use super::*;
    /// `_mm_pause` is not modelled by Kani; a spin hint has no effect on program state
    pub(crate) fn noop() {}
    /// insertion sort: the stub of `<[T]>::sort_unstable` in the harness of the REAL sync_vacant_and_used_streams (same contract: a sorted permutation; CBMC does
    /// not get through std's pattern-defeating quicksort in reasonable time)
    pub(crate) fn simple_sort<T: Ord>(v: &mut [T]) { let n = v.len(); let mut i = 1; while i < n { let mut j = i; while j > 0 && v[j-1] > v[j] { v.swap(j-1, j); j -= 1; } i += 1; } }

    pub(crate) fn any_sm_state<const M: usize>() -> SmState<M> {
        let s = SmState::<M> { live: kani::any(), order: kani::any(), keep: kani::any(), parked: kani::any(), v_origin: kani::any() };
        let mut i = 0;
        while i < M {
            kani::assume(s.order[i] < M as u32);
            let mut j = i + 1; while j < M { kani::assume(s.order[i] != s.order[j]); j += 1; }
            i += 1;
        }
        s
    }

    // @group sm_proofs
    macro_rules! sm_proofs { ($($modname:ident: $m:expr, $unw:expr;)*) => { $( mod $modname {
        use super::*;
        const M: usize = $m;

        // @props C10 C07
        #[kani::proof] #[kani::unwind($unw)] #[kani::stub(std::hint::spin_loop, noop)]
        #[kani::stub(StreamsManagerBase::sync_vacant_and_used_streams, sync_model)]
        fn create_stream_id() {
            let s = any_sm_state::<M>();
            kani::assume(s.live_count() < M as u32);
            let m = manager_in_state(&s);
            let (vseq, vn) = s.vacant_seq();
            let id = m.create_stream_id();
            assert!(id == vseq[0],                                           "create: hands out vacant[0] (FIFO of vacant ids)");
            assert!(id < M as u32 && !s.live[id as usize],                   "create: the id was not live");
            let mut s2 = s; s2.live[id as usize] = true;
            assert!(m.running_streams_count() == s.live_count() + 1,         "create: running-stream count == |live| after the call");
            assert!(arr_eq(&used_of(&m), &s2.used_list()),                           "create: used list == ascending(live + {id}), u32::MAX padded");
            let (v2, vn2) = vacant_of(&m);
            assert!(vn2 == vn - 1,                                           "create: one vacant id less");
            let k: usize = kani::any();
            if k < M && k + 1 < vn as usize {
                assert!(v2[k] == vseq[k + 1],                                    "create: vacant' = vacant.drop_first()");
            }
            let keep = keep_of(&m);
            assert!(keep[id as usize],                                       "create: the new stream is told to keep running");
            let j: usize = kani::any();
            if j < M && j != id as usize {
                assert!(keep[j] == s.keep[j],                                    "create: other streams' flags untouched");
                assert!(has_waker(&m, j) == (s.live[j] && s.parked[j]),          "create: other streams' wakers untouched");
                assert!(locks_free(&m),                                          "create: no lock left held");
            }
            kani::cover!(s.live_count() + 1 == M as u32, "creating the last possible stream");
            kani::cover!(true, "end of harness reachable (vacuity guard)");
        }

        // @props C10 C07
        #[kani::proof] #[kani::unwind($unw)] #[kani::stub(std::hint::spin_loop, noop)]
        #[kani::stub(StreamsManagerBase::sync_vacant_and_used_streams, sync_model)]
        fn report_stream_dropped() {
            let s = any_sm_state::<M>();
            let id: u32 = kani::any(); kani::assume(id < M as u32 && s.live[id as usize]);
            let m = manager_in_state(&s);
            let (vseq, vn) = s.vacant_seq();
            m.report_stream_dropped(id);
            let mut s2 = s; s2.live[id as usize] = false;
            assert!(m.running_streams_count() == s.live_count() - 1,         "drop: running-stream count == |live| after the call");
            assert!(arr_eq(&used_of(&m), &s2.used_list()),                           "drop: used list == ascending(live - {id})");
            let (v2, vn2) = vacant_of(&m);
            assert!(vn2 == vn + 1 && v2[vn as usize] == id,                  "drop: vacant' = vacant.push(id) -- the id becomes reusable");
            let k: usize = kani::any();
            if k < vn as usize {
                assert!(v2[k] == vseq[k],                                        "drop: rest of the vacant FIFO unchanged");
                assert!(!has_waker(&m, id as usize),                             "drop: the stream's waker is forgotten");
            }
            let j: usize = kani::any();
            if j < M && j != id as usize {
                assert!(has_waker(&m, j) == (s.live[j] && s.parked[j]),          "drop: other streams' wakers untouched");
                assert!(keep_of(&m)[j] == s.keep[j],                             "drop: other streams' flags untouched");
                assert!(locks_free(&m),                                          "drop: no lock left held");
            }
            kani::cover!(true, "end of harness reachable (vacuity guard)");
        }

        // @props C07 C06
        #[kani::proof] #[kani::unwind($unw)] #[kani::stub(std::hint::spin_loop, noop)]
        fn cancel_stream() {
            let s = any_sm_state::<M>();
            let id: u32 = kani::any(); kani::assume(id < M as u32 && s.live[id as usize]);
            let m = manager_in_state(&s);
            let w0 = wakes(id as usize);
            KEEP_AT_LAST_WAKE[id as usize].store(true, Relaxed);
            m.cancel_stream(id);
            assert!(!keep_of(&m)[id as usize],                               "cancel: the stream's keep-running flag is cleared");
            if s.parked[id as usize] {
                assert!(wakes(id as usize) == w0 + 1,                        "cancel: a parked stream is woken");
                assert!(!KEEP_AT_LAST_WAKE[id as usize].load(Relaxed),       "cancel: flag first, wake second (the woken stream already sees the end signal)");
            }
            let j: usize = kani::any();
            if j < M && j != id as usize {
                assert!(keep_of(&m)[j] == s.keep[j],                             "cancel: streams not targeted keep their flag");
                assert!(arr_eq(&used_of(&m), &s.used_list()) && m.running_streams_count() == s.live_count(), "cancel: the live set is unchanged until the stream is dropped");
                assert!(locks_free(&m),                                          "cancel: no lock left held");
            }
            kani::cover!(true, "end of harness reachable (vacuity guard)");
        }

        // @props C07 C06
        #[kani::proof] #[kani::unwind($unw)] #[kani::stub(std::hint::spin_loop, noop)]
        fn cancel_all_streams() {
            let s = any_sm_state::<M>();
            let m = manager_in_state(&s);
            let before = total_wakes(M);
            m.cancel_all_streams();
            let keep = keep_of(&m);
            let j: usize = kani::any(); kani::assume(j < M);
            if s.live[j] {
                assert!(!keep[j],                                            "cancel_all: every live stream is told to end");
            } else {
                assert!(keep[j] == s.keep[j],                                "cancel_all: flags of non-live ids untouched");
            }
            let mut parked_live = 0; let mut i = 0; while i < M { if s.live[i] && s.parked[i] { parked_live += 1; } i += 1; }
            assert!(total_wakes(M) == before + parked_live,                  "cancel_all: every parked live stream is woken exactly once");
            assert!(locks_free(&m),                                          "cancel_all: no lock left held");
            kani::cover!(true, "end of harness reachable (vacuity guard)");
        }

        // @props C04 C07
        #[kani::proof] #[kani::unwind($unw)] #[kani::stub(std::hint::spin_loop, noop)]
        fn wake_stream() {
            let s = any_sm_state::<M>();
            let id: u32 = kani::any(); kani::assume(id < M as u32);
            let m = manager_in_state(&s);
            let w0 = wakes(id as usize); let all0 = total_wakes(M);
            m.wake_stream(id);
            if s.live[id as usize] && s.parked[id as usize] {
                assert!(wakes(id as usize) == w0 + 1,                        "wake: the registered waker of that stream is invoked");
            }
            assert!(total_wakes(M) - all0 == wakes(id as usize) - w0,        "wake: no other stream's waker is invoked");
            assert!(locks_free(&m),                                          "wake: no lock left held");
            kani::cover!(true, "end of harness reachable (vacuity guard)");
        }

        // @props C04 C07 C09 C03
        #[kani::proof] #[kani::unwind($unw)] #[kani::stub(std::hint::spin_loop, noop)]
        fn register_stream_waker() {
            let s = any_sm_state::<M>();
            let id: u32 = kani::any(); kani::assume(id < M as u32 && s.live[id as usize]);
            let m = manager_in_state(&s);
            let same: bool = kani::any();           // re-registering the very same waker, or a different one
            let slot = if same { id as usize } else { id as usize + 4 };
            let w = counting_waker(slot);
            let w0 = wakes(slot);
            m.register_stream_waker(id, &w);
            assert!(waker_is(&m, id as usize, &w),                           "register: afterwards the stored waker wakes the registering task");
            if !(s.parked[id as usize] && same) {
                assert!(wakes(slot) >= w0 + 1,                               "register: when a waker is newly stored / replaced, the task is self-woken at least once (closes the missed-wake window)");
            }
            let j: usize = kani::any();
            if j < M && j != id as usize {
                assert!(has_waker(&m, j) == (s.live[j] && s.parked[j]),          "register: other streams' wakers untouched");
                assert!(locks_free(&m),                                          "register: no lock left held");
            }
            kani::cover!(true, "end of harness reachable (vacuity guard)");
        }

        // @props C06 C10 C07
        #[kani::proof] #[kani::unwind($unw)] #[kani::stub(std::hint::spin_loop, noop)]
        fn queries() {
            let s = any_sm_state::<M>();
            let m = manager_in_state(&s);
            assert!(m.running_streams_count() == s.live_count(),             "running_streams_count == |live|");
            let mut any = false; let mut i = 0; while i < M { any = any || s.keep[i]; i += 1; }
            assert!(m.is_any_stream_running() == any,                        "is_any_stream_running == exists id. keep[id]");
            let id: u32 = kani::any(); kani::assume(id < M as u32);
            assert!(m.keep_stream_running(id) == s.keep[id as usize],        "keep_stream_running(id) == keep[id]");
            assert!(arr_eq(m.used_streams(), &s.used_list()),                      "used_streams() == ascending(live), padded");
            kani::cover!(true, "end of harness reachable (vacuity guard)");
        }
    } )* } }
    sm_proofs! {
        m1: 1, 4;
        m2: 2, 5;
        m4: 4, 7;
    }

    // the REAL sync_vacant_and_used_streams (Vec::concat + the three rebuilding loops; sort_unstable stubbed by an insertion sort) from an arbitrary Inv_SM state whose
    // live list was scrambled: it must be rebuilt from the vacant ids alone. Back end V proves the same contract for every MAX_STREAMS but cannot follow
    // changes of the function's SHAPE (its proof hangs on three loop invariants); this harness can -- at MAX_STREAMS 1 and 2 only (4: CBMC runs out of memory)
    // @group sm_sync_proofs
    macro_rules! sm_sync_proofs { ($($modname:ident: $m:expr, $unw:expr;)*) => { $( mod $modname {
        use super::*;
        const M: usize = $m;
        // @props C10 C03 C06 C07
        #[kani::proof] #[kani::unwind($unw)] #[kani::stub(std::hint::spin_loop, noop)]
        #[kani::stub(<[u32]>::sort_unstable, simple_sort)]
        fn sync_vacant_and_used_streams_real() {
            let s = any_sm_state::<M>();
            let m = manager_in_state(&s);
            { let used = unsafe { &mut **m.used_streams.get() }; *used = kani::any(); }
            m.sync_vacant_and_used_streams();
            assert!(arr_eq(&used_of(&m), &s.used_list()),                         "sync: used list == ascending complement of the vacant ids, u32::MAX padded");
            assert!(locks_free(&m),                                               "sync: no lock left held");
            kani::cover!(true, "end of harness reachable (vacuity guard)");
        }
    } )* } }
    sm_sync_proofs! {
        s1: 1, 4;
        s2: 2, 5;
    }
}
