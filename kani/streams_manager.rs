// Back end K support + harnesses for `StreamsManagerBase` (included from /repo/src/streams_manager.rs).
// @module streams_manager
#[allow(unused_imports)] use super::*;
use std::task::{RawWaker, RawWakerVTable};

/// A waker whose wake-ups are counted in `WAKES[data]` -- `data` is the stream id the test registered it for.
pub(crate) static WAKES: [AtomicU32; 4] = [AtomicU32::new(0), AtomicU32::new(0), AtomicU32::new(0), AtomicU32::new(0)];
fn w_clone(p: *const ()) -> RawWaker { RawWaker::new(p, &VTABLE) }
fn w_wake(p: *const ()) { WAKES[p as usize].fetch_add(1, Relaxed); }
fn w_drop(_p: *const ()) {}
static VTABLE: RawWakerVTable = RawWakerVTable::new(w_clone, w_wake, w_wake, w_drop);
#[allow(dead_code)] pub(crate) fn counting_waker(slot: usize) -> Waker { unsafe { Waker::from_raw(RawWaker::new(slot as *const (), &VTABLE)) } }
#[allow(dead_code)] pub(crate) fn wakes(slot: usize) -> u32 { WAKES[slot].load(Relaxed) }

/// Builds a manager WITHOUT going through `new()` (whose `String`/`Vec` plumbing is irrelevant to every property and very
/// expensive to execute symbolically) and puts it in the state "streams `0..live` created in order, none dropped".
#[allow(dead_code)] pub(crate) fn manager_with_streams<const MAX_STREAMS: usize>(live: u32, parked: bool) -> StreamsManagerBase<MAX_STREAMS> {
    let vacant_streams = FullSyncMove::<u32, MAX_STREAMS>::new();
    let mut id = live;
    while id < MAX_STREAMS as u32 { vacant_streams.publish_movable(id); id += 1; }
    let mut used = [u32::MAX; MAX_STREAMS];
    let mut keep = [false; MAX_STREAMS];
    let mut i = 0;
    while i < live as usize { used[i] = i as u32; keep[i] = true; i += 1; }
    let wakers: [Option<Waker>; MAX_STREAMS] = std::array::from_fn(|i| if parked && (i as u32) < live { Some(counting_waker(i)) } else { None });
    StreamsManagerBase {
        vacant_streams,
        used_streams:           UnsafeCell::new(Box::pin(used)),
        used_streams_count:     AtomicU32::new(live),
        created_streams_count:  AtomicU32::new(live),
        finished_streams_count: AtomicU32::new(0),
        wakers:                 UnsafeCell::new(Box::pin(wakers)),
        wakers_lock:            AtomicBool::new(false),
        keep_streams_running:   UnsafeCell::new(Box::pin(keep)),
        streams_lock:           AtomicBool::new(false),
        streams_manager_name:   String::new(),
    }
}

#[cfg(kani)]
pub(crate) mod proofs {
    use super::*;
    pub(crate) fn noop() {}

    /// functional model of `sync_vacant_and_used_streams` (the real one is verified separately by back end V for every MAX_STREAMS):
    /// used_streams := ascending complement of the vacant ids, padded with u32::MAX
    pub(crate) fn sync_model<const MAX_STREAMS: usize>(this: &StreamsManagerBase<MAX_STREAMS>) {
        let used = unsafe { &mut * this.used_streams.get() };
        let [a, b] = unsafe { this.vacant_streams.peek_remaining() };
        let mut k = 0usize;
        let mut id = 0u32;
        while id < MAX_STREAMS as u32 {
            let mut vacant = false;
            let mut j = 0; while j < a.len() { if a[j] == id { vacant = true; } j += 1; }
            let mut j = 0; while j < b.len() { if b[j] == id { vacant = true; } j += 1; }
            if !vacant { used[k] = id; k += 1; }
            id += 1;
        }
        while k < MAX_STREAMS { used[k] = u32::MAX; k += 1; }
    }

    // @props C10
    #[kani::proof] #[kani::unwind(8)] #[kani::stub(std::hint::spin_loop, noop)]
    #[kani::stub(StreamsManagerBase::sync_vacant_and_used_streams, sync_model)]
    fn probe_create_stream_id() {
        const M: usize = 2;
        let live: u32 = kani::any(); kani::assume(live < M as u32);
        let m = manager_with_streams::<M>(live, false);
        let id = m.create_stream_id();
        assert!(id == live, "next id");
        assert!(m.running_streams_count() == live + 1, "count");
        assert!(m.used_streams()[live as usize] == live, "used list");
    }
}
